#!/venv/bin/python
"""C17: Load [O] of a file that fails half-way (valid lines, then undecodable bytes beyond the first read buffer): try_load()
reports the failure, but the lines before it were applied. _handle_load_result() rebuilt the displayed list only on success,
so a row hidden by the applied part stayed highlighted; the next reset on it raised ValueError in _update_menu().
exit 0 = after a failed load every displayed row is one shown_nodes() yields and a reset does not raise."""
import os, sys, tempfile, shutil
root = sys.argv[1] if len(sys.argv) > 1 else "/repo"
sys.path.insert(0, root)
import esp_kconfiglib.core as kc  # noqa: E402
from esp_menuconfig.model import MenuConfigState  # noqa: E402
from esp_menuconfig.app import MenuConfigApp  # noqa: E402
d = tempfile.mkdtemp()
open(os.path.join(d, "Kconfig"), "w").write('mainmenu "t"\nconfig A\n    bool "a"\n    default y\nconfig B\n    bool "b"\n    depends on A\n')
bad = os.path.join(d, "half")
open(bad, "wb").write(b"# CONFIG_A is not set\n" + b"# filler\n" * 4000 + b"\xff\xfe\n")
k = kc.Kconfig(os.path.join(d, "Kconfig")); k.warn = False
st = MenuConfigState(k, f"{d}/sdkconfig", f"{d}/min", False)
st.sel_node_i = [i for i, n in enumerate(st.shown) if n.item is k.syms["B"]][0]
app = MenuConfigApp(st)
app._refresh_menu = lambda *a, **kw: None
msgs = []
app.notify = lambda *a, **kw: msgs.append((a, kw))
rc = 0
try:
    app._handle_load_result(bad)
    print("A =", k.syms["A"].str_value, "notified:", [m[1].get("severity") for m in msgs])
    fresh = st.shown_nodes(st.cur_menu) if not st.show_all else st.shown
    stale = [n.prompt[0] for n in st.shown if n not in fresh]
    print("stale rows:", stale)
    st.restore_default(st.selected_node)
    rc = 1 if stale else 0
except Exception as e:
    print("DEFECT:", type(e).__name__, str(e)[:80]); rc = 1
shutil.rmtree(d)
sys.exit(rc)
