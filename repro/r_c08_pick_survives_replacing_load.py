#!/venv/bin/python
"""C08/C05/C03: choice {A (default), B}; B.set_value(y); then load_config(replace=True) of a file the tool wrote for the untouched
tree, in which the choice's members are default-marked only. The replacing load must give what a fresh instance gives for
that file (A selected, no user pick); instead B stays the user's selection: Choice.resolve_defaults() sees the stale
_user_selection, takes its `user-set all members` branch and marks the choice as set, so the `unset what the file did
not set` tail skips it. exit 0 = the replacing load equals a fresh load."""
import os, sys, tempfile, shutil
root = sys.argv[1] if len(sys.argv) > 1 else "/repo"
sys.path.insert(0, root)
import esp_kconfiglib.core as kc  # noqa: E402
d = tempfile.mkdtemp()
kp = os.path.join(d, "Kconfig")
open(kp, "w").write('mainmenu "t"\nchoice CH\n    prompt "ch"\n    default A\nconfig A\n    bool "a"\nconfig B\n    bool "b"\nconfig C\n    bool "c"\nendchoice\n')
f = os.path.join(d, "sdkconfig")
k0 = kc.Kconfig(kp); k0.warn = False
k0.write_config(f)
k = kc.Kconfig(kp); k.warn = False
k.syms["B"].set_value(2)
k.load_config(f, replace=True)
fresh = kc.Kconfig(kp); fresh.warn = False
fresh.load_config(f)
got = {n: k.syms[n].str_value for n in "ABC"}
want = {n: fresh.syms[n].str_value for n in "ABC"}
print("after the replacing load:", got, "user selection:", getattr(k.named_choices["CH"]._user_selection, "name", None))
print("fresh instance:          ", want)
shutil.rmtree(d)
sys.exit(0 if got == want and k.named_choices["CH"]._user_selection is None else 1)
