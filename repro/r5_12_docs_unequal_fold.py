"""5.12: gen_kconfig_doc._minimize_expr folds `A != B` to n whenever A and B are different
operands, hiding visible options from the docs. exit 0 = absent."""
import os, sys, tempfile
os.environ["IDF_TARGET"] = "esp32"
import esp_kconfiglib.core as kl
import esp_idf_kconfig.gen_kconfig_doc as gd
d = tempfile.mkdtemp()
open(f"{d}/Kconfig", "w").write('''mainmenu "t"
config MODE
    string "mode"
    default "fast"
config B2
    string "b2"
    default "x"
config OPT1
    bool "opt1"
    depends on MODE != "slow"
config OPT2
    bool "opt2"
    depends on MODE != B2
config OPT3
    bool "opt3"
    depends on MODE != MODE
''')
k = kl.Kconfig(f"{d}/Kconfig")
vis = gd.ConfigTargetVisibility(k, "esp32")
gd.write_docs(k, vis, f"{d}/out.rst")
txt = open(f"{d}/out.rst").read()
res = {n: f".. _CONFIG_{n}:" in txt for n in ("OPT1", "OPT2", "OPT3")}
print(res, "runtime visibility:", {n: k.syms[n].visibility for n in res})
sys.exit(0 if res == {"OPT1": True, "OPT2": True, "OPT3": False} else 1)
