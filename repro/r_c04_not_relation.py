#!/venv/bin/python
"""C04: `depends on !A = C`: parser 1 reads `!(A = C)` (a relation is between two symbols; `!` applies to the relation),
parser 2 builds `(!A) = C`, a tree the evaluator and expr_str() cannot handle. exit 0 = both parsers agree."""
import os, sys, tempfile, shutil
root = sys.argv[1] if len(sys.argv) > 1 else "/repo"
sys.path.insert(0, root)
d = tempfile.mkdtemp()
open(os.path.join(d, "Kconfig"), "w").write('mainmenu "t"\nconfig A\n    string "a"\n    default "x"\nconfig C\n    string "c"\n    default "x"\nconfig X\n    bool "x"\n    depends on !A = C\n')
res = {}
for v in ("1", "2"):
    os.environ["KCONFIG_PARSER_VERSION"] = v
    for m in [m for m in sys.modules if m.startswith("esp_kconfiglib")]:
        del sys.modules[m]
    import esp_kconfiglib.core as kc
    try:
        k = kc.Kconfig(os.path.join(d, "Kconfig"))
        X = k.syms["X"]
        X.set_value(2)
        res[v] = (kc.expr_str(X.direct_dep), X.str_value)
    except Exception as e:
        res[v] = f"{type(e).__name__}: {e}"
shutil.rmtree(d)
print(res)
sys.exit(0 if res["1"] == res["2"] else 1)
