"""5.11 (R17.3): the menuconfig input validator accepts a negative hex value that Symbol.set_value rejects, so a value the
validator accepts is not the value the option then has. exit 0 = absent."""
import sys, tempfile
import esp_kconfiglib.core as kl
from esp_menuconfig.formatting import check_valid
d = tempfile.mkdtemp()
open(f"{d}/Kconfig", "w").write('mainmenu "t"\nconfig H\n    hex "h"\n    default 0x10\n')
k = kl.Kconfig(f"{d}/Kconfig")
h = k.syms["H"]
ok, err = check_valid(h, "-5")
applied = h.set_value("0x-5") if ok else None   # the app prefixes 0x before applying
print("validator accepts -5:", ok, "| set_value accepts it:", applied, "| value:", h.str_value)
sys.exit(1 if ok and not applied else 0)
