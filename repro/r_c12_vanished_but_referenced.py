#!/venv/bin/python
"""C12: an option disappears from the tree but is still referenced somewhere (`default y if GONE`): its name stays in Kconfig.syms
as an undefined symbol, _load_old_vals() takes the `name in self.syms` branch and its trigger file is never touched, although
auto.conf drops its line. exit 0 = gone/.cdep is touched by the sync after the option vanished."""
import os, sys, tempfile, shutil, time
root = sys.argv[1] if len(sys.argv) > 1 else "/repo"
sys.path.insert(0, root)
import esp_kconfiglib.core as kc  # noqa: E402
d = tempfile.mkdtemp()
v1 = 'mainmenu "t"\nconfig GONE\n    bool "gone"\n    default y\nconfig KEEP\n    bool "keep"\n    default y if GONE\n'
v2 = 'mainmenu "t"\nconfig KEEP\n    bool "keep"\n    default y if GONE\n'
deps = os.path.join(d, "deps")
open(os.path.join(d, "Kconfig"), "w").write(v1)
kc.Kconfig(os.path.join(d, "Kconfig")).sync_deps(deps)
cdep = os.path.join(deps, "gone.cdep")
old = time.time() - 1000
os.utime(cdep, (old, old))
open(os.path.join(d, "Kconfig"), "w").write(v2)
kc.Kconfig(os.path.join(d, "Kconfig")).sync_deps(deps)
touched = os.path.getmtime(cdep) > old + 1
print("auto.conf:", open(os.path.join(deps, "auto.conf")).read().split(), "gone.cdep touched:", touched)
shutil.rmtree(d)
sys.exit(0 if touched else 1)
