"""5.6 / 5.14 (R14.2): (a) the `ranges` channel only ever reports keys that currently have an active range, and diff()
only reports keys of the new snapshot, so a range that switches off is never withdrawn: the client keeps [0, 32] while a
fresh server reports no range; (b) a prompted `option env` symbol is reported visible but has no entry in `values`.
exit 0 = absent."""
import json, os, subprocess, sys, tempfile
d = tempfile.mkdtemp()
open(f"{d}/Kconfig", "w").write('''mainmenu "t"
config R
    bool "r"
    default y
config H
    hex "h"
    default 0x10
    range 0 0x20 if R
config ENVSYM
    string "env sym"
    option env="MY_ENV_FOR_TEST"
''')
open(f"{d}/sdkconfig", "w").write("")
env = dict(os.environ, MY_ENV_FOR_TEST="hello")
def server(lines):
    r = subprocess.run([sys.executable, "-m", "kconfserver", "--kconfig", f"{d}/Kconfig", "--config", f"{d}/sdkconfig"],
                       input="".join(json.dumps(l) + "\n" for l in lines), capture_output=True, text=True, cwd=d, env=env, timeout=60)
    return [json.loads(l) for l in r.stdout.splitlines() if l.strip()]
out = server([{"version": 3, "set": {"R": False}}, {"version": 3, "save": f"{d}/sdkconfig"}])
client_ranges = dict(out[0]["ranges"])
for rep in out[1:]:
    client_ranges.update(rep.get("ranges", {}))
fresh = server([])[0]
bad = []
print("client ranges:", client_ranges, "fresh server ranges:", fresh["ranges"])
if client_ranges != fresh["ranges"]: bad.append("ranges out of sync")
init = out[0]
print("ENVSYM visible:", init["visible"].get("ENVSYM"), "in values:", "ENVSYM" in init["values"])
if init["visible"].get("ENVSYM") and "ENVSYM" not in init["values"]: bad.append("visible option missing from values")
print(bad); sys.exit(1 if bad else 0)
