#!/venv/bin/python
"""C09: `config S bool "s" default y` with `set X="[/a]"` on an int X: accepted; evaluating X logs a note that interpolates the
literal unescaped into Rich markup -> rich.errors.MarkupError out of X.str_value. exit 0 = evaluates."""
import os, sys, tempfile, shutil
root = sys.argv[1] if len(sys.argv) > 1 else "/repo"
sys.path.insert(0, root)
import esp_kconfiglib.core as kc  # noqa: E402
d = tempfile.mkdtemp()
open(os.path.join(d, "Kconfig"), "w").write('mainmenu "t"\nconfig X\n    int "x"\n    default 3\nconfig S\n    bool "s"\n    default y\n    set X="[/a]"\nconfig W\n    bool "w"\n    default y\n    set default X="[/b]"\n')
rc = 0
try:
    k = kc.Kconfig(os.path.join(d, "Kconfig"))
    print("X =", k.syms["X"].str_value)
    k.syms["S"].set_value(0)
    print("X =", k.syms["X"].str_value)
except Exception as e:  # noqa: BLE001
    print("raises", type(e).__name__, str(e)[:80])
    rc = 1
shutil.rmtree(d)
sys.exit(rc)
