#!/venv/bin/python
"""C19: `"sdkconfig.rename" in file` is a substring test on the whole path: a defaults file in a directory whose name contains
`sdkconfig.rename` is taken for a rename file, removed from the list and never checked (exit status 0, `no files specified`).
exit 0 = the file is checked and flagged."""
import os, sys, subprocess, tempfile, shutil
root = sys.argv[1] if len(sys.argv) > 1 else "/repo"
d = tempfile.mkdtemp()
idf = os.path.join(d, "idf")
os.makedirs(os.path.join(idf, "components", "c"))
open(os.path.join(idf, "components", "c", "sdkconfig.rename"), "w").write("CONFIG_G_OLD CONFIG_G_NEW\n")
res = {}
for sub in ("plain", "sdkconfig.rename_demo"):
    p = os.path.join(idf, "examples", sub)
    os.makedirs(p)
    f = os.path.join(p, "sdkconfig.defaults")
    open(f, "w").write("CONFIG_G_OLD=y\n")
    r = subprocess.run([sys.executable, "-m", "kconfcheck", "--check", "deprecated", f], cwd=root, env=dict(os.environ, PYTHONPATH=root, IDF_PATH=idf),
                       capture_output=True, text=True)
    res[sub] = r.returncode
    print(sub, "exit", r.returncode, (r.stdout + r.stderr).strip().splitlines()[-1][:100])
shutil.rmtree(d)
sys.exit(0 if res["plain"] == res["sdkconfig.rename_demo"] == 1 else 1)
