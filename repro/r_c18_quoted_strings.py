#!/venv/bin/python
"""C18: compliant Kconfig lines whose quoted string contains the word `if` or an escaped quote are reported as errors and
`--replace` rewrites the string content (upper-casing words inside it). exit 0 = such a file is reported OK and left alone."""
import os, sys, tempfile, shutil, subprocess
root = sys.argv[1] if len(sys.argv) > 1 else "/repo"
d = tempfile.mkdtemp()
src = '''menu "Test"

    config TEST_MODE
        bool "mode"
        default y

    config TEST_TEXT
        string "text"
        default "go if ready"
        default "say \\"hi\\" now" if TEST_MODE

endmenu
'''
p = os.path.join(d, "Kconfig")
open(p, "w").write(src)
r = subprocess.run([sys.executable, "-m", "kconfcheck", "--replace", p], cwd=root, env=dict(os.environ, PYTHONPATH=root), capture_output=True, text=True)
after = open(p).read()
print("exit", r.returncode, "| unchanged:", after == src)
if after != src:
    import difflib
    print("".join(list(difflib.unified_diff(src.splitlines(1), after.splitlines(1)))[:12]))
shutil.rmtree(d)
sys.exit(0 if r.returncode == 0 and after == src else 1)
