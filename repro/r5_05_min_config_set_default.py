"""5.5 (R10.1): Symbol._str_default ignores `set default` (weak_rev_values): a user value equal to the plain default is
omitted from the minimal configuration although an active `set default` overrides that default, so the reload yields
the `set default` value. exit 0 = absent."""
import sys, tempfile
import esp_kconfiglib.core as kl
d = tempfile.mkdtemp()
open(f"{d}/Kconfig", "w").write('''mainmenu "t"
config EN
    bool "en"
    default y
    set default TGT=7
config TGT
    int "tgt"
    default 5
''')
k = kl.Kconfig(f"{d}/Kconfig")
print("without user value:", k.syms["TGT"].str_value)
k.syms["TGT"].set_value("5")
orig = {s.name: s.str_value for s in k.unique_defined_syms}
k.write_min_config(f"{d}/min")
print("minimal file:", repr(open(f"{d}/min").read()))
k2 = kl.Kconfig(f"{d}/Kconfig"); k2.load_config(f"{d}/min")
new = {s.name: s.str_value for s in k2.unique_defined_syms}
print("original", orig, "reloaded", new)
sys.exit(0 if orig == new else 1)
