#!/venv/bin/python
"""C06: `config I int default S` with the string option S = "abc" (parser: NOTE only): I evaluates to `abc`, the header gets
`#define CONFIG_I abc`, get_json_values raises ValueError; same for a float option. exit 0 = values are numbers or empty."""
import os, sys, tempfile, shutil
root = sys.argv[1] if len(sys.argv) > 1 else "/repo"
sys.path.insert(0, root)
import esp_kconfiglib.core as kc  # noqa: E402
import kconfgen.core as kg  # noqa: E402
d = tempfile.mkdtemp()
open(os.path.join(d, "Kconfig"), "w").write(
    'mainmenu "t"\nconfig S\n    string "s"\n    default "5"\nconfig I\n    int "i"\n    default S\nconfig F\n    float "f"\n    default S\n')
k = kc.Kconfig(os.path.join(d, "Kconfig"))
k.syms["S"].set_value("abc")
bad = []
for n in ("I", "F"):
    v = k.syms[n].str_value
    print(n, "=", repr(v))
    if v not in ("",) and not (kc._is_base_n(v, 10) if n == "I" else kc.is_float(v)):
        bad.append(n)
try:
    kg.get_json_values(k)
except ValueError as e:
    print("get_json_values raises:", e)
    bad.append("json")
shutil.rmtree(d)
sys.exit(1 if bad else 0)
