"""5.2: parser 2 stores the raw (unconverted) condition of `imply X if COND`.
exit 0 = defect absent (both parsers load and agree)."""
import os, subprocess, sys, tempfile, textwrap
KC = "mainmenu \"t\"\n" + textwrap.dedent('''
    config H
        hex "h"
        default 0x10
    config A
        bool "a"
    config B
        bool "b"
        default y
        imply A if H = 0x10
''')
if len(sys.argv) > 1:
    import esp_kconfiglib.core as kconfiglib
    k = kconfiglib.Kconfig(sys.argv[1])
    print(k.syms["A"].str_value, kconfiglib.expr_str(k.syms["A"].weak_rev_dep))
    sys.exit(0)
d = tempfile.mkdtemp(); p = os.path.join(d, "Kconfig"); open(p, "w").write(KC)
outs = []
for v in ("1", "2"):
    r = subprocess.run([sys.executable, __file__, p], env=dict(os.environ, KCONFIG_PARSER_VERSION=v), capture_output=True, text=True)
    print("parser", v, "rc", r.returncode, r.stdout.strip(), r.stderr.strip().splitlines()[-1:] )
    outs.append((r.returncode, r.stdout))
sys.exit(0 if outs[0] == outs[1] and outs[0][0] == 0 else 1)
