#!/venv/bin/python
"""C11/C02: a visible int option without a value has an alias; the tool writes `CONFIG_OLD_N=` into the deprecated block. Loading
that file again with load_deprecated=True raises IndexError (`val[0]` on the empty value) in _create_new_deprecated_symbol.
exit 0 = the tool's own file loads."""
import os, sys, tempfile, shutil
root = sys.argv[1] if len(sys.argv) > 1 else "/repo"
sys.path.insert(0, root)
import esp_kconfiglib.core as kc  # noqa: E402
d = tempfile.mkdtemp()
open(os.path.join(d, "Kconfig"), "w").write('mainmenu "t"\nconfig N\n    int "n"\nconfig B\n    bool "b"\n    default y\n')
open(os.path.join(d, "ren"), "w").write("CONFIG_OLD_N CONFIG_N\nCONFIG_OLD_B CONFIG_B\n")
k = kc.Kconfig(os.path.join(d, "Kconfig"))
k.load_rename_files([os.path.join(d, "ren")])
cfg = os.path.join(d, "sdkconfig")
k.write_config(cfg, write_deprecated=True)
print([l for l in open(cfg).read().splitlines() if "OLD_" in l])
rc = 0
try:
    k2 = kc.Kconfig(os.path.join(d, "Kconfig"))
    k2.load_rename_files([os.path.join(d, "ren")])
    k2.load_config(cfg, load_deprecated=True)
    print("loaded; OLD_B =", k2.eval_string("OLD_B"))
except Exception as e:  # noqa: BLE001
    print("load raises", type(e).__name__, e)
    rc = 1
shutil.rmtree(d)
sys.exit(rc)
