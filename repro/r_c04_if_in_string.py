#!/venv/bin/python
"""C04: `default "say if so"` / `prompt "use if needed"`: parser 2 takes the word `if` inside the quoted string for the
start of a condition. exit 0 = both parsers build the same defaults."""
import os, sys, tempfile, shutil
root = sys.argv[1] if len(sys.argv) > 1 else "/repo"
sys.path.insert(0, root)
d = tempfile.mkdtemp()
open(os.path.join(d, "Kconfig"), "w").write('mainmenu "t"\nconfig C\n    bool "c"\nconfig S\n    string "s"\n    default "say if so"\n    default "go if ready" if C\n')
res = {}
for v in ("1", "2"):
    os.environ["KCONFIG_PARSER_VERSION"] = v
    for m in [m for m in sys.modules if m.startswith("esp_kconfiglib")]:
        del sys.modules[m]
    import esp_kconfiglib.core as kc
    try:
        k = kc.Kconfig(os.path.join(d, "Kconfig"))
        S = k.syms["S"]
        res[v] = ([(kc.expr_str(a), kc.expr_str(b)) for a, b in S.defaults], S.str_value)
    except Exception as e:
        res[v] = f"{type(e).__name__}: {str(e)[:80]}"
shutil.rmtree(d)
print(res)
sys.exit(0 if res["1"] == res["2"] else 1)
