#!/venv/bin/python
"""C07: alias of a visible string option whose value is "": sdkconfig and CMake list the alias, the header defines the option
(`#define CONFIG_ES ""`) but not its alias (the header's presence test requires a non-empty value). exit 0 = the alias is in
all three or in none."""
import os, re, sys, tempfile, shutil
root = sys.argv[1] if len(sys.argv) > 1 else "/repo"
sys.path.insert(0, root)
import esp_kconfiglib.core as kc  # noqa: E402
import kconfgen.core as kg  # noqa: E402
d = tempfile.mkdtemp()
open(os.path.join(d, "Kconfig"), "w").write('mainmenu "t"\nconfig ES\n    string "es"\n    default ""\n')
open(os.path.join(d, "ren"), "w").write("CONFIG_OLD_ES CONFIG_ES\n")
k = kc.Kconfig(os.path.join(d, "Kconfig"))
k.load_rename_files([os.path.join(d, "ren")])
outs = {}
for fmt, fn in (("config", kg.write_config), ("header", kg.write_header), ("cmake", kg.write_cmake)):
    p = os.path.join(d, fmt)
    fn(k, p)
    outs[fmt] = bool(re.search(r"\bCONFIG_OLD_ES\b", open(p).read()))
shutil.rmtree(d)
print(outs)
sys.exit(0 if len(set(outs.values())) == 1 else 1)
