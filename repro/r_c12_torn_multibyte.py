#!/venv/bin/python
"""C12: auto.conf partially written - cut inside a multi-byte character of a string value (the process died in the write).
Every rerun of sync_deps() then raises UnicodeDecodeError from _load_old_vals() (not an EnvironmentError, nothing catches it):
the rerun never completes, no trigger is delivered. exit 0 = the rerun completes and touches the option whose record was torn."""
import os, sys, tempfile, shutil
root = sys.argv[1] if len(sys.argv) > 1 else "/repo"
sys.path.insert(0, root)
import esp_kconfiglib.core as kc  # noqa: E402
d = tempfile.mkdtemp()
open(os.path.join(d, "Kconfig"), "w", encoding="utf-8").write('mainmenu "t"\nconfig A\n    bool "a"\n    default y\nconfig GREETING\n    string "g"\n    default "grüß"\n')
deps = os.path.join(d, "deps")
k = kc.Kconfig(os.path.join(d, "Kconfig"))
k.sync_deps(deps)
auto = os.path.join(deps, "auto.conf")
raw = open(auto, "rb").read()
cut = raw.index("ü".encode("utf-8")) + 1          # in the middle of the two-byte character
open(auto, "wb").write(raw[:cut])
rc = 0
try:
    k2 = kc.Kconfig(os.path.join(d, "Kconfig"))
    k2.sync_deps(deps)
    print("rerun completed; auto.conf restored:", open(auto, "rb").read() == raw)
except UnicodeDecodeError as e:
    print("rerun raises UnicodeDecodeError:", str(e)[:80])
    rc = 1
shutil.rmtree(d)
sys.exit(rc)
