#!/venv/bin/python
"""C03 (R03.7): Symbol.str_value leaves _has_active_indirect_set untouched when the first active `set` entry carries a
literal that is not a number of the target's type (INT/HEX and FLOAT branches `break` without assigning the flag): the
flag then keeps whatever an earlier evaluation stored, so the value depends on history. exit 0 = defect absent."""
import os, sys, tempfile
root = sys.argv[1] if len(sys.argv) > 1 else "/repo"
sys.path.insert(0, root)
os.environ.setdefault("KCONFIG_PARSER_VERSION", "1")
import esp_kconfiglib.core as kc  # noqa: E402

K = '''mainmenu "t"
config TARGET
    int "Target"
    default 3
config SRC_BAD
    bool "bad"
    set TARGET="abc"
config SRC_GOOD
    bool "good"
    set TARGET=7
'''
d = tempfile.mkdtemp()
p = os.path.join(d, "Kconfig")
open(p, "w").write(K)

def fresh():
    return kc.Kconfig(p)

a = fresh()
T = a.syms["TARGET"]
T.set_value("5")
a.syms["SRC_GOOD"].set_value(2)
_ = T.str_value                       # 7, flag True
a.syms["SRC_BAD"].set_value(2)
hist = (T.str_value, T.config_string)
a._invalidate_all()
hist2 = (T.str_value, T.config_string)

b = fresh()
b.syms["TARGET"].set_value("5")
b.syms["SRC_GOOD"].set_value(2)
b.syms["SRC_BAD"].set_value(2)
fr = (b.syms["TARGET"].str_value, b.syms["TARGET"].config_string)
print("history :", hist)
print("recomp  :", hist2)
print("fresh   :", fr)
import shutil; shutil.rmtree(d)
sys.exit(0 if hist == fr == hist2 else 1)
