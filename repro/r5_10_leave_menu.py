"""5.10: MenuConfigState.leave_menu() does .index() on a list the current menu may not be in.
exit 0 = absent."""
import sys, tempfile
import esp_kconfiglib.core as kl
from esp_menuconfig.model import MenuConfigState
d = tempfile.mkdtemp()
open(f"{d}/Kconfig", "w").write('''mainmenu "t"
config V
    bool "v"
menu "OUTER"
    visible if V
    menu "INNER"
        config X
            bool "x"
    endmenu
endmenu
''')
k = kl.Kconfig(f"{d}/Kconfig")
st = MenuConfigState(k, f"{d}/sdkconfig", f"{d}/min", False)
st.toggle_show_all()
outer = [n for n in st.shown if n.prompt and n.prompt[0] == "OUTER"][0]
assert st.enter_menu(outer)
st.toggle_show_all()
print("show_all", st.show_all, "cur", st.cur_menu.prompt[0])
try:
    st.leave_menu(); print("left to", st.cur_menu.prompt[0], "sel", st.sel_node_i, len(st.shown))
except ValueError as e:
    print("ValueError", e); sys.exit(1)
