#!/venv/bin/python
"""C14: `python -m kconfserver --version N` ("Set protocol version to use on initial status") was parsed, range-checked and then
dropped: main() called run_server() without it, so the initial message was always in version 3 format - a version 1 client
never gets the v1 form (invisible options as null), a version 2 client gets a `defaults` channel it does not know.
exit 0 = the initial message carries the requested version."""
import json, os, subprocess, sys, tempfile, shutil
root = sys.argv[1] if len(sys.argv) > 1 else "/repo"
d = tempfile.mkdtemp()
open(os.path.join(d, "Kconfig"), "w").write('mainmenu "t"\nconfig A\n    bool "a"\nconfig B\n    int "b"\n    depends on A\n    default 3\n')
open(os.path.join(d, "sdkconfig"), "w").write("")
got = {}
for v in (1, 2, 3):
    p = subprocess.run([sys.executable, "-m", "kconfserver", "--kconfig", os.path.join(d, "Kconfig"), "--config", os.path.join(d, "sdkconfig"), "--version", str(v)],
                       input="", capture_output=True, text=True, cwd=root, env=dict(os.environ, PYTHONPATH=root))
    first = json.loads([l for l in p.stdout.splitlines() if l.strip().startswith("{")][0])
    got[v] = (first.get("version"), sorted(first))
print(got)
shutil.rmtree(d)
sys.exit(0 if all(got[v][0] == v for v in got) and "visible" not in got[1][1] and "defaults" not in got[2][1] else 1)
