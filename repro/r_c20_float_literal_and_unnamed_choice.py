"""C20 defects on the unmodified tree reported by a seeding sub-agent:
 (a) a float literal compared with a user option (`depends on GAIN > 1.5`) is taken for an undefined symbol and folded to n:
     the docs show `CONFIG_GAIN > n`
 (b) all unnamed choices share the memo key None in ConfigTargetVisibility.visibility: when the first unnamed choice is
     hidden for the target, every later unnamed choice (and its members) is omitted.
exit 0 = absent."""
import os, re, sys, tempfile
os.environ["IDF_TARGET"] = "esp32"
import esp_kconfiglib.core as kl
import esp_idf_kconfig.gen_kconfig_doc as gd
d = tempfile.mkdtemp()
open(f"{d}/Kconfig", "w").write('''mainmenu "t"
config IDF_TARGET_ESP32
    bool
    default y
config IDF_TARGET_OTHER
    bool
    default n
config GAIN
    float "gain"
    default 1.0
config BOOST
    bool "boost"
    depends on GAIN > 1.5
choice
    prompt "hidden choice"
    depends on IDF_TARGET_OTHER
    config HC_A
        bool "a"
    config HC_B
        bool "b"
endchoice
choice
    prompt "shown choice"
    config SC_A
        bool "a"
    config SC_B
        bool "b"
endchoice
''')
k = kl.Kconfig(f"{d}/Kconfig")
vis = gd.ConfigTargetVisibility(k, "esp32")
gd.write_docs(k, vis, f"{d}/out.rst")
txt = open(f"{d}/out.rst").read()
bad = []
m = re.search(r"_CONFIG_BOOST:.*?can be set when:\n\s*(.*?)\n", txt, re.S)
if not m or "1.5" not in m.group(1): bad.append(f"(a) BOOST condition rendered as `{m.group(1).strip() if m else None}` (Kconfig: GAIN > 1.5)")
if "shown choice" not in txt or "CONFIG_SC_A" not in txt: bad.append("(b) the second unnamed choice is missing from the docs")
for b in bad: print(b)
sys.exit(1 if bad else 0)
