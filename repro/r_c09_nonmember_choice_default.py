#!/venv/bin/python
"""C09: a choice whose `default` names a symbol that is not one of its members (the parser only prints a note) and whose
prompt depends on a member: accepted at load, then A.str_value recurses without bound (the loop check has no edge from the
non-member default to the choice, _selection_from_defaults() consults its visibility). exit 0 = rejected at load or evaluates."""
import os, sys, tempfile, shutil
root = sys.argv[1] if len(sys.argv) > 1 else "/repo"
sys.path.insert(0, root)
import esp_kconfiglib.core as kc  # noqa: E402
d = tempfile.mkdtemp()
open(os.path.join(d, "Kconfig"), "w").write(
    'mainmenu "t"\nchoice C\n    bool "c"\n    default X\nconfig A\n    bool "a"\nconfig B\n    bool "b"\nendchoice\nconfig X\n    bool "x" if A\n')
rc = 0
try:
    k = kc.Kconfig(os.path.join(d, "Kconfig"))
except kc.KconfigError as e:
    print("rejected at load:", str(e)[:100])
    k = None
if k is not None:
    try:
        print("A =", k.syms["A"].str_value)
    except RecursionError:
        print("accepted at load, evaluation: RecursionError")
        rc = 1
shutil.rmtree(d)
sys.exit(rc)
