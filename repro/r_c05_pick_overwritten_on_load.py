#!/venv/bin/python
"""C05: a file assigns a choice member (B=y) whose prompt condition is false at load time and carries a default-marked
entry for another member: Choice.resolve_defaults() user-sets every member to its *current* value, which makes the
fallback member the user's pick. After the condition becomes true the selection is the fallback, not the loaded pick.
exit 0 = the loaded pick survives."""
import os, sys, tempfile, shutil
root = sys.argv[1] if len(sys.argv) > 1 else "/repo"
sys.path.insert(0, root)
import esp_kconfiglib.core as kc  # noqa: E402
d = tempfile.mkdtemp()
open(os.path.join(d, "Kconfig"), "w").write('''mainmenu "t"
config EN
    bool "en"
choice CH
    prompt "ch"
    config A
        bool "a"
    config B
        bool "b" if EN
    config C
        bool "c"
endchoice
''')
f = os.path.join(d, "sdk")
open(f, "w").write("# CONFIG_EN is not set\nCONFIG_B=y\n# default:\n# CONFIG_C is not set\n")
k = kc.Kconfig(os.path.join(d, "Kconfig"))
k.load_config(f)
k.syms["EN"].set_value(2)
sel = k.named_choices["CH"].selection
print("selection after EN=y:", sel.name if sel else None)
# reference: the same file without the default-marked entry
f2 = os.path.join(d, "sdk2")
open(f2, "w").write("# CONFIG_EN is not set\nCONFIG_B=y\n")
k2 = kc.Kconfig(os.path.join(d, "Kconfig"))
k2.load_config(f2)
k2.syms["EN"].set_value(2)
sel2 = k2.named_choices["CH"].selection
print("without the marked entry:", sel2.name if sel2 else None)
shutil.rmtree(d)
sys.exit(0 if sel is not None and sel2 is not None and sel.name == sel2.name == "B" else 1)
