"""5.3: write_cmake reassigns `val` inside the alias loop: an inverted alias listed before a
plain alias of the same bool flips the plain alias in the CMake output only. exit 0 = absent."""
import os, sys, tempfile, textwrap
import esp_kconfiglib.core as kl
import kconfgen.core as kg
d = tempfile.mkdtemp()
open(f"{d}/Kconfig", "w").write('mainmenu "t"\nconfig A\n    bool "a"\n    default y\n')
open(f"{d}/sdkconfig.rename", "w").write("CONFIG_OLD_INV !CONFIG_A\nCONFIG_OLD_PLAIN CONFIG_A\nCONFIG_OLD_INV2 !CONFIG_A\n")
k = kl.Kconfig(f"{d}/Kconfig")
k.load_rename_files([f"{d}/sdkconfig.rename"])
kg.write_cmake(k, f"{d}/out.cmake")
kg.write_config(k, f"{d}/sdkconfig")
cm = open(f"{d}/out.cmake").read(); sd = open(f"{d}/sdkconfig").read()
print([l for l in cm.splitlines() if "OLD_" in l and l.startswith("set(")])
print([l for l in sd.splitlines() if "OLD_" in l])
ok = 'set(CONFIG_OLD_PLAIN "y")' in cm and 'set(CONFIG_OLD_INV "")' in cm and 'set(CONFIG_OLD_INV2 "")' in cm
sys.exit(0 if ok else 1)
