#!/venv/bin/python
"""C17: the y/n keys (set_sel_node_bool_val) look at the option's assignable values only, not at the highlighted row: an option
defined twice has one row whose own prompt is off and which is displayed only because of its children. `n` on that row is
applied through the other definition, the children vanish, the row vanishes, and _update_menu() raises ValueError.
The toggle path (change_node -> changeable) refuses the same row. exit 0 = no exception and the row still exists."""
import os, sys, tempfile, shutil
root = sys.argv[1] if len(sys.argv) > 1 else "/repo"
sys.path.insert(0, root)
import esp_kconfiglib.core as kc  # noqa: E402
from esp_menuconfig.model import MenuConfigState  # noqa: E402
d = tempfile.mkdtemp()
open(os.path.join(d, "Kconfig"), "w").write(
    'mainmenu "t"\nconfig OFF\n    bool\nconfig A\n    bool "a"\n    default y\n'
    'menu "m"\nconfig A\n    bool "a again" if OFF\nconfig CHILD\n    bool "child"\n    depends on A\nendmenu\n')
k = kc.Kconfig(os.path.join(d, "Kconfig"))
st = MenuConfigState(k, f"{d}/sdkconfig", f"{d}/min", False)
menu = [n for n in st.shown if n.prompt and n.prompt[0] == "m"][0]
st.sel_node_i = st.shown.index(menu)
st.enter_menu(menu)
row = st.shown[0]
print("rows:", [n.prompt[0] for n in st.shown], "row prompt on:", bool(kc.expr_value(row.prompt[1])), "changeable:", st.changeable(row))
st.sel_node_i = 0
try:
    st.set_sel_node_bool_val(0)
    print("A =", k.syms["A"].str_value, "rows:", [n.prompt[0] for n in st.shown], "sel", st.sel_node_i)
    rc = 0 if st.sel_node_i < len(st.shown) else 1
except Exception as e:
    print("DEFECT:", type(e).__name__, e); rc = 1
shutil.rmtree(d)
sys.exit(rc)
