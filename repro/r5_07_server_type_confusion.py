"""5.7: wrongly typed JSON values kill the config server (TypeError/AttributeError).
Each request is sent to a fresh server followed by a valid probe; both must be answered.
exit 0 = absent."""
import json, os, subprocess, sys, tempfile
d = tempfile.mkdtemp()
open(f"{d}/Kconfig", "w").write('mainmenu "t"\nconfig H\n    hex "h"\n    default 0x10\nconfig B\n    bool "b"\nconfig I\n    int "i"\n    default 1\nconfig F\n    float "f"\n    default 1.5\nconfig S\n    string "s"\n    default "x"\n')
open(f"{d}/sdkconfig", "w").write("")
BAD = [
    {"version": "3", "set": {"B": True}},
    {"version": None},
    {"version": [3]},
    {"version": 2.5, "set": {"B": True}},
    {"version": 3, "set": {"H": 1.5}},
    {"version": 3, "set": {"H": None}},
    {"version": 3, "set": {"H": [1]}},
    {"version": 3, "set": {"I": {"a": 1}, "S": [1, 2], "F": [1], "B": "y"}},
    {"version": 3, "set": [1]},
    {"version": 3, "set": [[1]]},
    {"version": 3, "set": 5},
    {"version": 3, "set": "H"},
    {"version": 3, "reset": 5},
    {"version": 3, "reset": [5]},
    {"version": 3, "reset": [["a"]]},
    {"version": 3, "reset": [None]},
    {"version": 3, "reset": {"all": 1}},
    {"version": 3, "load": 5},
    {"version": 3, "load": ["x"]},
    {"version": 3, "save": 5},
    {"version": 3, "save": {"a": 1}},
    {"version": 10**30},
    {"version": 3, "set": {"I": 10**400}},
]
PROBE = {"version": 3, "set": {"I": 7}}
fails = 0
for bad in BAD:
    inp = json.dumps(bad) + "\n" + json.dumps(PROBE) + "\n"
    r = subprocess.run([sys.executable, "-m", "kconfserver", "--kconfig", f"{d}/Kconfig", "--config", f"{d}/sdkconfig"],
                       input=inp, capture_output=True, text=True, cwd=d, timeout=60)
    lines = [l for l in r.stdout.splitlines() if l.strip()]
    ok = r.returncode == 0 and len(lines) == 3
    if ok:
        try:
            last = json.loads(lines[-1]); ok = last.get("values", {}).get("I") == 7
        except Exception:
            ok = False
    if not ok:
        fails += 1
        err = [l for l in r.stderr.splitlines() if "Error" in l][-1:]
        print("FAIL", json.dumps(bad)[:70], "rc", r.returncode, "lines", len(lines), err)
print("failures:", fails, "of", len(BAD))
sys.exit(1 if fails else 0)
