#!/venv/bin/python
"""C17: check_valid() (the input dialog's validator) decided int/hex texts with int(), Symbol.set_value() with _is_base_n():
`1_0` and `+5` were accepted by the dialog and then silently dropped. exit 0 = for every probe text, accepted by the validator
implies that the option has that value after the front end applied it."""
import os, sys, tempfile, shutil
root = sys.argv[1] if len(sys.argv) > 1 else "/repo"
sys.path.insert(0, root)
import esp_kconfiglib.core as kc  # noqa: E402
from esp_menuconfig.formatting import check_valid  # noqa: E402
d = tempfile.mkdtemp()
open(os.path.join(d, "Kconfig"), "w").write('mainmenu "t"\nconfig I\n    int "i"\n    default 1\nconfig H\n    hex "h"\n    default 0x1\n')
k = kc.Kconfig(os.path.join(d, "Kconfig")); k.warn = False
bad = []
for name, texts in (("I", ["1_0", "+5", " 7 ", "12", "-3", "0x5"]), ("H", ["1_f", "+1f", " 2a ", "0x1F", "ff", "-1"])):
    sym = k.syms[name]
    for t in texts:
        ok, _ = check_valid(sym, t)
        if not ok:
            continue
        val = t.strip()
        if name == "H" and not val.startswith(("0x", "0X")):
            val = "0x" + val   # what MenuConfigApp._apply_input does
        sym.set_value(val)
        if sym.str_value != val:
            bad.append((name, t, sym.str_value))
        sym.unset_value()
print("accepted by the validator but not applied:", bad)
shutil.rmtree(d)
sys.exit(1 if bad else 0)
