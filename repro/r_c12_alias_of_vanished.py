#!/venv/bin/python
"""C12: an option with a deprecated alias disappears from the tree: the header loses `#define CONFIG_OLDNAME CONFIG_NEWNAME`
together with CONFIG_NEWNAME, but only newname.cdep is touched - _load_old_vals() flags the vanished name, not its aliases.
exit 0 = oldname.cdep is touched too."""
import os, sys, tempfile, shutil, time
root = sys.argv[1] if len(sys.argv) > 1 else "/repo"
sys.path.insert(0, root)
import esp_kconfiglib.core as kc  # noqa: E402
d = tempfile.mkdtemp()
ren = os.path.join(d, "sdkconfig.rename"); open(ren, "w").write("CONFIG_OLDNAME CONFIG_NEWNAME\n")
v1 = 'mainmenu "t"\nconfig NEWNAME\n    bool "n"\n    default y\nconfig KEEP\n    bool "keep"\n    default y\n'
v2 = 'mainmenu "t"\nconfig KEEP\n    bool "keep"\n    default y\n'
deps = os.path.join(d, "deps")
def sync(text):
    open(os.path.join(d, "Kconfig"), "w").write(text)
    k = kc.Kconfig(os.path.join(d, "Kconfig")); k.warn = False
    k.load_rename_files([ren])
    k.sync_deps(deps)
sync(v1)
old = time.time() - 1000
files = {n: os.path.join(deps, n + ".cdep") for n in ("newname", "oldname")}
print("after first sync:", {n: os.path.exists(p) for n, p in files.items()})
for p in files.values():
    if os.path.exists(p):
        os.utime(p, (old, old))
sync(v2)
touched = {n: os.path.exists(p) and os.path.getmtime(p) > old + 1 for n, p in files.items()}
print("touched by the sync after NEWNAME vanished:", touched)
shutil.rmtree(d)
sys.exit(0 if all(touched.values()) else 1)
