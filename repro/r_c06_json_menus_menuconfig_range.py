#!/venv/bin/python
"""C06: write_json_menus() puts the range of a `menuconfig` option into the JSON as the two bound Symbol objects (and takes
the LAST active range, not the first): json.dump raises TypeError for `menuconfig M / int / range 1 5`.
exit 0 = file written, range is [1, 5] (numbers, first active range)."""
import os, sys, tempfile, shutil, json
root = sys.argv[1] if len(sys.argv) > 1 else "/repo"
sys.path.insert(0, root)
import esp_kconfiglib.core as kc  # noqa: E402
import kconfgen.core as kg  # noqa: E402
d = tempfile.mkdtemp()
open(os.path.join(d, "Kconfig"), "w").write(
    'mainmenu "t"\nmenuconfig M\n    int "m"\n    range 1 5\n    range 0 100\n    default 2\nconfig SUB\n    bool "sub"\n    depends on M\n')
k = kc.Kconfig(os.path.join(d, "Kconfig"))
out = os.path.join(d, "menus.json")
try:
    kg.write_json_menus(k, out)
    j = json.load(open(out))
    rng = [e for e in j if e.get("name") == "M"][0]["range"]
    print("range:", rng); rc = 0 if rng == [1, 5] else 1
except Exception as e:
    print("DEFECT:", type(e).__name__, str(e)[:90]); rc = 1
shutil.rmtree(d)
sys.exit(rc)
