"""C20: the per-item visibility memo of the docs generator is keyed by a bare name, and read for every node:
 (a) `config X` (hidden for the target) and `choice X` (always visible) share the key: the choice and its members are omitted;
 (b) a menu reads the memo under its prompt text: `menu "LWIP"` after a hidden `config LWIP` is omitted with its entries.
exit 0 = absent."""
import os, sys, tempfile
os.environ["IDF_TARGET"] = "esp32"
root = sys.argv[1] if len(sys.argv) > 1 else "/repo"
sys.path.insert(0, root)
import esp_kconfiglib.core as kl  # noqa: E402
import esp_idf_kconfig.gen_kconfig_doc as gd  # noqa: E402
d = tempfile.mkdtemp()
open(f"{d}/Kconfig", "w").write('''mainmenu "t"
config IDF_TARGET_ESP32
    bool
    default y
config IDF_TARGET_OTHER
    bool
    default n
config X
    bool "sym x"
    depends on IDF_TARGET_OTHER
choice X
    prompt "choice x"
    config X1
        bool "x1"
    config X2
        bool "x2"
endchoice
config LWIP
    bool "lwip on other"
    depends on IDF_TARGET_OTHER
menu "LWIP"
    config IN_LWIP_MENU
        bool "in lwip menu"
endmenu
''')
k = kl.Kconfig(f"{d}/Kconfig")
vis = gd.ConfigTargetVisibility(k, "esp32")
gd.write_docs(k, vis, f"{d}/out.rst")
txt = open(f"{d}/out.rst").read()
bad = []
if "CONFIG_X1" not in txt or "choice x" not in txt:
    bad.append("(a) the always-visible choice X and its members are missing (memo entry of the symbol X)")
if "CONFIG_IN_LWIP_MENU" not in txt:
    bad.append("(b) the menu LWIP and its entry are missing (memo entry of the symbol LWIP)")
for b in bad:
    print(b)
sys.exit(1 if bad else 0)
