#!/venv/bin/python
"""C15: {"set": {"H": true}} on a hex option: isinstance(True, int) holds, hex(True) == '0x1' is applied and no error is
reported - a value of the wrong JSON type must be reported (or ignored). exit 0 = H keeps its value and the reply has an error."""
import json, os, subprocess, sys, tempfile, shutil
root = sys.argv[1] if len(sys.argv) > 1 else "/repo"
d = tempfile.mkdtemp()
open(os.path.join(d, "Kconfig"), "w").write('mainmenu "t"\nconfig H\n    hex "h"\n    default 0x20\n')
open(os.path.join(d, "sdkconfig"), "w").write("")
p = subprocess.run([sys.executable, "-m", "kconfserver", "--kconfig", os.path.join(d, "Kconfig"), "--config", os.path.join(d, "sdkconfig")],
                   input='{"version": 2, "set": {"H": true}}\n{"version": 2, "set": {"H": false}}\n', capture_output=True, text=True, cwd=root,
                   env=dict(os.environ, PYTHONPATH=root))
lines = [json.loads(l) for l in p.stdout.splitlines() if l.strip().startswith("{")]
print([(l.get("values"), l.get("error")) for l in lines[1:]])
ok = len(lines) == 3 and all(not l.get("values") and l.get("error") for l in lines[1:])
shutil.rmtree(d)
sys.exit(0 if ok else 1)
