#!/venv/bin/python
"""C15: request lines on which json.loads() raises something other than JSONDecodeError kill the server: a number with
more than 4300 digits (plain ValueError from the int conversion limit) and deeply nested brackets (RecursionError).
exit 0 = the server answers both with an error reply and keeps serving."""
import json, os, subprocess, sys, tempfile, shutil
root = sys.argv[1] if len(sys.argv) > 1 else "/repo"
d = tempfile.mkdtemp()
open(os.path.join(d, "Kconfig"), "w").write('mainmenu "t"\nconfig I\n    int "i"\n    default 1\n')
open(os.path.join(d, "sdkconfig"), "w").write("")
lines = ['{"version": 2, "set": {"I": ' + "9" * 5000 + '}}', "[" * 100000, json.dumps({"version": 2, "set": {"I": 5}})]
p = subprocess.run([sys.executable, "-m", "kconfserver", "--kconfig", os.path.join(d, "Kconfig"), "--config", os.path.join(d, "sdkconfig")],
                   input="".join(l + "\n" for l in lines), capture_output=True, text=True, cwd=root, env=dict(os.environ, PYTHONPATH=root))
out = [l for l in p.stdout.splitlines() if l.strip()]
shutil.rmtree(d)
print("replies:", len(out) - 1, "of 3; exit code", p.returncode)
ok = len(out) == 4 and "error" in json.loads(out[1]) and "error" in json.loads(out[2]) and json.loads(out[3])["values"].get("I") == 5
sys.exit(0 if ok else 1)
