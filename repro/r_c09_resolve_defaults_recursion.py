#!/venv/bin/python
"""C09/C02: an accepted, acyclic tree on which reloading the tool's own output recurses without bound:
`A select T if C` + `C depends on A`. MenuNode.dependencies (used by Symbol.resolve_defaults for default-marked entries)
contains select/imply *conditions*, which are not evaluation dependencies of the selecting symbol: A -> C -> A.
exit 0 = the reload works."""
import os, sys, tempfile, shutil
root = sys.argv[1] if len(sys.argv) > 1 else "/repo"
sys.path.insert(0, root)
import esp_kconfiglib.core as kc  # noqa: E402
d = tempfile.mkdtemp()
open(os.path.join(d, "Kconfig"), "w").write('mainmenu "t"\nconfig A\n    bool "a"\n    default y\n    select T if C\nconfig T\n    bool "t"\nconfig C\n    bool "c"\n    default y\n    depends on A\n')
k = kc.Kconfig(os.path.join(d, "Kconfig"))
out = os.path.join(d, "sdkconfig")
k.write_config(out)
k2 = kc.Kconfig(os.path.join(d, "Kconfig"))
rc = 0
try:
    k2.load_config(out)
    print("reload ok:", {n: k2.syms[n].str_value for n in "ATC"})
except RecursionError:
    print("DEFECT: RecursionError while reloading the written sdkconfig"); rc = 1
shutil.rmtree(d)
sys.exit(rc)
