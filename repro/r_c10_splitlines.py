"""C10 defect reported by a seeding sub-agent (by code reading), confirmed here: write_min_config(normalize_unset=True)
uses str.splitlines(), which also splits on \\x0c, \\x1c-\\x1e, \\x85, \\u2028, \\u2029; a string value containing one of
them is rewritten with a newline in the minimal file and reloads differently. exit 0 = absent."""
import sys, tempfile
import esp_kconfiglib.core as kl
d = tempfile.mkdtemp()
open(f"{d}/Kconfig", "w").write('mainmenu "t"\nconfig S\n    string "s"\n    default "x"\nconfig B\n    bool "b"\n    default y\n')
k = kl.Kconfig(f"{d}/Kconfig")
k.syms["S"].set_value("page1\x0cpage2 end")
k.syms["B"].set_value("n")
k.write_min_config(f"{d}/min", normalize_unset=True)
k2 = kl.Kconfig(f"{d}/Kconfig"); k2.load_config(f"{d}/min")
a, b = k.syms["S"].str_value, k2.syms["S"].str_value
print(repr(a), repr(b), k2.syms["B"].str_value)
sys.exit(0 if a == b and k2.syms["B"].str_value == "n" else 1)
