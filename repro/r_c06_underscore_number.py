#!/venv/bin/python
"""C06/C07: _is_base_n() is int() succeeding, and int() accepts digit-group underscores: `CONFIG_H=0x1_f` / set_value("1_0")
pass the form check, the text is exposed as written, the header gets `#define CONFIG_H 0x1_f` (does not compile) while the
JSON says 31. exit 0 = such text is rejected like any other malformed number."""
import os, sys, tempfile, shutil
root = sys.argv[1] if len(sys.argv) > 1 else "/repo"
sys.path.insert(0, root)
import esp_kconfiglib.core as kc  # noqa: E402
d = tempfile.mkdtemp()
open(os.path.join(d, "Kconfig"), "w").write('mainmenu "t"\nconfig I\n    int "i"\n    default 1\nconfig H\n    hex "h"\n    default 0x1\n')
open(os.path.join(d, "sd"), "w").write("CONFIG_H=0x1_f\n")
k = kc.Kconfig(os.path.join(d, "Kconfig"))
k.warn = False
k.load_config(os.path.join(d, "sd"))
r = k.syms["I"].set_value("1_0")
vals = (k.syms["I"].str_value, k.syms["H"].str_value)
print("set_value('1_0') ->", r, "values:", vals)
shutil.rmtree(d)
sys.exit(0 if vals == ("1", "0x1") and not r else 1)
