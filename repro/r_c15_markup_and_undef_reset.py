"""C15 (found by a seeding sub-agent on the unmodified tree): (a) a rejected value containing Rich markup (e.g. "[/x]")
is interpolated unescaped into log.note() by Symbol.set_value and kills the server with MarkupError; (b) resetting a
symbol that is only referenced, never defined, raises IndexError (sym.nodes[0]). exit 0 = absent."""
import json, subprocess, sys, tempfile
d = tempfile.mkdtemp()
open(f"{d}/Kconfig", "w").write('mainmenu "t"\nconfig I\n    int "i"\n    default 1\n    depends on !UNDEF_SYM\nconfig F\n    float "f"\n    default 1.5\n')
open(f"{d}/sdkconfig", "w").write("")
BAD = [{"version": 3, "set": {"I": "[/x]"}}, {"version": 3, "set": {"F": "[bold"}}, {"version": 3, "reset": ["UNDEF_SYM"]}]
PROBE = {"version": 3, "set": {"I": 7}}
fails = 0
for bad in BAD:
    r = subprocess.run([sys.executable, "-m", "kconfserver", "--kconfig", f"{d}/Kconfig", "--config", f"{d}/sdkconfig"],
                       input=json.dumps(bad) + "\n" + json.dumps(PROBE) + "\n", capture_output=True, text=True, cwd=d, timeout=60)
    lines = [l for l in r.stdout.splitlines() if l.strip()]
    ok = r.returncode == 0 and len(lines) == 3 and json.loads(lines[-1]).get("values", {}).get("I") == 7
    if not ok:
        fails += 1
        print("FAIL", json.dumps(bad), "rc", r.returncode, "lines", len(lines), [l for l in r.stderr.splitlines() if "Error" in l][-1:])
print("failures:", fails); sys.exit(1 if fails else 0)
