"""C12: an option whose name starts with `_` (config _FOO): _touch_dep_file() computes
os.path.join(dir, '/foo.cdep'), which is '/foo.cdep' - the trigger file is created (or fails to be created) in the
file system root, outside the dependency directory; inside it the changed option is never flagged.
exit 0 = absent."""
import os, sys, tempfile, unittest.mock as mock
root = sys.argv[1] if len(sys.argv) > 1 else "/repo"
sys.path.insert(0, root)
import esp_kconfiglib.core as kl  # noqa: E402
d = tempfile.mkdtemp()
opened = []
real_open = os.open


def spy(p, *a, **kw):
    opened.append(p)
    if not os.path.abspath(p).startswith(d):
        raise PermissionError(p)  # never really write outside the temporary directory
    return real_open(p, *a, **kw)


with mock.patch("os.open", spy), mock.patch.object(kl.os, "open", spy):
    try:
        kl._touch_dep_file(os.path.join(d, "deps"), "_FOO")
    except PermissionError:
        pass
import shutil
shutil.rmtree(d)
outside = [p for p in opened if not os.path.abspath(p).startswith(d)]
if outside:
    print("C12: trigger file of option _FOO outside the dependency directory:", outside)
    sys.exit(1)
print("ok", opened)
