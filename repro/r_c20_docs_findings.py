"""C20 findings on the unmodified tree (docs generator):
 (a) R20.3 get_breadcrumbs links every ancestor with a prompt, including menus in EXCLUDED_MENU_NAMES whose anchor is
     never written -> dangling :ref:
 (b) R20.4 _is_item_target_constant ignores imply / set / set default: a promptless symbol driven by a user option through
     `imply` is folded to its current value and the options depending on it are dropped although the user can reach them
 (c) R20.1 an undefined bare symbol used as a relation operand (MODE = fast) is folded to n, so the shown condition
     (MODE = n) has a different truth value than the Kconfig condition.
exit 0 = all absent."""
import os, re, sys, tempfile
os.environ["IDF_TARGET"] = "esp32"
import esp_kconfiglib.core as kl
import esp_idf_kconfig.gen_kconfig_doc as gd
d = tempfile.mkdtemp()
excluded = sorted(gd.EXCLUDED_MENU_NAMES)[0]
open(f"{d}/Kconfig", "w").write(f'''mainmenu "t"
menu "{excluded}"
    config INSIDE
        bool "inside"
endmenu
config USER
    bool "user"
    imply HIDDEN
config HIDDEN
    bool
config OPT
    bool "opt"
    depends on HIDDEN
config MODE
    string "mode"
    default "fast"
config OPT2
    bool "opt2"
    depends on MODE = fast
''')
k = kl.Kconfig(f"{d}/Kconfig")
vis = gd.ConfigTargetVisibility(k, "esp32")
gd.write_docs(k, vis, f"{d}/out.rst")
txt = open(f"{d}/out.rst").read()
anchors = set(re.findall(r"^\s*\.\. _([^:]+):", txt, re.M))
refs = set(m for m in re.findall(r":ref:`(?:[^`<]*<)?([^`>]+)>?`", txt))
bad = []
dang = sorted(r for r in refs if r not in anchors)
if dang: bad.append(f"(a) dangling refs {dang}")
if ".. _CONFIG_OPT:" not in txt: bad.append("(b) OPT (reachable through USER=y -> imply HIDDEN) is missing from the docs")
m = re.search(r"_CONFIG_OPT2:.*?can be set when:\n\s*(.*?)\n", txt, re.S)
if m and "fast" not in m.group(1): bad.append(f"(c) OPT2 condition rendered as `{m.group(1).strip()}` (Kconfig: MODE = fast)")
for b in bad: print(b)
sys.exit(1 if bad else 0)
