"""5.8: a replacing load of the main sdkconfig does not reset the baseline (_sdkconfig_value /
_loaded_as_default) of options the file no longer mentions: needs_save() is true right after a
successful save + reload. exit 0 = absent."""
import os, sys, tempfile
import esp_kconfiglib.core as kl
from esp_menuconfig.model import MenuConfigState
d = tempfile.mkdtemp()
open(f"{d}/Kconfig", "w").write('mainmenu "t"\nconfig GATE\n    bool "gate"\n    default y\nconfig DEP\n    int "dep"\n    depends on GATE\n    default 3\n')
sd = f"{d}/sdkconfig"
open(sd, "w").write("CONFIG_GATE=y\nCONFIG_DEP=5\n")
k = kl.Kconfig(f"{d}/Kconfig")
k.load_config(sd)
st = MenuConfigState(k, sd, f"{d}/min", False)
print("after load needs_save:", st.needs_save())
k.syms["GATE"].set_value("n")
print("after edit needs_save:", st.needs_save())
k.write_config(sd)
st.reload_sdkconfig_file(sd)
ns = st.needs_save()
print("after save+reload needs_save:", ns, "DEP baseline:", k.syms["DEP"]._sdkconfig_value)
sys.exit(1 if ns else 0)
