#!/venv/bin/python
"""C17: menuconfig() builds the displayed list (MenuConfigState.__post_init__) BEFORE it loads the sdkconfig and never
rebuilds it: a row the loaded file hides stays in `shown` (and highlighted). The first reset / edit then calls
_update_menu(), which looks the stale row up in the fresh list -> ValueError. exit 0 = every row of `shown` is a row
shown_nodes() yields after start-up and a reset on the highlighted row does not raise."""
import os, sys, tempfile, shutil
root = sys.argv[1] if len(sys.argv) > 1 else "/repo"
sys.path.insert(0, root)
d = tempfile.mkdtemp()
open(os.path.join(d, "Kconfig"), "w").write(
    'mainmenu "t"\nconfig X\n    bool "x"\n    depends on !HIDE\nconfig HIDE\n    bool "hide"\n')
open(os.path.join(d, "sdkconfig"), "w").write("CONFIG_HIDE=y\n")
os.environ["KCONFIG_CONFIG"] = os.path.join(d, "sdkconfig")
import esp_kconfiglib.core as kc  # noqa: E402
import esp_menuconfig  # noqa: E402
k = kc.Kconfig(os.path.join(d, "Kconfig"))
esp_menuconfig.menuconfig(k, headless=True)
st = esp_menuconfig._module_state
fresh = st.shown_nodes(st.cur_menu)
stale = [n.prompt[0] for n in st.shown if n not in fresh]
print("shown:", [n.prompt[0] for n in st.shown], "stale rows:", stale)
rc = 1 if stale else 0
try:
    st.restore_default(st.selected_node)
except Exception as e:
    print("DEFECT:", type(e).__name__, str(e)[:90]); rc = 1
shutil.rmtree(d)
sys.exit(rc)
