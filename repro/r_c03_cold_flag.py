"""R03.4 known finding: Symbol._has_active_indirect_set is only recomputed inside Symbol.str_value, but
Symbol.has_active_default_value() and MenuConfigState.changeable() read it without evaluating the value first,
so after an invalidation their answer depends on whether str_value was read before. exit 0 = absent."""
import sys, tempfile
import esp_kconfiglib.core as kl
from esp_menuconfig.model import MenuConfigState
d = tempfile.mkdtemp()
open(f"{d}/Kconfig", "w").write('''mainmenu "t"
config EN
    bool "en"
    default y
    set TGT="forced"
config TGT
    string "tgt"
    default "dflt"
''')
k = kl.Kconfig(f"{d}/Kconfig")
tgt, en = k.syms["TGT"], k.syms["EN"]
tgt.set_value("user")
print("initial:", tgt.str_value, tgt.has_active_default_value())
en.set_value("n")                       # invalidates TGT
cold = tgt.has_active_default_value()   # read before the value
st = MenuConfigState(k, f"{d}/sdkconfig", f"{d}/min", False)
cold_changeable = st.changeable(tgt.nodes[0])
val = tgt.str_value
warm = tgt.has_active_default_value()
warm_changeable = st.changeable(tgt.nodes[0])
print("value", val, "has_active_default_value cold/warm:", cold, warm, "changeable cold/warm:", cold_changeable, warm_changeable)
sys.exit(0 if (cold == warm and cold_changeable == warm_changeable) else 1)
