#!/venv/bin/python
"""C04: a menu with two `visible if` lines: parser 1 ANDs them, parser 2 uses only the first one
(Parser.parse_menu reads menu_options["visible_if"][0]). exit 0 = both parsers agree."""
import os, sys, tempfile, shutil
root = sys.argv[1] if len(sys.argv) > 1 else "/repo"
sys.path.insert(0, root)
d = tempfile.mkdtemp()
open(os.path.join(d, "Kconfig"), "w").write('''mainmenu "t"
config A
    bool "a"
    default y
config B
    bool "b"
menu "m"
    visible if A
    visible if B
config X
    bool "x"
endmenu
''')
res = {}
for v in ("1", "2"):
    os.environ["KCONFIG_PARSER_VERSION"] = v
    for m in [m for m in sys.modules if m.startswith("esp_kconfiglib")]:
        del sys.modules[m]
    import esp_kconfiglib.core as kc
    k = kc.Kconfig(os.path.join(d, "Kconfig"))
    k.syms["X"].set_value(2)
    menu = [n for n in k.node_iter() if n.item == kc.MENU][0]
    res[v] = (kc.expr_str(menu.visibility), k.syms["X"].str_value)
shutil.rmtree(d)
print(res)
sys.exit(0 if res["1"] == res["2"] else 1)
