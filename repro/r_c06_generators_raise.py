#!/venv/bin/python
"""C06/C09: generators and the evaluator raise on well-formed trees: (1) hex(<Symbol>) in the note for an invalid
`set default` literal on a hex target (TypeError while evaluating), (2) write_cmake on a visible hex option without a value
(ValueError), (3) write_json_menus with a range bound that is a symbol without a numeric value (ValueError).
exit 0 = all absent."""
import os, sys, tempfile, shutil
root = sys.argv[1] if len(sys.argv) > 1 else "/repo"
sys.path.insert(0, root)
import esp_kconfiglib.core as kc  # noqa: E402
import kconfgen.core as kg  # noqa: E402
bad = 0
dirs = []
def mk(K):
    d = tempfile.mkdtemp(); dirs.append(d); p = os.path.join(d, "Kconfig"); open(p, "w").write(K); return kc.Kconfig(p), d
k, d = mk('mainmenu "t"\nconfig H\n    hex "h"\n    default 0x10\nconfig A\n    bool "a"\n    default y\n    set default H=zz\n')
try:
    k.syms["H"].str_value
except TypeError as e:
    print("DEFECT 1:", e); bad = 1
k, d = mk('mainmenu "t"\nconfig H\n    hex "h"\n')
try:
    kg.write_cmake(k, os.path.join(d, "c.cmake"))
except ValueError as e:
    print("DEFECT 2:", e); bad = 1
k, d = mk('mainmenu "t"\nconfig LOW\n    int\nconfig R\n    int "r"\n    range LOW 10\n    default 2\n')
try:
    kg.write_json_menus(k, os.path.join(d, "m.json"))
except ValueError as e:
    print("DEFECT 3:", e); bad = 1
for d in dirs:
    shutil.rmtree(d)
sys.exit(bad)
