#!/venv/bin/python
"""C09: an accepted tree whose evaluation raises: `bool "b" if X > 1.5` with the int option X set to 10**350 (accepted by
set_value: it is a base-10 integer) - expr_value() subtracts a float from the int, OverflowError is not caught (only
ValueError is). exit 0 = every value and the sdkconfig text can be computed."""
import os, sys, tempfile, shutil
root = sys.argv[1] if len(sys.argv) > 1 else "/repo"
sys.path.insert(0, root)
import esp_kconfiglib.core as kc  # noqa: E402
d = tempfile.mkdtemp()
open(os.path.join(d, "Kconfig"), "w").write('mainmenu "t"\nconfig X\n    int "x"\n    default 1\nconfig B\n    bool "b" if X > 1.5\n    default y\n')
k = kc.Kconfig(os.path.join(d, "Kconfig"))
ok = k.syms["X"].set_value("1" + "0" * 350)
print("set_value accepted:", ok)
rc = 0
try:
    print("B =", k.syms["B"].str_value, "visibility", k.syms["B"].visibility)
    k.write_config(os.path.join(d, "sdkconfig"))
except Exception as e:  # noqa: BLE001
    print("evaluation raises", type(e).__name__, e)
    rc = 1
shutil.rmtree(d)
sys.exit(rc)
