#!/venv/bin/python
"""C18: check_name_sanity() cut every line at the first `#`, also inside a quoted string: the compliant line
`depends on FOO_B = "a#b"` was reported (`config name a should be all uppercase`) and --replace rewrote it to
`depends on FOO_B = "A`, losing the rest of the line. exit 0 = the file is reported OK and left byte-identical."""
import os, subprocess, sys, tempfile, shutil
root = sys.argv[1] if len(sys.argv) > 1 else "/repo"
d = tempfile.mkdtemp()
f = os.path.join(d, "Kconfig")
text = 'menu "m"\n\n    config FOO_A\n        bool "a # not a comment"\n        default y if FOO_B = "a#b"  # a real comment\n\n    config FOO_B\n        string "b"\n        default "x#y"\n\nendmenu\n'
open(f, "w").write(text)
r = subprocess.run([sys.executable, "-m", "kconfcheck", "--replace", f], cwd=root, env=dict(os.environ, PYTHONPATH=root), capture_output=True, text=True)
after = open(f).read()
print("exit", r.returncode, "| unchanged:", after == text, "|", (r.stdout + r.stderr).strip().splitlines()[-1][:120])
ok = r.returncode == 0 and after == text and not os.path.exists(f + ".new")
shutil.rmtree(d)
sys.exit(0 if ok else 1)
