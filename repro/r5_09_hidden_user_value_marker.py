"""5.9 (R01.1): Symbol.has_active_default_value() looks at _user_value without regard to visibility, so a user value
on an option whose prompt condition is false changes the bytes of sdkconfig (the `# default:` marker disappears)
although it has no effect on the value. exit 0 = absent."""
import sys, tempfile
import esp_kconfiglib.core as kl
d = tempfile.mkdtemp()
open(f"{d}/Kconfig", "w").write('''mainmenu "t"
config G
    bool "g"
config HID
    bool "hid" if G
    default y
''')
k = kl.Kconfig(f"{d}/Kconfig")
a = k._config_contents(None)
k.syms["HID"].set_value("n")   # HID's prompt is hidden (G=n): the user value must have no effect on any output
b = k._config_contents(None)
print("value:", k.syms["HID"].str_value, "identical output:", a == b)
if a != b:
    import difflib
    print("".join(difflib.unified_diff(a.splitlines(1), b.splitlines(1), n=1)))
sys.exit(0 if a == b else 1)
