#!/venv/bin/python
"""C11: `CONFIG_OLD=foo` through an inverted alias (`CONFIG_OLD !CONFIG_NEW`, NEW bool) sets NEW=y (anything not starting
with y is flipped to y), whereas `CONFIG_NEW=foo` is rejected with a warning and NEW keeps its value. exit 0 = both
spellings leave NEW alike."""
import os, sys, tempfile, shutil
root = sys.argv[1] if len(sys.argv) > 1 else "/repo"
sys.path.insert(0, root)
import esp_kconfiglib.core as kc  # noqa: E402
d = tempfile.mkdtemp()
open(os.path.join(d, "Kconfig"), "w").write('mainmenu "t"\nconfig NEW_D\n    bool "d"\n')
open(os.path.join(d, "ren"), "w").write("CONFIG_OLD_E !CONFIG_NEW_D\n")
res = {}
for name, line in (("old", "CONFIG_OLD_E=foo\n"), ("new", "CONFIG_NEW_D=foo\n")):
    k = kc.Kconfig(os.path.join(d, "Kconfig"))
    k.load_rename_files([os.path.join(d, "ren")])
    f = os.path.join(d, "sdk_" + name); open(f, "w").write(line)
    k.load_config(f)
    res[name] = k.syms["NEW_D"].str_value
shutil.rmtree(d)
print(res)
sys.exit(0 if res["old"] == res["new"] else 1)
