#!/venv/bin/python
"""C14: kconfserver.diff() uses before.get(k, None) != v, so a key that is new in `after` with the value None (an int/hex/
float option without any value that has just become visible) is not reported: the client never gets `values[K] = null`,
while a fresh server's initial message has it. exit 0 = absent."""
import os, sys, tempfile, shutil
root = sys.argv[1] if len(sys.argv) > 1 else "/repo"
sys.path.insert(0, root)
import esp_kconfiglib.core as kc  # noqa: E402
import kconfgen.core as kg  # noqa: E402
import kconfserver.core as ks  # noqa: E402
d = tempfile.mkdtemp()
open(os.path.join(d, "Kconfig"), "w").write('mainmenu "t"\nconfig A\n    bool "a"\nconfig K\n    int "k" if A\n')
k = kc.Kconfig(os.path.join(d, "Kconfig"))
before = kg.get_json_values(k)
k.syms["A"].set_value(2)
after = kg.get_json_values(k)
delta = ks.diff(before, after)
shutil.rmtree(d)
print("before:", before, "after:", after, "diff:", delta)
sys.exit(0 if "K" not in after or "K" in delta else 1)
