#!/venv/bin/python
"""C17: (1) formatting.check_valid() raises ValueError when a bound of the active range is a symbol without a numeric
value (the evaluator reads such a bound as 0); (2) it accepts the hex inputs `-0` and `+ff`, which the dialog then turns
into `0x-0` / `0x+ff` and Symbol.set_value() rejects: an accepted value is not applied. exit 0 = both absent."""
import os, sys, tempfile, shutil
root = sys.argv[1] if len(sys.argv) > 1 else "/repo"
sys.path.insert(0, root)
import esp_kconfiglib.core as kc  # noqa: E402
from esp_menuconfig.formatting import check_valid  # noqa: E402

K = '''mainmenu "t"
config LOW
    int
config R
    int "r"
    range LOW 10
    default 2
config H
    hex "h"
    default 0x1
config F
    float "f"
    range FLOW 2.5
    default 1.0
config FLOW
    float
'''
d = tempfile.mkdtemp()
p = os.path.join(d, "Kconfig")
open(p, "w").write(K)
k = kc.Kconfig(p)
bad = 0
for name, text in (("R", "3"), ("F", "1.5")):
    try:
        print(name, text, check_valid(k.syms[name], text))
    except ValueError as e:
        print(f"DEFECT 1: check_valid({name}, {text!r}) raised ValueError: {e}")
        bad = 1
for text in ("-0", "+ff", "-0x0"):
    ok, _ = check_valid(k.syms["H"], text)
    t = text.strip()
    applied = t if t.startswith(("0x", "0X")) else "0x" + t      # what MenuConfigApp._apply_input() hands to set_value
    if ok and not k.syms["H"].value_is_valid(applied):
        print(f"DEFECT 2: validator accepts hex input {text!r}, the setter rejects {applied!r}")
        bad = 1
shutil.rmtree(d)
sys.exit(bad)
