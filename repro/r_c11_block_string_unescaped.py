#!/venv/bin/python
"""C11: a string option whose value contains a quote / backslash has an alias; the tool writes the alias escaped into the
deprecated block. With load_deprecated=True the synthetic symbol of the alias keeps the escapes (`a\\"b`) while the replacement
is unescaped (`a"b`): eval_string("OLD_S = NEW_S") is n. exit 0 = the alias carries its replacement's value."""
import os, sys, tempfile, shutil
root = sys.argv[1] if len(sys.argv) > 1 else "/repo"
sys.path.insert(0, root)
import esp_kconfiglib.core as kc  # noqa: E402
d = tempfile.mkdtemp()
open(os.path.join(d, "Kconfig"), "w").write('mainmenu "t"\nconfig NEW_S\n    string "s"\n    default "x"\n')
open(os.path.join(d, "ren"), "w").write("CONFIG_OLD_S CONFIG_NEW_S\n")
k = kc.Kconfig(os.path.join(d, "Kconfig"))
k.load_rename_files([os.path.join(d, "ren")])
k.syms["NEW_S"].set_value('a"b\\c')
cfg = os.path.join(d, "sdkconfig")
k.write_config(cfg, write_deprecated=True)
k2 = kc.Kconfig(os.path.join(d, "Kconfig"))
k2.load_rename_files([os.path.join(d, "ren")])
k2.load_config(cfg, load_deprecated=True)
new, old = k2.syms["NEW_S"].str_value, k2.syms["OLD_S"].str_value
print("NEW_S =", repr(new), "OLD_S =", repr(old), "OLD_S = NEW_S:", k2.eval_string("OLD_S = NEW_S"))
shutil.rmtree(d)
sys.exit(0 if new == old else 1)
