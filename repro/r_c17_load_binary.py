#!/venv/bin/python
"""C17: Load [O] of a file that is not valid UTF-8: Kconfig.load_config() raises KconfigError ("Malformed utf-8"), which
MenuConfigState.try_load() does not catch (it handles EnvironmentError only): the exception escapes into the app.
exit 0 = try_load reports the failure instead of raising."""
import os, sys, tempfile, shutil
root = sys.argv[1] if len(sys.argv) > 1 else "/repo"
sys.path.insert(0, root)
import esp_kconfiglib.core as kc  # noqa: E402
from esp_menuconfig.model import MenuConfigState  # noqa: E402
d = tempfile.mkdtemp()
open(os.path.join(d, "Kconfig"), "w").write('mainmenu "t"\nconfig A\n    bool "a"\n')
open(os.path.join(d, "bin"), "wb").write(b"\xff\xfe\x00CONFIG_A=y\n")
k = kc.Kconfig(os.path.join(d, "Kconfig"))
st = MenuConfigState.__new__(MenuConfigState)
st.kconf = k
try:
    ok, msg = st.try_load(os.path.join(d, "bin"))
    print("try_load ->", ok, (msg or "")[:60].replace("\n", " "))
    rc = 0 if ok is False else 1
except Exception as e:
    print("DEFECT:", type(e).__name__, str(e)[:80]); rc = 1
shutil.rmtree(d)
sys.exit(rc)
