#!/venv/bin/python
"""C14 (protocol v1): an option that turns invisible is reported as null; when it becomes visible again with the value it
had, the reply omits it (the values snapshot did not change), so the v1 client keeps null for a visible option.
exit 0 = absent."""
import json, os, subprocess, sys, tempfile, shutil
root = sys.argv[1] if len(sys.argv) > 1 else "/repo"
d = tempfile.mkdtemp()
open(os.path.join(d, "Kconfig"), "w").write('mainmenu "t"\nconfig A\n    bool "a"\n    default y\nconfig P\n    string "p" if A\n    default "x"\n')
open(os.path.join(d, "sdkconfig"), "w").write("")
reqs = [{"version": 1, "set": {"A": False}}, {"version": 1, "set": {"A": True}}]
p = subprocess.run([sys.executable, "-m", "kconfserver", "--kconfig", os.path.join(d, "Kconfig"), "--config", os.path.join(d, "sdkconfig")],
                   input="".join(json.dumps(r) + "\n" for r in reqs), capture_output=True, text=True, cwd=root, env=dict(os.environ, PYTHONPATH=root))
lines = [json.loads(l) for l in p.stdout.splitlines() if l.strip().startswith("{")]
shutil.rmtree(d)
if len(lines) < 3:
    print("server did not answer:", p.stderr[-300:]); sys.exit(2)
client = dict(lines[0]["values"])
for rep in lines[1:]:
    client.update(rep["values"])
print("client P =", client.get("P"))
sys.exit(0 if client.get("P") == "x" else 1)
