#!/venv/bin/python
"""C13: kconfgen `--output report` for an unchanged configuration differs between runs: DefaultValuesArea keeps its records
in sets and return_json() iterates them unsorted, so the order follows string hashing. exit 0 = same text for several
PYTHONHASHSEEDs."""
import os, subprocess, sys, tempfile, shutil
root = sys.argv[1] if len(sys.argv) > 1 else "/repo"
d = tempfile.mkdtemp()
open(os.path.join(d, "Kconfig"), "w").write('mainmenu "t"\n' + "".join(f'config V{c}\n    int "v{c}"\n    default {i}\n' for i, c in enumerate("ABCDEFGH", 1)))
open(os.path.join(d, "sdkconfig"), "w").write("".join(f"# default:\nCONFIG_V{c}={i + 10}\n" for i, c in enumerate("ABCDEFGH", 1)))
outs = set()
for seed in ("1", "2", "3", "4"):
    out = os.path.join(d, f"rep{seed}.json")
    env = dict(os.environ, PYTHONPATH=root, PYTHONHASHSEED=seed)
    r = subprocess.run([sys.executable, "-m", "kconfgen", "--kconfig", os.path.join(d, "Kconfig"), "--config", os.path.join(d, "sdkconfig"),
                        "--output", "report", out], cwd=root, env=env, capture_output=True, text=True)
    if not os.path.exists(out):
        print("kconfgen failed:", r.stderr[-400:]); shutil.rmtree(d); sys.exit(2)
    outs.add(open(out).read())
shutil.rmtree(d)
print("distinct report texts:", len(outs))
sys.exit(0 if len(outs) == 1 else 1)
