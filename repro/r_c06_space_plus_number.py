#!/venv/bin/python
"""C06/C07: int() also accepts surrounding whitespace and a plus sign, so hex ` 1f` / `+0x1f` (set_value or `CONFIG_H= 1f` in a
file) passed the form check and the header got `#define CONFIG_H 0x 1f` / `0x+0x1f`, while JSON and CMake said 31.
exit 0 = such text is rejected like any other malformed number."""
import os, sys, tempfile, shutil
root = sys.argv[1] if len(sys.argv) > 1 else "/repo"
sys.path.insert(0, root)
import esp_kconfiglib.core as kc  # noqa: E402
d = tempfile.mkdtemp()
open(os.path.join(d, "Kconfig"), "w").write('mainmenu "t"\nconfig I\n    int "i"\n    default 1\nconfig H\n    hex "h"\n    default 0x1\n')
k = kc.Kconfig(os.path.join(d, "Kconfig"))
k.warn = False
bad = []
for name, text in (("H", " 1f"), ("H", "+0x1f"), ("H", "1f\n"), ("I", " 12"), ("I", "+12")):
    r = k.syms[name].set_value(text)
    hdr = [l for l in k._autoconf_contents("").splitlines() if f"CONFIG_{name} " in l]
    if r or k.syms[name].str_value == text:
        bad.append((name, text, hdr))
    k.syms[name].unset_value()
for name, text in (("H", "1f"), ("H", "0X1F"), ("I", "-12"), ("I", "007")):
    if not k.syms[name].set_value(text):
        bad.append((name, text, "rejected"))
print("wrongly handled:", bad)
shutil.rmtree(d)
sys.exit(1 if bad else 0)
