#!/venv/bin/python
"""C17: the jump-to dialog hands the typed text to MenuConfigState.search_nodes(), which compiles it as a regular expression and
catches re.error only: `a{99999999999}` raises OverflowError in re.compile. exit 0 = reported as a bad expression."""
import os, sys, tempfile, shutil
root = sys.argv[1] if len(sys.argv) > 1 else "/repo"
sys.path.insert(0, root)
import esp_kconfiglib.core as kc  # noqa: E402
from esp_menuconfig.model import MenuConfigState  # noqa: E402
d = tempfile.mkdtemp()
open(os.path.join(d, "Kconfig"), "w").write('mainmenu "t"\nconfig A\n    bool "a"\n')
k = kc.Kconfig(os.path.join(d, "Kconfig"))
st = MenuConfigState(k, f"{d}/sdkconfig", f"{d}/min", False)
rc = 0
for q in ("a{99999999999}", "(" * 5000 + "a" + ")" * 5000, "a(", "a"):
    try:
        res, msg = st.search_nodes(q)
        print(repr(q[:20]), "->", len(res), (msg or "")[:40])
    except Exception as e:
        print("DEFECT:", repr(q[:20]), type(e).__name__); rc = 1
shutil.rmtree(d)
sys.exit(rc)
