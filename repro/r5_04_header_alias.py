"""5.4 (R07.3/R07.4): deprecated_header_contents emits `!` for an inverted alias of a non-bool option and omits an
inverted alias whenever its replacement is n, so the header disagrees with sdkconfig and CMake. exit 0 = absent."""
import sys, tempfile
import esp_kconfiglib.core as kl
import kconfgen.core as kg
d = tempfile.mkdtemp()
open(f"{d}/Kconfig", "w").write('mainmenu "t"\nconfig A\n    bool "a"\nconfig N\n    int "n"\n    default 5\n')
open(f"{d}/sdkconfig.rename", "w").write("CONFIG_OLD_INV !CONFIG_A\nCONFIG_OLD_N !CONFIG_N\n")
k = kl.Kconfig(f"{d}/Kconfig"); k.load_rename_files([f"{d}/sdkconfig.rename"])
kg.write_config(k, f"{d}/sdkconfig"); kg.write_header(k, f"{d}/h.h"); kg.write_cmake(k, f"{d}/c.cmake")
sd, h, cm = (open(f"{d}/{x}").read() for x in ("sdkconfig", "h.h", "c.cmake"))
show = lambda t: [l for l in t.splitlines() if "OLD_" in l and "CONFIGS_LIST" not in l]
print("sdkconfig", show(sd)); print("header   ", show(h)); print("cmake    ", show(cm))
bad = []
if "CONFIG_OLD_INV=y" in sd and "#define CONFIG_OLD_INV" not in h: bad.append("OLD_INV is y in sdkconfig/cmake but undefined in the header")
if "#define CONFIG_OLD_N !CONFIG_N" in h: bad.append("OLD_N is 5 in sdkconfig/cmake but `!CONFIG_N` in the header")
print(bad); sys.exit(1 if bad else 0)
