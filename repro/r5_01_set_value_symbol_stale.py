"""5.1 / 5.13: `set TGT=SRC` value symbol missing from the invalidation / loop graph.
Run: /venv/bin/python r5_01_set_value_symbol_stale.py   (exit 0 = defect absent)"""
import os, sys, tempfile, textwrap
os.environ.setdefault("KCONFIG_PARSER_VERSION", "1")
import esp_kconfiglib.core as kconfiglib
d = tempfile.mkdtemp()
p = os.path.join(d, "Kconfig")
open(p, "w").write(textwrap.dedent('''
    config EN
        bool "en"
        default y
        set TGT=SRC
    config SRC
        string "src"
        default "aaa"
    config TGT
        string "tgt"
        default "zzz"
'''))
k = kconfiglib.Kconfig(p)
a = k.syms["TGT"].str_value
k.syms["SRC"].set_value("bbb")
b = k.syms["TGT"].str_value
k._invalidate_all()
c = k.syms["TGT"].str_value
print("before", a, "after-set", b, "after-invalidate-all", c)
bad = b != c
# loop
open(p, "w").write(textwrap.dedent('''
    config EN
        bool "en"
        default y
        set TGT=SRC
    config SRC
        string "src"
        default TGT
    config TGT
        string "tgt"
        default "zzz"
'''))
try:
    k = kconfiglib.Kconfig(p)
    try:
        k.syms["TGT"].str_value
        print("loop tree accepted and evaluated?!")
        bad = True
    except RecursionError:
        print("loop tree accepted, RecursionError on evaluation")
        bad = True
except Exception as e:
    print("loop rejected:", type(e).__name__)
sys.exit(1 if bad else 0)
