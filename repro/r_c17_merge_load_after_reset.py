#!/venv/bin/python
"""C17: set a bool option, reset it to its default (or unset it), then merge-load a file that assigns it:
Kconfig._assigned_twice() is reached with _user_value None -> KeyError(None). exit 0 = absent."""
import os, sys, tempfile, shutil
root = sys.argv[1] if len(sys.argv) > 1 else "/repo"
sys.path.insert(0, root)
import esp_kconfiglib.core as kc  # noqa: E402
d = tempfile.mkdtemp()
open(os.path.join(d, "Kconfig"), "w").write('mainmenu "t"\nconfig A\n    bool "a"\n    default y\n')
f = os.path.join(d, "other"); open(f, "w").write("# CONFIG_A is not set\n")
bad = 0
for how in ("reset", "unset"):
    k = kc.Kconfig(os.path.join(d, "Kconfig"))
    A = k.syms["A"]
    A.set_value(0)
    kc._restore_default(A.nodes[0]) if how == "reset" else A.unset_value()
    try:
        k.load_config(f, replace=False)
    except KeyError as e:
        print(f"DEFECT ({how}): KeyError {e}"); bad = 1
shutil.rmtree(d)
sys.exit(bad)
