"""Moved and renamed functions (in memory only).

`Move nested function to module level / to a method`, `rename private helper` and `rename parameter` leave every statement
in place but change the name under which the rules find it. Before the inliner runs, every function the reference tree
knows (sa/func_shapes.json: parameters and a bag of the attribute / callee names its body mentions, generated on a green
tree by tools/gen_localsig.py) and that is *missing* from the module is matched against the functions the reference tree
does not know. A new function whose bag is close to the missing one's (Jaccard >= 0.6, mutual best match) is taken to be
the same function and put back under its reference name:

* renamed at the same place (module level / same class / same enclosing function): the definition and every reference in
  the module get the reference name back;
* un-nested (reference `A.<locals>.f`, now a module-level function or a method of A's class): it is re-nested into A under
  the reference name. The parameters it gained (formerly captured variables) must receive the same plain name at every
  call site; they are substituted in the body and dropped from the calls. If it is called from anywhere outside A the
  move is left alone (the rule then fails closed as before).

Independently, the positional parameters of every known function are given their reference names back when only the
names differ. Nothing here touches a tree in which every known function is present under its own name and parameters."""
from __future__ import annotations

import ast
import copy
import json
import os
from typing import Dict, List, Optional, Set, Tuple

SHAPES_PATH = os.path.join(os.path.dirname(os.path.abspath(__file__)), "func_shapes.json")
_SHAPES: Optional[Dict[str, Dict[str, dict]]] = None


def shapes() -> Dict[str, Dict[str, dict]]:
    global _SHAPES
    if _SHAPES is None:
        _SHAPES = json.load(open(SHAPES_PATH)) if os.path.exists(SHAPES_PATH) else {}
    return _SHAPES


def bag_of(fn: ast.AST) -> List[str]:
    """names a function body mentions that survive local renaming: attributes, called names, short string constants and
    statement kinds (docstrings excluded)"""
    out: Set[str] = set()
    docs = {id(n.value) for n in ast.walk(fn) if isinstance(n, ast.Expr) and isinstance(n.value, ast.Constant)}
    for n in ast.walk(fn):
        if n is fn:
            continue
        if isinstance(n, ast.Attribute):
            out.add("." + n.attr)
        elif isinstance(n, ast.Call) and isinstance(n.func, ast.Name):
            out.add(n.func.id + "()")
        elif isinstance(n, ast.Constant) and isinstance(n.value, str) and 0 < len(n.value) <= 40 and id(n) not in docs:
            out.add("'" + n.value)
        elif isinstance(n, (ast.For, ast.While, ast.Try, ast.With, ast.Raise, ast.Return, ast.Yield)):
            out.add("<" + type(n).__name__ + ">")
    return sorted(out)


def params_of(fn: ast.AST) -> List[str]:
    a = fn.args
    return [x.arg for x in a.posonlyargs + a.args]


def _jaccard(a: Set[str], b: Set[str]) -> float:
    if not a and not b:
        return 1.0
    return len(a & b) / max(1, len(a | b))


class _RenameRefs(ast.NodeTransformer):
    def __init__(self, old: str, new: str):
        self.old, self.new = old, new

    def visit_Name(self, n):
        if n.id == self.old:
            n.id = self.new
        return n

    def visit_Attribute(self, n):
        self.generic_visit(n)
        if n.attr == self.old:
            n.attr = self.new
        return n

    def visit_FunctionDef(self, n):
        if n.name == self.old:
            n.name = self.new
        self.generic_visit(n)
        return n


class _RenameLocal(ast.NodeTransformer):
    def __init__(self, m: Dict[str, str]):
        self.m = m

    def visit_Name(self, n):
        if n.id in self.m:
            n.id = self.m[n.id]
        return n

    def visit_arg(self, n):
        if n.arg in self.m:
            n.arg = self.m[n.arg]
        return n


class _SubstNames(ast.NodeTransformer):
    def __init__(self, m: Dict[str, ast.AST]):
        self.m = m

    def visit_Name(self, n):
        if n.id in self.m and isinstance(n.ctx, ast.Load):
            return ast.copy_location(copy.deepcopy(self.m[n.id]), n)
        return n


def _owner_list(tree: ast.Module, node: ast.AST) -> Optional[list]:
    for parent in ast.walk(tree):
        for fld in ("body", "orelse", "finalbody"):
            b = getattr(parent, fld, None)
            if isinstance(b, list) and any(x is node for x in b):
                return b
    return None


def _split(q: str) -> Tuple[str, str]:
    """('A.<locals>.' or 'Cls.' or '', name)"""
    i = q.rfind(".")
    return (q[:i + 1], q[i + 1:]) if i >= 0 else ("", q)


def restore(tree: ast.Module, modname: str) -> int:
    from .inline import all_function_quals
    ref = shapes().get(modname)
    if not ref:
        return 0
    count = 0
    quals = all_function_quals(tree)
    missing = [q for q in ref if q not in quals and q != "<globals>"]
    new = [q for q in quals if q not in ref]
    if missing and new:
        bags_new = {q: set(bag_of(quals[q][0])) for q in new}
        scores = {}
        for mq in missing:
            mb = set(ref[mq]["bag"])
            if len(mb) < 3:
                continue
            for nq in new:
                s = _jaccard(mb, bags_new[nq])
                if s >= 0.6:
                    scores[(mq, nq)] = s
        used_new: Set[str] = set()
        for (mq, nq), s in sorted(scores.items(), key=lambda kv: -kv[1]):
            if nq in used_new or mq in quals:
                continue
            if any(s2 > s for (m2, n2), s2 in scores.items() if (m2 == mq) != (n2 == nq)):
                continue  # not a mutual best match
            if _put_back(tree, mq, nq, ref[mq]):
                used_new.add(nq)
                count += 1
                quals = all_function_quals(tree)
    # parameter names
    quals = all_function_quals(tree)
    for q, (fn, cls, outer) in quals.items():
        r = ref.get(q)
        if not r:
            continue
        cur, want = params_of(fn), r["params"]
        if cur != want and len(cur) == len(want):
            m = {c: w for c, w in zip(cur, want) if c != w}
            names = {x.id for x in ast.walk(fn) if isinstance(x, ast.Name)} | set(cur)
            if any(w in names for w in m.values()):
                continue
            kwcalls = [k for c in ast.walk(tree) if isinstance(c, ast.Call) and (
                (isinstance(c.func, ast.Name) and c.func.id == fn.name) or (isinstance(c.func, ast.Attribute) and c.func.attr == fn.name))
                for k in c.keywords if k.arg in m]
            for k in kwcalls:
                k.arg = m[k.arg]
            _RenameLocal(m).visit(fn)
            count += 1
    if count:
        ast.fix_missing_locations(tree)
    return count


def _put_back(tree: ast.Module, mq: str, nq: str, refent: dict) -> bool:
    from .inline import all_function_quals
    quals = all_function_quals(tree)
    fn, ncls, nouter = quals[nq]
    mpre, mname = _split(mq)
    npre, nname = _split(nq)
    if any(_split(q)[1] == mname and q != nq for q in quals):
        if mpre == npre:
            return False
    if mpre == npre:
        # renamed in place
        if mname != nname:
            _RenameRefs(nname, mname).visit(tree)
        return True
    if not mpre.endswith(".<locals>."):
        return False
    encl_q = mpre[:-len(".<locals>.")]
    if encl_q not in quals or nouter is not None:
        return False
    encl, ecls, _ = quals[encl_q]
    is_method = ncls is not None
    if is_method and ncls != ecls:
        return False
    # every call site must be inside the enclosing function
    inside = {id(x) for x in ast.walk(encl)}
    own = {id(x) for x in ast.walk(fn)}
    sites: List[ast.Call] = []
    rec_sites: List[ast.Call] = []
    for c in ast.walk(tree):
        if isinstance(c, ast.Call):
            if (not is_method and isinstance(c.func, ast.Name) and c.func.id == nname) or \
               (is_method and isinstance(c.func, ast.Attribute) and c.func.attr == nname and isinstance(c.func.value, ast.Name) and c.func.value.id == "self"):
                if id(c) in own:
                    rec_sites.append(c)
                    continue
                if id(c) not in inside:
                    return False
                sites.append(c)
    other_refs = [x for x in ast.walk(tree) if ((isinstance(x, ast.Name) and x.id == nname) or (isinstance(x, ast.Attribute) and x.attr == nname))
                  and not any(x is c.func for c in sites + rec_sites)]
    if other_refs or not sites:
        return False
    ps = params_of(fn)
    if any(isinstance(d, ast.Name) and d.id in ("staticmethod", "classmethod") for d in fn.decorator_list):
        is_self = False
    else:
        is_self = is_method
    if is_self:
        ps = ps[1:]
    want = refent["params"]
    if fn.args.vararg or fn.args.kwarg or fn.args.kwonlyargs or len(ps) < len(want):
        return False
    if all(w in ps for w in want):
        kept = [p for p in ps if p in want]
        if kept != want:
            return False
    else:
        kept = ps[:len(want)]
    extras = [p for p in ps if p not in kept]
    # bind the arguments of every call site
    subst: Dict[str, ast.AST] = {}
    for c in sites:
        if any(k.arg is None for k in c.keywords) or any(isinstance(a, ast.Starred) for a in c.args):
            return False
        bound: Dict[str, ast.AST] = {}
        for p, a in zip(ps, c.args):
            bound[p] = a
        for k in c.keywords:
            bound[k.arg] = k.value
        for p in extras:
            a = bound.get(p)
            if a is None:
                return False
            base = a
            while isinstance(base, ast.Attribute):
                base = base.value
            if not isinstance(base, ast.Name):
                return False
            if p in subst and ast.dump(subst[p]) != ast.dump(a):
                return False
            subst[p] = a
    for c in rec_sites:  # a recursive call hands its extra parameters through unchanged
        bound = dict(zip(ps, c.args))
        bound.update({k.arg: k.value for k in c.keywords})
        if any(not (isinstance(bound.get(p), ast.Name) and bound[p].id == p) for p in extras):
            return False
    for c in sites + rec_sites:
        bound = {}
        for p, a in zip(ps, c.args):
            bound[p] = a
        kw = {k.arg: k for k in c.keywords}
        c.args = [bound[p] for p in kept if p in bound]
        c.keywords = [kw[p] for p in kept if p not in bound and p in kw]
        c.func = ast.copy_location(ast.Name(id=mname, ctx=ast.Load()), c.func)
    # rebuild the nested definition
    owner = _owner_list(tree, fn)
    if owner is None:
        return False
    owner[:] = [x for x in owner if x is not fn] or [ast.copy_location(ast.Pass(), fn)]
    real = {p: a for p, a in subst.items() if not (isinstance(a, ast.Name) and a.id == p)}
    if real:
        _SubstNames(real).visit(fn)
    a = fn.args
    allargs = a.posonlyargs + a.args
    drop = set(extras) | ({allargs[0].arg} if is_self and allargs else set())
    ndef = len(a.defaults)
    defaults = dict(zip([x.arg for x in allargs[len(allargs) - ndef:]], a.defaults)) if ndef else {}
    a.posonlyargs = []
    a.args = [x for x in allargs if x.arg not in drop]
    a.defaults = [defaults[x.arg] for x in a.args if x.arg in defaults]
    fn.name = mname
    fn.decorator_list = [d for d in fn.decorator_list if not (isinstance(d, ast.Name) and d.id == "staticmethod")]
    body = encl.body
    pos = 1 if body and isinstance(body[0], ast.Expr) and isinstance(body[0].value, ast.Constant) and isinstance(body[0].value.value, str) else 0
    body.insert(pos, fn)
    from .inline import renumber
    ast.fix_missing_locations(encl)
    renumber(encl)
    return True
