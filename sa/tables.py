"""Dispatch-table extraction: symbol-type tests, if/elif chains, f-string and regex skeletons."""
from __future__ import annotations

import ast
import re
from typing import Dict, List, Optional, Set, Tuple

from .repo import Repo

TYPES = {"BOOL", "STRING", "INT", "HEX", "FLOAT", "UNKNOWN"}
CORE = "esp_kconfiglib.core"


def type_set(repo: Repo, e: ast.AST, depth: int = 5) -> Optional[Set[str]]:
    """Set of symbol types denoted by a constant expression (BOOL, kconfiglib.HEX, _INT_HEX, (INT, HEX), ...)."""
    if isinstance(e, ast.Name):
        if e.id in TYPES:
            return {e.id}
        if depth:
            v = repo.module_assigns(CORE).get(e.id)
            if v is not None:
                return type_set(repo, v, depth - 1)
        return None
    if isinstance(e, ast.Attribute):
        if e.attr in TYPES:
            return {e.attr}
        if depth:
            v = repo.module_assigns(CORE).get(e.attr)
            if v is not None:
                return type_set(repo, v, depth - 1)
        return None
    if isinstance(e, (ast.Tuple, ast.List, ast.Set)):
        out: Set[str] = set()
        for x in e.elts:
            s = type_set(repo, x, depth)
            if s is None:
                return None
            out |= s
        return out
    if isinstance(e, ast.Call) and ast.unparse(e.func) in ("frozenset", "set", "tuple") and len(e.args) == 1:
        return type_set(repo, e.args[0], depth)
    return None


class TypeTest:
    __slots__ = ("node", "subject", "types", "positive")

    def __init__(self, node, subject, types, positive):
        self.node, self.subject, self.types, self.positive = node, subject, types, positive


def type_tests_in(repo: Repo, e: ast.AST) -> List[TypeTest]:
    """All `<x>.orig_type|.type ==/!=/in/not in <types>` comparisons inside expression/statement e."""
    out = []
    for n in ast.walk(e):
        if isinstance(n, ast.Compare) and len(n.ops) == 1 and isinstance(n.left, ast.Attribute) and n.left.attr in ("orig_type", "type"):
            ts = type_set(repo, n.comparators[0])
            if ts is None:
                continue
            op = n.ops[0]
            if isinstance(op, (ast.Eq, ast.In, ast.Is)):
                out.append(TypeTest(n, ast.unparse(n.left.value), ts, True))
            elif isinstance(op, (ast.NotEq, ast.NotIn, ast.IsNot)):
                out.append(TypeTest(n, ast.unparse(n.left.value), ts, False))
    return out


def if_chain(stmt: ast.If) -> Tuple[List[Tuple[ast.AST, List[ast.stmt]]], List[ast.stmt]]:
    """[(test, body)...], else_body for an if/elif/else chain."""
    arms = []
    cur: ast.stmt = stmt
    while True:
        assert isinstance(cur, ast.If)
        arms.append((cur.test, cur.body))
        if len(cur.orelse) == 1 and isinstance(cur.orelse[0], ast.If):
            cur = cur.orelse[0]
            continue
        return arms, cur.orelse


def type_chains(repo: Repo, fn: ast.AST) -> List[Tuple[ast.If, List[Tuple[Set[str], ast.AST, List[ast.stmt]]], List[ast.stmt]]]:
    """if/elif chains of fn whose arms test a symbol type: [(first_if, [(types, test, body)], else_body)]."""
    chains = []
    seen: Set[int] = set()
    for n in ast.walk(fn):
        if isinstance(n, ast.If) and id(n) not in seen:
            arms, els = if_chain(n)
            cur = n
            while True:
                seen.add(id(cur))
                if len(cur.orelse) == 1 and isinstance(cur.orelse[0], ast.If):
                    cur = cur.orelse[0]
                else:
                    break
            typed = []
            for test, body in arms:
                tts = [t for t in type_tests_in(repo, test) if t.positive]
                if tts:
                    ts: Set[str] = set()
                    for t in tts:
                        ts |= t.types
                    typed.append((ts, test, body))
            if typed:
                chains.append((n, typed, els))
    return chains


# --------------------------------------------------------------------------- string skeletons
def fstring_skeleton(e: ast.AST) -> Optional[List[object]]:
    """['literal', ('slot', 'expr text'), ...] for an f-string / constant / + concatenation."""
    if isinstance(e, ast.Constant) and isinstance(e.value, str):
        return [e.value]
    if isinstance(e, ast.JoinedStr):
        out: List[object] = []
        for v in e.values:
            if isinstance(v, ast.Constant):
                out.append(v.value)
            elif isinstance(v, ast.FormattedValue):
                out.append(("slot", ast.unparse(v.value)))
        return out
    if isinstance(e, ast.BinOp) and isinstance(e.op, ast.Add):
        l, r = fstring_skeleton(e.left), fstring_skeleton(e.right)
        if l is None or r is None:
            return None
        return l + r
    if isinstance(e, (ast.Name, ast.Attribute, ast.Call, ast.Subscript)):
        return [("slot", ast.unparse(e))]
    return None


def skeleton_literals(sk: List[object]) -> str:
    """Literal parts joined with a NUL placeholder per slot."""
    return "".join(x if isinstance(x, str) else "\0" for x in sk)


def regex_source(e: ast.AST) -> Optional[List[object]]:
    """Pattern skeleton of re.compile(<pattern expr>): literal pieces and slots."""
    return fstring_skeleton(e)


def replace_chain(e: ast.AST) -> Optional[Tuple[str, List[Tuple[str, str]]]]:
    """x.replace(a, b).replace(c, d) -> ('x', [(a,b),(c,d)])"""
    pairs: List[Tuple[str, str]] = []
    cur = e
    while isinstance(cur, ast.Call) and isinstance(cur.func, ast.Attribute) and cur.func.attr == "replace" and len(cur.args) == 2 \
            and all(isinstance(a, ast.Constant) and isinstance(a.value, str) for a in cur.args):
        pairs.append((cur.args[0].value, cur.args[1].value))
        cur = cur.func.value
    if not pairs:
        return None
    pairs.reverse()
    return ast.unparse(cur), pairs
