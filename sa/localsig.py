"""Local-name normalisation: makes the rules independent of how a function's local variables are called.

Rules refer to locals of the analysed functions by the names they have in the reference tree (e.g. `value_is_default`,
`has_active_range`, `new_expr1`). Renaming a local is a behaviour-preserving edit, so before any rule runs every function
is alpha-normalised: each local gets a *signature* - how it is first bound (the defining expression with other locals
abstracted away, or the loop/with/except construct that binds it, plus its position in a tuple target) - and a local
whose signature is known from the committed table `localsig.json` (generated from the reference tree by
tools/gen_localsig.py) is renamed back, in the in-memory AST only, to the name the rules use. A local whose defining
expression also changed keeps its new name (the rule then fails closed or reports the changed shape)."""
from __future__ import annotations

import ast
import json
import os
from typing import Dict, List, Optional, Set, Tuple

TABLE_PATH = os.path.join(os.path.dirname(os.path.abspath(__file__)), "localsig.json")


def locals_of(fn: ast.AST) -> Set[str]:
    params, stores, banned = set(), set(), set()
    for n in ast.walk(fn):
        if isinstance(n, (ast.FunctionDef, ast.AsyncFunctionDef, ast.Lambda)):
            a = n.args
            for x in a.posonlyargs + a.args + a.kwonlyargs:
                params.add(x.arg)
            if a.vararg:
                params.add(a.vararg.arg)
            if a.kwarg:
                params.add(a.kwarg.arg)
            if not isinstance(n, ast.Lambda) and n is not fn:
                banned.add(n.name)
        elif isinstance(n, ast.ClassDef):
            banned.add(n.name)
        elif isinstance(n, (ast.Global, ast.Nonlocal)):
            banned |= set(n.names)
        elif isinstance(n, ast.Name) and isinstance(n.ctx, ast.Store):
            stores.add(n.id)
        elif isinstance(n, ast.ExceptHandler) and n.name:
            stores.add(n.name)
        elif isinstance(n, (ast.Import, ast.ImportFrom)):
            for al in n.names:
                banned.add((al.asname or al.name).split(".")[0])
    return stores - params - banned


class _Abstract(ast.NodeTransformer):
    def __init__(self, names: Set[str]):
        self.names = names

    def visit_Name(self, n):
        if n.id in self.names:
            return ast.Name(id="_", ctx=n.ctx)
        return n


def _abs(e: ast.AST, names: Set[str]) -> str:
    import copy
    return ast.unparse(_Abstract(names).visit(copy.deepcopy(e)))


def _targets(t: ast.AST, prefix: str = "") -> List[Tuple[str, str]]:
    if isinstance(t, ast.Name):
        return [(t.id, prefix)]
    if isinstance(t, (ast.Tuple, ast.List)):
        out = []
        for i, e in enumerate(t.elts):
            out += _targets(e.value if isinstance(e, ast.Starred) else e, f"{prefix}[{i}]")
        return out
    return []


def signatures(fn: ast.AST) -> Dict[str, str]:
    """local name -> signature key `sig#k`."""
    loc = locals_of(fn)
    first: Dict[str, Tuple[Tuple[int, int], str]] = {}

    def note(name: str, pos: Tuple[int, int], sig: str):
        if name in loc and (name not in first or pos < first[name][0]):
            first[name] = (pos, sig)

    for n in ast.walk(fn):
        if isinstance(n, ast.Assign):
            v = _abs(n.value, loc)
            for t in n.targets:
                for nm, pos in _targets(t):
                    note(nm, (n.lineno, n.col_offset), f"={v}{pos}")
        elif isinstance(n, ast.AnnAssign) and isinstance(n.target, ast.Name):
            note(n.target.id, (n.lineno, n.col_offset), "=" + (_abs(n.value, loc) if n.value is not None else "<ann>"))
        elif isinstance(n, ast.AugAssign) and isinstance(n.target, ast.Name):
            note(n.target.id, (n.lineno, n.col_offset), "aug " + _abs(n.value, loc))
        elif isinstance(n, (ast.For, ast.AsyncFor)):
            it = _abs(n.iter, loc)
            for nm, pos in _targets(n.target):
                note(nm, (n.lineno, n.col_offset), f"for {it}{pos}")
        elif isinstance(n, ast.comprehension):
            it = _abs(n.iter, loc)
            for nm, pos in _targets(n.target):
                note(nm, (n.target.lineno, n.target.col_offset), f"comp {it}{pos}")
        elif isinstance(n, (ast.With, ast.AsyncWith)):
            for it in n.items:
                if it.optional_vars is not None:
                    for nm, pos in _targets(it.optional_vars):
                        note(nm, (n.lineno, n.col_offset), f"with {_abs(it.context_expr, loc)}{pos}")
        elif isinstance(n, ast.ExceptHandler) and n.name:
            note(n.name, (n.lineno, n.col_offset), "except " + (_abs(n.type, loc) if n.type is not None else ""))
        elif isinstance(n, ast.NamedExpr) and isinstance(n.target, ast.Name):
            note(n.target.id, (n.lineno, n.col_offset), ":=" + _abs(n.value, loc))
    by_sig: Dict[str, List[Tuple[Tuple[int, int], str]]] = {}
    for nm, (pos, sig) in first.items():
        by_sig.setdefault(sig, []).append((pos, nm))
    out: Dict[str, str] = {}
    for sig, lst in by_sig.items():
        for k, (_, nm) in enumerate(sorted(lst)):
            out[nm] = f"{sig}#{k}"
    return out


def top_functions(tree: ast.Module) -> List[Tuple[str, ast.AST]]:
    out: List[Tuple[str, ast.AST]] = []

    def visit(body, prefix):
        for n in body:
            if isinstance(n, ast.ClassDef):
                visit(n.body, prefix + n.name + ".")
            elif isinstance(n, (ast.FunctionDef, ast.AsyncFunctionDef)):
                out.append((prefix + n.name, n))

    visit(tree.body, "")
    return out


class _Rename(ast.NodeTransformer):
    def __init__(self, mapping: Dict[str, str]):
        self.m = mapping

    def visit_Name(self, n):
        if n.id in self.m:
            n.id = self.m[n.id]
        return n

    def visit_ExceptHandler(self, n):
        if n.name in self.m:
            n.name = self.m[n.name]
        self.generic_visit(n)
        return n


_TABLE: Optional[Dict[str, Dict[str, Dict[str, str]]]] = None


def load_table() -> Dict[str, Dict[str, Dict[str, str]]]:
    global _TABLE
    if _TABLE is None:
        if os.path.exists(TABLE_PATH):
            with open(TABLE_PATH) as f:
                _TABLE = json.load(f)
        else:
            _TABLE = {}
    return _TABLE


def normalise(tree: ast.Module, modname: str) -> int:
    """Rename locals back to their reference names where the signature is known. Returns the number of renames."""
    table = load_table().get(modname)
    if not table:
        return 0
    n_ren = 0
    for q, fn in top_functions(tree):
        ref = table.get(q)
        if not ref:
            continue
        sigs = signatures(fn)
        cur_names = set(sigs) | {x.id for x in ast.walk(fn) if isinstance(x, ast.Name)}
        mapping: Dict[str, str] = {}
        for nm, key in sigs.items():
            want = ref.get(key)
            if want and want != nm and want.strip("_") and want not in cur_names and want not in mapping.values():
                mapping[nm] = want
        if mapping:
            _Rename(mapping).visit(fn)
            n_ren += len(mapping)
    return n_ren
