"""Name-based call graph over the parsed packages.

Strong edges: module-level functions called by (possibly aliased/imported) name, `self.m()` to a method
of the same class, `module_alias.f()` through an import alias. Weak edges: `obj.m()` with an unknown
receiver, resolved to every method named m in the receiver-table classes."""
from __future__ import annotations

import ast
from typing import Dict, Iterable, List, Optional, Set, Tuple

from .repo import Func, Repo

# receiver table (DESIGN 2.6): classes whose methods an unknown receiver may denote
RECEIVER_CLASSES = [
    "esp_kconfiglib.core:Kconfig", "esp_kconfiglib.core:Symbol", "esp_kconfiglib.core:Choice",
    "esp_kconfiglib.core:MenuNode", "esp_kconfiglib.deprecated:DeprecatedOptions",
    "esp_kconfiglib.report:KconfigReport", "esp_menuconfig.model:MenuConfigState",
    "esp_idf_kconfig.gen_kconfig_doc:ConfigTargetVisibility",
]


class CallGraph:
    def __init__(self, repo: Repo):
        self.repo = repo
        self.imports: Dict[str, Dict[str, str]] = {}  # module -> local name -> "mod" or "mod:func"
        for mname, m in repo.modules.items():
            self.imports[mname] = self._imports(mname, m.tree)
        self.strong: Dict[str, Set[str]] = {}
        self.weak: Dict[str, Set[str]] = {}
        self.sites: Dict[str, List[Tuple[ast.Call, str, bool]]] = {}  # caller -> (call, callee, strong)
        for f in repo.all_funcs():
            self._edges(f)

    def _imports(self, mname: str, tree: ast.Module) -> Dict[str, str]:
        out: Dict[str, str] = {}
        pkg = mname.rsplit(".", 1)[0] if "." in mname else mname
        for n in ast.walk(tree):
            if isinstance(n, ast.Import):
                for al in n.names:
                    if al.asname:
                        out[al.asname] = al.name
                    else:
                        out[al.name.split(".")[0]] = al.name.split(".")[0]
            elif isinstance(n, ast.ImportFrom):
                base = n.module or ""
                if n.level:
                    parts = mname.split(".")
                    # a package __init__ is its own package
                    is_pkg = self.repo.modules[mname].path.endswith("__init__.py")
                    up = parts if is_pkg else parts[:-1]
                    up = up[: len(up) - (n.level - 1)] if n.level > 1 else up
                    base = ".".join(up + ([n.module] if n.module else []))
                for al in n.names:
                    local = al.asname or al.name
                    if f"{base}.{al.name}" in self.repo.modules:
                        out[local] = f"{base}.{al.name}"
                    else:
                        out[local] = f"{base}:{al.name}"
        return out

    def resolve_name(self, f: Func, name: str) -> Optional[str]:
        m = f.module.name
        # nested function of an enclosing function
        p: Optional[Func] = f
        while p is not None:
            q = f"{p.qual}.<locals>.{name}"
            if q in self.repo.funcs:
                return q
            p = p.parent
        q = f"{m}:{name}"
        if q in self.repo.funcs:
            return q
        if q in self.repo.classes:
            init = f"{q}.__init__"
            return init if init in self.repo.funcs else None
        tgt = self.imports[m].get(name)
        if tgt and ":" in tgt:
            if tgt in self.repo.funcs:
                return tgt
            if tgt in self.repo.classes and f"{tgt}.__init__" in self.repo.funcs:
                return f"{tgt}.__init__"
            # re-exported through a package __init__ (from .core import *)
            mod, nm = tgt.split(":")
            for cand in (f"{mod}.core:{nm}",):
                if cand in self.repo.funcs:
                    return cand
        return None

    def _local_aliases(self, f: Func) -> Dict[str, ast.AST]:
        al: Dict[str, ast.AST] = {}
        cnt: Dict[str, int] = {}
        for n in ast.walk(f.node):
            if isinstance(n, ast.Assign) and len(n.targets) == 1 and isinstance(n.targets[0], ast.Name):
                nm = n.targets[0].id
                cnt[nm] = cnt.get(nm, 0) + 1
                al[nm] = n.value
        return {k: v for k, v in al.items() if cnt[k] == 1 or isinstance(v, (ast.Name, ast.Attribute))}

    def _multi_aliases(self, f: Func) -> Dict[str, List[ast.AST]]:
        al: Dict[str, List[ast.AST]] = {}
        for n in ast.walk(f.node):
            if isinstance(n, ast.Assign) and len(n.targets) == 1 and isinstance(n.targets[0], ast.Name):
                if isinstance(n.value, (ast.Name, ast.Attribute)):
                    al.setdefault(n.targets[0].id, []).append(n.value)
        return al

    def callee_of(self, f: Func, call: ast.Call) -> List[Tuple[str, bool]]:
        """[(qualname, strong)] for one call expression."""
        fn = call.func
        res: List[Tuple[str, bool]] = []
        if isinstance(fn, ast.Name):
            q = self.resolve_name(f, fn.id)
            if q:
                return [(q, True)]
            for v in self._multi_aliases(f).get(fn.id, []):
                res += self.callee_of(f, ast.Call(func=v, args=call.args, keywords=call.keywords))
            return res
        if isinstance(fn, ast.Attribute):
            base = fn.value
            if isinstance(base, ast.Name):
                if base.id == "self" and f.cls:
                    q = f"{f.module.name}:{f.cls}.{fn.attr}"
                    if q in self.repo.funcs:
                        return [(q, True)]
                tgt = self.imports[f.module.name].get(base.id)
                if tgt and ":" not in tgt:
                    for cand in (f"{tgt}:{fn.attr}", f"{tgt}.core:{fn.attr}"):
                        if cand in self.repo.funcs:
                            return [(cand, True)]
                        if cand in self.repo.classes and f"{cand}.__init__" in self.repo.funcs:
                            return [(f"{cand}.__init__", True)]
            for cq in RECEIVER_CLASSES:
                q = f"{cq}.{fn.attr}"
                if q in self.repo.funcs:
                    res.append((q, False))
        return res

    def _edges(self, f: Func):
        st: Set[str] = set()
        wk: Set[str] = set()
        sites: List[Tuple[ast.Call, str, bool]] = []
        for n in self._own_nodes(f):
            if isinstance(n, ast.Call):
                for q, strong in self.callee_of(f, n):
                    (st if strong else wk).add(q)
                    sites.append((n, q, strong))
            elif isinstance(n, ast.Attribute) and isinstance(n.ctx, ast.Load):
                # property reads are calls too
                if isinstance(n.value, ast.Name) and n.value.id == "self" and f.cls:
                    q = f"{f.module.name}:{f.cls}.{n.attr}"
                    pf = self.repo.funcs.get(q)
                    if pf is not None and pf.is_property():
                        st.add(q)
                else:
                    for cq in RECEIVER_CLASSES:
                        q = f"{cq}.{n.attr}"
                        pf = self.repo.funcs.get(q)
                        if pf is not None and pf.is_property():
                            wk.add(q)
        # nested functions are considered called by their definer (callbacks, helpers)
        for q, g in self.repo.funcs.items():
            if g.parent is f:
                st.add(q)
        self.strong[f.qual] = st
        self.weak[f.qual] = wk
        self.sites[f.qual] = sites

    def _own_nodes(self, f: Func) -> Iterable[ast.AST]:
        stack = list(ast.iter_child_nodes(f.node))
        while stack:
            n = stack.pop()
            if isinstance(n, (ast.FunctionDef, ast.AsyncFunctionDef)):
                continue
            yield n
            stack.extend(ast.iter_child_nodes(n))

    def reachable(self, roots: Iterable[str], weak: bool = False) -> Set[str]:
        seen: Set[str] = set()
        stack = [r for r in roots]
        while stack:
            q = stack.pop()
            if q in seen or q not in self.repo.funcs:
                continue
            seen.add(q)
            stack.extend(self.strong.get(q, ()))
            if weak:
                stack.extend(self.weak.get(q, ()))
        return seen

    def callers(self, qual: str, weak: bool = True) -> List[Tuple[Func, ast.Call]]:
        out = []
        for caller, sites in self.sites.items():
            for call, q, strong in sites:
                if q == qual and (strong or weak):
                    out.append((self.repo.funcs[caller], call))
        return out
