"""Expansion of new dispatch tables (in memory only).

`Replace conditional with lookup table`: an if/elif chain over a type / relation constant becomes a module-level dict
`_T = {K1: f1, K2: f2, ...}` and the call `_T[k](x)` / `_T.get(k, d)(x)` / `c = _T.get(k); c(x) if c is not None else e`
/ `elif k in _T: ... _T[k](x)`. The rules read the chain (one arm per constant), so a table the reference tree does not
know (its name is not among the module-level names recorded in sa/func_shapes.json) whose entries are only ever *called*
is expanded back, before any other normalisation:

* the entry values are beta-reduced: lambdas by substitution, `operator.eq` & co. to the operator, plain function names
  (builtins, module helpers - the inliner takes care of new helpers afterwards) to a call;
* an expression becomes the conditional expression `f1(x) if k == K1 else f2(x) if k == K2 else ...`; when it is the whole
  right-hand side of an assignment or a returned value it becomes the if/elif statement chain; an `elif k in _T:` arm
  around such a chain is spliced into the surrounding elif chain.

Value tables (entries that are not called) are left alone."""
from __future__ import annotations

import ast
import copy
from typing import Dict, List, Optional, Set, Tuple

_OPS = {"eq": ast.Eq, "ne": ast.NotEq, "lt": ast.Lt, "le": ast.LtE, "gt": ast.Gt, "ge": ast.GtE, "is_": ast.Is, "is_not": ast.IsNot,
        "contains": None}
_BIN = {"add": ast.Add, "sub": ast.Sub, "mul": ast.Mult, "and_": ast.BitAnd, "or_": ast.BitOr}


def _tables(tree: ast.Module, known_globals: Set[str]) -> Dict[str, List[Tuple[ast.AST, ast.AST]]]:
    out: Dict[str, List[Tuple[ast.AST, ast.AST]]] = {}
    stores: Dict[str, int] = {}
    for st in tree.body:
        tgt = None
        if isinstance(st, ast.Assign) and len(st.targets) == 1 and isinstance(st.targets[0], ast.Name):
            tgt, val = st.targets[0].id, st.value
        elif isinstance(st, ast.AnnAssign) and isinstance(st.target, ast.Name) and st.value is not None:
            tgt, val = st.target.id, st.value
        if tgt is None:
            continue
        stores[tgt] = stores.get(tgt, 0) + 1
        if tgt in known_globals or not isinstance(val, ast.Dict) or not val.keys or any(k is None for k in val.keys):
            continue
        if not all(isinstance(k, (ast.Name, ast.Attribute, ast.Constant)) for k in val.keys):
            continue
        if not (all(isinstance(v, (ast.Lambda, ast.Name, ast.Attribute)) for v in val.values)
                or all(isinstance(v, ast.Constant) for v in val.values)):
            continue
        out[tgt] = list(zip(val.keys, val.values))
    # the table must not be mutated or passed around: every use is D[k] / D.get / `in D`
    for name in list(out):
        if stores.get(name) != 1:
            del out[name]
            continue
        for n in ast.walk(tree):
            for c in ast.iter_child_nodes(n):
                if isinstance(c, ast.Name) and c.id == name and isinstance(c.ctx, ast.Load):
                    ok = (isinstance(n, ast.Subscript) and n.value is c and isinstance(n.ctx, ast.Load)) or \
                         (isinstance(n, ast.Attribute) and n.attr == "get") or \
                         (isinstance(n, ast.Compare) and c in n.comparators and all(isinstance(o, (ast.In, ast.NotIn)) for o in n.ops))
                    if not ok:
                        out.pop(name, None)
    return out


def _apply(v: ast.AST, args: List[ast.AST], keywords: List[ast.keyword]) -> ast.AST:
    """the call v(*args) with v beta-reduced where possible"""
    if isinstance(v, ast.Lambda) and not keywords and not v.args.vararg and not v.args.kwarg and not v.args.kwonlyargs \
            and len(v.args.args) + len(v.args.posonlyargs) == len(args) and not v.args.defaults:
        ps = [a.arg for a in v.args.posonlyargs + v.args.args]
        m = dict(zip(ps, args))

        class S(ast.NodeTransformer):
            def visit_Name(self, n):
                return copy.deepcopy(m[n.id]) if n.id in m and isinstance(n.ctx, ast.Load) else n
        return S().visit(copy.deepcopy(v.body))
    if isinstance(v, ast.Attribute) and isinstance(v.value, ast.Name) and v.value.id == "operator" and not keywords:
        if v.attr in _OPS and _OPS[v.attr] is not None and len(args) == 2:
            return ast.Compare(left=copy.deepcopy(args[0]), ops=[_OPS[v.attr]()], comparators=[copy.deepcopy(args[1])])
        if v.attr in _BIN and len(args) == 2:
            return ast.BinOp(left=copy.deepcopy(args[0]), op=_BIN[v.attr](), right=copy.deepcopy(args[1]))
        if v.attr == "not_" and len(args) == 1:
            return ast.UnaryOp(op=ast.Not(), operand=copy.deepcopy(args[0]))
    return ast.Call(func=copy.deepcopy(v), args=[copy.deepcopy(a) for a in args], keywords=[copy.deepcopy(k) for k in keywords])


def _eq(k: ast.AST, key: ast.AST) -> ast.AST:
    return ast.Compare(left=copy.deepcopy(k), ops=[ast.Eq()], comparators=[copy.deepcopy(key)])


class _Expand(ast.NodeTransformer):
    def __init__(self, tables):
        self.t = tables
        self.count = 0

    # D[k] / D.get(k[, d]) as a callee
    def _lookup(self, f: ast.AST):
        if isinstance(f, ast.Subscript) and isinstance(f.value, ast.Name) and f.value.id in self.t:
            return f.value.id, f.slice, "raise"
        if isinstance(f, ast.Call) and isinstance(f.func, ast.Attribute) and f.func.attr == "get" and isinstance(f.func.value, ast.Name) \
                and f.func.value.id in self.t and 1 <= len(f.args) <= 2 and not f.keywords:
            return f.func.value.id, f.args[0], (f.args[1] if len(f.args) == 2 else None)
        return None

    def _chain(self, name: str, k: ast.AST, args, keywords, tail: Optional[ast.AST]) -> ast.AST:
        """tail: expression for `k not in D`, or None for D[k] semantics (the last entry becomes the else arm)"""
        ents = self.t[name]
        if tail is None:
            cur = _apply(ents[-1][1], args, keywords)
            rest = ents[:-1]
        else:
            cur = tail
            rest = ents
        for key, v in reversed(rest):
            cur = ast.IfExp(test=_eq(k, key), body=_apply(v, args, keywords), orelse=cur)
            cur._dispatch = (name, ast.dump(k))
        if isinstance(cur, ast.IfExp):
            cur._dispatch_last = ents[-1][0] if tail is None else None
        self.count += 1
        return cur

    def visit_Call(self, n: ast.Call):
        self.generic_visit(n)
        lk = self._lookup(n.func)
        if lk is None:
            return n
        name, k, d = lk
        if d == "raise":
            return ast.copy_location(self._chain(name, k, n.args, n.keywords, None), n)
        if d is None:
            # D.get(k)(x): only meaningful under a test that k is in D
            return ast.copy_location(self._chain(name, k, n.args, n.keywords, None), n)
        # a default that is itself an entry of the table: `D.get(k, D[K0])(x)`
        if isinstance(d, ast.Subscript) and isinstance(d.value, ast.Name) and d.value.id == name:
            hit = [v for key, v in self.t[name] if ast.dump(key) == ast.dump(d.slice)]
            if len(hit) == 1:
                d = hit[0]
        return ast.copy_location(self._chain(name, k, n.args, n.keywords, _apply(d, n.args, n.keywords)), n)

    def visit_Subscript(self, n: ast.Subscript):
        # a table of constants read as `T[k]` (not called): `V1 if k == K1 else V2 ...`
        self.generic_visit(n)
        if isinstance(n.value, ast.Name) and n.value.id in self.t and isinstance(n.ctx, ast.Load) \
                and all(isinstance(v, ast.Constant) for _, v in self.t[n.value.id]) and not getattr(n, "_is_callee", False):
            ents = self.t[n.value.id]
            cur = copy.deepcopy(ents[-1][1])
            for key, v in reversed(ents[:-1]):
                cur = ast.IfExp(test=_eq(n.slice, key), body=copy.deepcopy(v), orelse=cur)
                cur._dispatch = (n.value.id, ast.dump(n.slice))
            self.count += 1
            return ast.copy_location(cur, n)
        return n

    def visit_IfExp(self, n: ast.IfExp):
        # `D.get(k)(x) if D.get(k) is not None else e`  (also `if D.get(k)` / `k in D`)
        pres = self._presence(n.test)
        if pres is not None:
            name, k, positive = pres
            yes, no = (n.body, n.orelse) if positive else (n.orelse, n.body)
            if isinstance(yes, ast.Call):
                lk = self._lookup(yes.func)
                if lk and lk[0] == name and ast.dump(lk[1]) == ast.dump(k):
                    args = [self.visit(a) for a in yes.args]
                    return ast.copy_location(self._chain(name, k, args, yes.keywords, self.visit(no)), n)
        self.generic_visit(n)
        return n

    def _presence(self, t: ast.AST):
        """(table, key expr, polarity) for `D.get(k) is not None`, `D.get(k)`, `k in D` and their negations"""
        if isinstance(t, ast.UnaryOp) and isinstance(t.op, ast.Not):
            p = self._presence(t.operand)
            return (p[0], p[1], not p[2]) if p else None
        if isinstance(t, ast.Compare) and len(t.ops) == 1:
            op, l, r = t.ops[0], t.left, t.comparators[0]
            if isinstance(op, (ast.In, ast.NotIn)) and isinstance(r, ast.Name) and r.id in self.t:
                return r.id, l, isinstance(op, ast.In)
            if isinstance(op, (ast.Is, ast.IsNot)) and isinstance(r, ast.Constant) and r.value is None:
                lk = self._lookup_get(l)
                if lk:
                    return lk[0], lk[1], isinstance(op, ast.IsNot)
        lk = self._lookup_get(t)
        if lk:
            return lk[0], lk[1], True
        return None

    def _lookup_get(self, e: ast.AST):
        if isinstance(e, ast.Call) and isinstance(e.func, ast.Attribute) and e.func.attr == "get" and isinstance(e.func.value, ast.Name) \
                and e.func.value.id in self.t and len(e.args) == 1 and not e.keywords:
            return e.func.value.id, e.args[0]
        return None

    def visit_Compare(self, n: ast.Compare):
        self.generic_visit(n)
        p = self._presence(n)
        if p is not None and not isinstance(n.ops[0], (ast.In, ast.NotIn)):
            name, k, pos = p
        elif p is not None:
            name, k, pos = p
        else:
            return n
        keys = ast.Tuple(elts=[copy.deepcopy(key) for key, _ in self.t[name]], ctx=ast.Load())
        new = ast.Compare(left=copy.deepcopy(k), ops=[ast.In() if pos else ast.NotIn()], comparators=[keys])
        new._dispatch_in = (name, ast.dump(k))
        return ast.copy_location(new, n)


def _chain_to_stmts(e: ast.AST, mk) -> Optional[ast.stmt]:
    """IfExp chain produced by _Expand -> If statement chain; mk(expr) builds the leaf statement"""
    if not (isinstance(e, ast.IfExp) and hasattr(e, "_dispatch")):
        return None
    node = ast.If(test=e.test, body=[mk(e.body)], orelse=[])
    node._dispatch = e._dispatch
    if isinstance(e.orelse, ast.IfExp) and hasattr(e.orelse, "_dispatch"):
        node.orelse = [_chain_to_stmts(e.orelse, mk)]
    else:
        node.orelse = [mk(e.orelse)]
    return node


def _inline_lookups(fn: ast.AST, tables) -> None:
    """`c = D.get(k)` / `c = D[k]` with a single store: substitute into the reads of c"""
    stores: Dict[str, int] = {}
    for x in ast.walk(fn):
        if isinstance(x, ast.Name) and isinstance(x.ctx, ast.Store):
            stores[x.id] = stores.get(x.id, 0) + 1
    for parent in ast.walk(fn):
        for fld in ("body", "orelse", "finalbody"):
            b = getattr(parent, fld, None)
            if not (isinstance(b, list) and b and isinstance(b[0], ast.stmt)):
                continue
            for st in list(b):
                v = st.value if isinstance(st, (ast.Assign, ast.AnnAssign)) else None
                t = (st.targets[0] if isinstance(st, ast.Assign) and len(st.targets) == 1 else st.target if isinstance(st, ast.AnnAssign) else None)
                if v is None or not isinstance(t, ast.Name) or stores.get(t.id) != 1:
                    continue
                is_lk = (isinstance(v, ast.Subscript) and isinstance(v.value, ast.Name) and v.value.id in tables) or \
                        (isinstance(v, ast.Call) and isinstance(v.func, ast.Attribute) and v.func.attr == "get"
                         and isinstance(v.func.value, ast.Name) and v.func.value.id in tables)
                if not is_lk:
                    continue
                nm = t.id
                total = sum(1 for x in ast.walk(fn) if isinstance(x, ast.Name) and x.id == nm and isinstance(x.ctx, ast.Load))
                here = sum(1 for o in b if o is not st for x in ast.walk(o) if isinstance(x, ast.Name) and x.id == nm and isinstance(x.ctx, ast.Load))
                if total != here:
                    continue

                class S(ast.NodeTransformer):
                    def visit_Name(self, n):
                        return ast.copy_location(copy.deepcopy(v), n) if n.id == nm and isinstance(n.ctx, ast.Load) else n
                for other in b:
                    if other is not st:
                        S().visit(other)
                b.remove(st)
                if not b:
                    b.append(ast.copy_location(ast.Pass(), st))


def expand(tree: ast.Module, modname: str) -> int:
    from .relocate import shapes
    ref = shapes().get(modname)
    if not ref or "<globals>" not in ref:
        return 0
    tables = _tables(tree, set(ref["<globals>"]["bag"]))
    if not tables:
        return 0
    for fn in ast.walk(tree):
        if isinstance(fn, (ast.FunctionDef, ast.AsyncFunctionDef)):
            _inline_lookups(fn, tables)
    ex = _Expand(tables)
    ex.visit(tree)
    if not ex.count:
        return 0
    # statement forms
    for parent in ast.walk(tree):
        for fld in ("body", "orelse", "finalbody"):
            b = getattr(parent, fld, None)
            if not (isinstance(b, list) and b and isinstance(b[0], ast.stmt)):
                continue
            for i, st in enumerate(b):
                new = None
                if isinstance(st, ast.Assign):
                    new = _chain_to_stmts(st.value, lambda e, st=st: ast.copy_location(ast.Assign(targets=copy.deepcopy(st.targets), value=e, type_comment=None), st))
                elif isinstance(st, ast.AnnAssign) and st.value is not None:
                    new = _chain_to_stmts(st.value, lambda e, st=st: ast.copy_location(ast.Assign(targets=[copy.deepcopy(st.target)], value=e, type_comment=None), st))
                elif isinstance(st, ast.Return) and st.value is not None:
                    new = _chain_to_stmts(st.value, lambda e, st=st: ast.copy_location(ast.Return(value=e), st))
                if new is not None:
                    b[i] = ast.copy_location(new, st)
    # `elif k in D: <chain over D>` is the chain itself
    changed = True
    while changed:
        changed = False
        for node in ast.walk(tree):
            if not isinstance(node, ast.If):
                continue
            t = node.test
            if hasattr(t, "_dispatch_in") and isinstance(t.ops[0], ast.In) and len(node.body) == 1 and isinstance(node.body[0], ast.If) \
                    and getattr(node.body[0], "_dispatch", None) == t._dispatch_in:
                inner = node.body[0]
                # last arm of the inner chain is an unconditional else: give it its test back
                cur = inner
                keys = t.comparators[0].elts
                while cur.orelse and len(cur.orelse) == 1 and isinstance(cur.orelse[0], ast.If) and getattr(cur.orelse[0], "_dispatch", None) == t._dispatch_in:
                    cur = cur.orelse[0]
                last = ast.If(test=ast.Compare(left=copy.deepcopy(t.left), ops=[ast.Eq()], comparators=[copy.deepcopy(keys[-1])]),
                              body=cur.orelse, orelse=node.orelse)
                ast.copy_location(last, node)
                cur.orelse = [last]
                node.test, node.body, node.orelse = inner.test, inner.body, inner.orelse
                changed = True
                break
    ast.fix_missing_locations(tree)
    return ex.count


# --------------------------------------------------------------------------- new record types
def untuple_records(tree: ast.Module, modname: str) -> int:
    """`Replace tuple with NamedTuple`: a NamedTuple class the reference tree does not know is read back as the plain tuple
    it replaced - `Rec(a, b, c)` / `Rec(x=a, y=b, z=c)` becomes `(a, b, c)` and `r.x` becomes `r[0]`. Only when the field
    names are used for nothing else in the module (no other class declares them, nothing stores to them)."""
    from .relocate import shapes
    ref = shapes().get(modname)
    if not ref or "<globals>" not in ref:
        return 0
    known = set(ref["<globals>"]["bag"])
    count = 0
    for cls in [n for n in tree.body if isinstance(n, ast.ClassDef)]:
        if cls.name in known:
            continue
        if not any((isinstance(b, ast.Name) and b.id == "NamedTuple") or (isinstance(b, ast.Attribute) and b.attr == "NamedTuple") for b in cls.bases):
            continue
        fields = [st.target.id for st in cls.body if isinstance(st, ast.AnnAssign) and isinstance(st.target, ast.Name)]
        if not fields or any(isinstance(st, ast.AnnAssign) and st.value is not None for st in cls.body) \
                or any(isinstance(st, (ast.FunctionDef, ast.AsyncFunctionDef)) for st in cls.body):
            continue
        # `self.<field>` of another class is that class's own attribute (the record's instances are never called `self`:
        # the class has no methods); anything else that stores to a field name, or another record with the same field, clashes
        clash = False
        for n in ast.walk(tree):
            if isinstance(n, ast.Attribute) and n.attr in fields and isinstance(n.ctx, (ast.Store, ast.Del)) \
                    and not (isinstance(n.value, ast.Name) and n.value.id == "self"):
                clash = True
            if isinstance(n, ast.ClassDef) and n is not cls:
                for x in n.body:
                    if isinstance(x, ast.AnnAssign) and isinstance(x.target, ast.Name) and x.target.id in fields \
                            and any((isinstance(b, ast.Name) and b.id == "NamedTuple") for b in n.bases):
                        clash = True
        if clash:
            continue
        ok = True
        for n in ast.walk(tree):
            if isinstance(n, ast.Call) and isinstance(n.func, ast.Name) and n.func.id == cls.name:
                got = len(n.args) + len(n.keywords)
                if got != len(fields) or any(k.arg not in fields for k in n.keywords) or any(isinstance(a, ast.Starred) for a in n.args):
                    ok = False
        if not ok:
            continue
        name, flds = cls.name, fields

        class T(ast.NodeTransformer):
            def visit_Call(self, n):
                self.generic_visit(n)
                if isinstance(n.func, ast.Name) and n.func.id == name:
                    vals = dict(zip(flds, n.args))
                    vals.update({k.arg: k.value for k in n.keywords})
                    return ast.copy_location(ast.Tuple(elts=[vals[f] for f in flds], ctx=ast.Load()), n)
                return n

            def visit_Attribute(self, n):
                self.generic_visit(n)
                if n.attr in flds and isinstance(n.ctx, ast.Load) and not (isinstance(n.value, ast.Name) and n.value.id == "self"):
                    return ast.copy_location(ast.Subscript(value=n.value, slice=ast.Constant(value=flds.index(n.attr)), ctx=ast.Load()), n)
                return n
        T().visit(tree)
        count += 1
    if count:
        ast.fix_missing_locations(tree)
    return count


# --------------------------------------------------------------------------- new module-level constants
_CONST_NODES = (ast.Constant, ast.Name, ast.Attribute, ast.BinOp, ast.UnaryOp, ast.Tuple, ast.List, ast.Set, ast.Dict, ast.JoinedStr,
                ast.FormattedValue, ast.Load, ast.operator, ast.unaryop, ast.Subscript)


def _is_const_expr(e: ast.AST) -> bool:
    for x in ast.walk(e):
        if isinstance(x, _CONST_NODES):
            continue
        if isinstance(x, ast.Call) and isinstance(x.func, ast.Attribute) and isinstance(x.func.value, ast.Name) and x.func.value.id == "re" \
                and x.func.attr == "compile" and not x.keywords:
            continue
        if isinstance(x, ast.Call) and isinstance(x.func, ast.Name) and x.func.id in ("frozenset", "tuple", "set") and len(x.args) <= 1 and not x.keywords:
            continue
        return False
    return True


def inline_new_constants(tree: ast.Module, modname: str) -> int:
    """`Extract constant`: a module-level name the reference tree does not know, bound once to a constant expression (numbers,
    strings, flag combinations such as `os.O_WRONLY | os.O_CREAT`, tuples of type constants, `re.compile(<pattern>)`), is
    substituted back into the functions that read it."""
    from .relocate import shapes
    ref = shapes().get(modname)
    if not ref or "<globals>" not in ref:
        return 0
    known = set(ref["<globals>"]["bag"])
    stores: Dict[str, int] = {}
    vals: Dict[str, ast.AST] = {}
    for st in tree.body:
        if isinstance(st, ast.Assign):
            for t in st.targets:
                for x in ast.walk(t):
                    if isinstance(x, ast.Name):
                        stores[x.id] = stores.get(x.id, 0) + 1
            if len(st.targets) == 1 and isinstance(st.targets[0], ast.Name):
                vals[st.targets[0].id] = st.value
        elif isinstance(st, (ast.AnnAssign, ast.AugAssign)) and isinstance(st.target, ast.Name):
            stores[st.target.id] = stores.get(st.target.id, 0) + (2 if isinstance(st, ast.AugAssign) else 1)
            if isinstance(st, ast.AnnAssign) and st.value is not None:
                vals[st.target.id] = st.value
    for n in ast.walk(tree):
        if isinstance(n, ast.Global):
            for nm in n.names:
                stores[nm] = stores.get(nm, 0) + 2
    consts = {k: v for k, v in vals.items() if k not in known and stores.get(k) == 1 and _is_const_expr(v)}
    # constants may refer to each other
    for _ in range(3):
        for k, v in list(consts.items()):
            m = {x.id for x in ast.walk(v) if isinstance(x, ast.Name)} & set(consts)
            if m:
                class S(ast.NodeTransformer):
                    def visit_Name(self, n):
                        return copy.deepcopy(consts[n.id]) if n.id in consts and n.id != k and isinstance(n.ctx, ast.Load) else n
                consts[k] = S().visit(copy.deepcopy(v))
    if not consts:
        return 0
    count = 0
    for fn in [n for n in ast.walk(tree) if isinstance(n, (ast.FunctionDef, ast.AsyncFunctionDef))]:
        local = {x.id for x in ast.walk(fn) if isinstance(x, ast.Name) and isinstance(x.ctx, (ast.Store, ast.Del))} | \
                {a.arg for x in ast.walk(fn) if isinstance(x, ast.arguments) for a in x.posonlyargs + x.args + x.kwonlyargs + ([x.vararg] if x.vararg else []) + ([x.kwarg] if x.kwarg else [])}
        use = {x.id for x in ast.walk(fn) if isinstance(x, ast.Name) and isinstance(x.ctx, ast.Load) and x.id in consts} - local
        if not use:
            continue

        class R(ast.NodeTransformer):
            def visit_Name(self, n):
                if n.id in use and isinstance(n.ctx, ast.Load):
                    return ast.copy_location(copy.deepcopy(consts[n.id]), n)
                return n
        for i, st in enumerate(fn.body):
            fn.body[i] = R().visit(st)
        count += len(use)
    if count:
        ast.fix_missing_locations(tree)
    return count


# --------------------------------------------------------------------------- any()/all() over a generator, new in a function
def anyall_to_loops(tree: ast.Module, modname: str) -> int:
    """`return any(e for t in it if c)` is `for t in it: if c: if e: return True` + `return False` (and dually for all()).
    Converted only in functions whose reference version did not call any()/all() - the product of a `loop -> any()`
    refactoring; the explicit loop is what the inliner and the path rules can follow."""
    from .inline import all_function_quals
    from .relocate import shapes
    ref = shapes().get(modname)
    if not ref:
        return 0
    count = 0
    for q, (fn, cls, outer) in all_function_quals(tree).items():
        r = ref.get(q)
        if r is None:
            continue
        for name in ("any", "all"):
            if f"{name}()" in r["bag"]:
                continue
            for parent in ast.walk(fn):
                for fld in ("body", "orelse", "finalbody"):
                    b = getattr(parent, fld, None)
                    if not (isinstance(b, list) and b and isinstance(b[0], ast.stmt)):
                        continue
                    for i, st in enumerate(b):
                        # `if any(e for t in it if c): BODY` (no else) == `for t in it: if c: if e: BODY; break`
                        if name == "any" and isinstance(st, ast.If) and not st.orelse:
                            tt = st.test
                            if isinstance(tt, ast.Call) and isinstance(tt.func, ast.Name) and tt.func.id == "any" and len(tt.args) == 1 and not tt.keywords \
                                    and isinstance(tt.args[0], ast.GeneratorExp) and len(tt.args[0].generators) == 1 \
                                    and not any(isinstance(x, (ast.Break, ast.Continue)) for s2 in st.body for x in ast.walk(s2)):
                                g = tt.args[0]
                                c = g.generators[0]
                                inner2: List[ast.stmt] = [ast.If(test=g.elt, body=list(st.body) + [ast.Break()], orelse=[])]
                                for cond in reversed(c.ifs):
                                    inner2 = [ast.If(test=cond, body=inner2, orelse=[])]
                                tgt2 = copy.deepcopy(c.target)
                                for t in ast.walk(tgt2):
                                    if isinstance(t, (ast.Name, ast.Tuple, ast.List)):
                                        t.ctx = ast.Store()
                                b[i] = ast.copy_location(ast.For(target=tgt2, iter=c.iter, body=inner2, orelse=[], type_comment=None), st)
                                count += 1
                                continue
                        v = st.value if isinstance(st, ast.Return) else None
                        if not (isinstance(v, ast.Call) and isinstance(v.func, ast.Name) and v.func.id == name and len(v.args) == 1 and not v.keywords
                                and isinstance(v.args[0], ast.GeneratorExp) and len(v.args[0].generators) == 1 and not v.args[0].generators[0].is_async):
                            continue
                        g = v.args[0]
                        c = g.generators[0]
                        hit = ast.Constant(value=(name == "any"))
                        test = g.elt if name == "any" else ast.UnaryOp(op=ast.Not(), operand=g.elt)
                        inner: List[ast.stmt] = [ast.If(test=test, body=[ast.Return(value=hit)], orelse=[])]
                        for cond in reversed(c.ifs):
                            inner = [ast.If(test=cond, body=inner, orelse=[])]
                        tgt = copy.deepcopy(c.target)
                        for t in ast.walk(tgt):
                            if isinstance(t, (ast.Name, ast.Tuple, ast.List)):
                                t.ctx = ast.Store()
                        loop = ast.For(target=tgt, iter=c.iter, body=inner, orelse=[], type_comment=None)
                        new = [ast.copy_location(loop, st), ast.copy_location(ast.Return(value=ast.Constant(value=(name != "any"))), st)]
                        b[i:i + 1] = new
                        count += 1
                        break
    if count:
        ast.fix_missing_locations(tree)
    return count



# --------------------------------------------------------------------------- str.format() new in a function
def format_to_fstrings(tree: ast.Module, modname: str) -> int:
    """`"..{}..{}..".format(a, b)` with plain positional fields is the f-string `f"..{a}..{b}.."`. Converted only in functions
    whose reference version did not call `.format` - the product of an `f-string -> str.format()` refactoring; the rules read
    line shapes and log interpolations from f-strings."""
    import re as _re
    from .inline import all_function_quals
    from .relocate import shapes
    ref = shapes().get(modname)
    if not ref:
        return 0
    count = 0

    class T(ast.NodeTransformer):
        def visit_Call(self, n):
            nonlocal count
            self.generic_visit(n)
            f = n.func
            if not (isinstance(f, ast.Attribute) and f.attr == "format" and isinstance(f.value, ast.Constant) and isinstance(f.value.value, str) and not n.keywords
                    and not any(isinstance(a, ast.Starred) for a in n.args)):
                return n
            text = f.value.value
            parts = _re.split(r"(\{\{|\}\}|\{\d*\})", text)
            vals: List[ast.AST] = []
            auto = 0
            for p in parts:
                if p in ("{{", "}}"):
                    lit = p[0]
                elif _re.fullmatch(r"\{\d*\}", p or ""):
                    idx = int(p[1:-1]) if len(p) > 2 else auto
                    auto += 1
                    if idx >= len(n.args):
                        return n
                    vals.append(ast.FormattedValue(value=n.args[idx], conversion=-1, format_spec=None))
                    continue
                else:
                    lit = p
                    if "{" in lit or "}" in lit:
                        return n  # named fields, format specs: left alone
                if lit:
                    if vals and isinstance(vals[-1], ast.Constant):
                        vals[-1] = ast.Constant(value=vals[-1].value + lit)
                    else:
                        vals.append(ast.Constant(value=lit))
            count += 1
            return ast.copy_location(ast.JoinedStr(values=vals), n)

    for q, (fn, cls, outer) in all_function_quals(tree).items():
        r = ref.get(q)
        if r is None or ".format" in r["bag"] or outer is not None:
            continue
        for i, st in enumerate(fn.body):
            fn.body[i] = T().visit(st)
    if count:
        ast.fix_missing_locations(tree)
    return count
