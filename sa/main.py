from __future__ import annotations

import argparse
import importlib
import json
import os
import sys
import time
import traceback

from .flow import AnalysisError
from .repo import AnchorError, Repo
from .report import Ctx, conclude


def run_property(prop: str, root: str, tier: str, only=None, write_evidence=True, known_path=None, quiet=False,
                 with_selftest=True) -> int:
    t0 = time.time()
    errors = []
    mod = importlib.import_module(f"sa.rules.{prop.lower()}")
    try:
        repo = Repo(root)
    except AnchorError as e:
        print(f"ANALYSIS-ERROR property={prop} {e}")
        return 2
    ctx = Ctx(repo, prop, tier, only)
    for rid, fn, floor in mod.rules():
        if only and only.get("rule") != rid:
            continue
        ctx._rule = rid
        n0 = len(ctx.instances)
        try:
            fn(ctx)
        except (AnchorError, AnalysisError) as e:
            errors.append(f"rule={rid} {type(e).__name__}: {e}")
        except Exception as e:  # noqa: BLE001 - a crash of the analysis is never a verdict
            traceback.print_exc(file=sys.stderr)
            errors.append(f"rule={rid} internal {type(e).__name__}: {e}")
        n = len(ctx.instances) - n0
        ctx.rules_run.append({"rule": rid, "doc": (fn.__doc__ or "").strip().split("\n\n")[0].replace("\n", " "),
                              "instances": n, "floor": floor})
        found = any(f.rule == rid for f in ctx.findings)
        if not only and n < floor and not found and not any(x.startswith(f"rule={rid} ") for x in errors):
            errors.append(f"rule={rid} vacuity: {n} instances derived, at least {floor} confirmed by hand")
    if only:
        ctx.instances = [i for i in ctx.instances if i.construct == only.get("construct")] or ctx.instances
        ctx.findings = [f for f in ctx.findings if f.construct == only.get("construct")]
    selftest = None
    if tier == "thorough" and with_selftest and not only:
        try:
            from . import selftest as st
            selftest = st.run_for(prop)
            for line in selftest.get("lines", []):
                print(line)
        except Exception as e:  # noqa: BLE001
            traceback.print_exc(file=sys.stderr)
            selftest = {"error": f"{type(e).__name__}: {e}"}
    return conclude(ctx, t0, errors, selftest, getattr(mod, "LEVEL_TEXT", ""), write_evidence, known_path)


def main(argv) -> int:
    ap = argparse.ArgumentParser(prog="check")
    ap.add_argument("property")
    ap.add_argument("--tier", default=os.environ.get("VERIF_TIER", "quick"), choices=["quick", "thorough"])
    ap.add_argument("--repo", default=os.environ.get("VERIF_REPO", "/repo"))
    ap.add_argument("--replay")
    ap.add_argument("--no-evidence", action="store_true")
    ap.add_argument("--known")
    ap.add_argument("--no-selftest", action="store_true")
    a = ap.parse_args(argv)
    only = None
    if a.replay:
        with open(a.replay) as f:
            r = json.load(f)
        only = {"rule": r["rule"], "construct": r["construct"]}
    try:
        return run_property(a.property.upper(), a.repo, a.tier, only, not a.no_evidence and not a.replay, a.known,
                            with_selftest=not a.no_selftest)
    except Exception as e:  # noqa: BLE001
        traceback.print_exc(file=sys.stderr)
        print(f"ANALYSIS-ERROR property={a.property.upper()} internal {type(e).__name__}: {e}")
        return 2
