"""C12 - dependency sync flags every changed option, even across interrupted runs (necessary structural
conditions: effect order and the touch decision table)."""
from __future__ import annotations

import ast
import itertools
from typing import Dict, List, Optional, Set, Tuple

from ..flow import AnalysisError, Flow, Resolver
from ..pathenum import BRK, CONT, NORM, Enumerator, Path
from ..repo import AnchorError
from . import c13

PROPERTY = "C12"
CORE = "esp_kconfiglib.core"
LEVEL_TEXT = (
    "Static analysis of Kconfig.sync_deps: (effect order) the old values are loaded before any comparison, every "
    "dependency-file touch precedes the write of auto.conf, which is the last effect on every path and goes through the "
    "compare-then-write helper - the source's `rerun is safe` argument as a checked ordering; (decision table) path "
    "enumeration of the loop body over the atoms written/old-missing/bool-n/equal compared with `touch iff recorded-new "
    "differs from recorded-old`, where what is recorded is read from _old_vals_contents; aliases share the trigger; the "
    "old-value reader matches the writer. Not decided: behaviour under a torn auto.conf beyond the ordering, mtime "
    "semantics."
)


def _calls_in(node: ast.AST, name: str) -> List[ast.Call]:
    return [n for n in ast.walk(node) if isinstance(n, ast.Call) and ast.unparse(n.func).split(".")[-1] == name]


def r12_1(ctx):
    """R12.1 effect order in sync_deps: _load_old_vals precedes the comparison loop; no dependency file is touched after
    auto.conf has been (re)written; every normal exit has passed _write_old_vals; _write_old_vals goes through
    _write_if_changed."""
    repo = ctx.repo
    f = repo.func(f"{CORE}:Kconfig.sync_deps")
    ctx.analysed(f.qual)

    def names_in(node):
        if isinstance(node, (ast.If, ast.For, ast.While, ast.Try, ast.With)):
            return []
        out = []
        for n in ast.walk(node):
            if isinstance(n, ast.Call):
                t = ast.unparse(n.func).split(".")[-1]
                if t in ("_load_old_vals", "_write_old_vals", "_touch_dep_file", "_write_if_changed"):
                    out.append(t)
        return out

    must = Flow(f.node, events=names_in, track_guards=False).run()
    may = Flow(f.node, must=False, events=names_in, track_guards=False).run()
    loops = [n for n in f.node.body if isinstance(n, ast.For) and "unique_defined_syms" in ast.unparse(n.iter)]
    if not loops:
        raise AnchorError("sync_deps: comparison loop over unique_defined_syms not found")
    construct = "Kconfig.sync_deps/old values loaded before the comparison loop"
    evs = must.events_at(loops[0].iter) or set()
    (ctx.ok(construct, f.loc(loops[0])) if "_load_old_vals" in evs else
     ctx.bad(construct, "the comparison loop can run before _load_old_vals: every option looks new or unchanged arbitrarily", f.loc(loops[0])))
    touches = [c for c in _calls_in(f.node, "_touch_dep_file") if repo.enclosing_func(c) is f]
    writes = [c for c in _calls_in(f.node, "_write_old_vals") + _calls_in(f.node, "_write_if_changed") if repo.enclosing_func(c) is f]
    if not touches or not writes:
        raise AnchorError("sync_deps: touch / write calls not found")
    construct = "Kconfig.sync_deps/no dependency file is touched after auto.conf was written"
    late = []
    for t in touches:
        st = may.events_at(repo.enclosing_stmt(t)) or set()
        if "_write_old_vals" in st or "_write_if_changed" in st:
            late.append(t)
    if late:
        ctx.bad(construct, "a touch can follow the write of auto.conf: if the run dies in between, the rerun sees up-to-date old values "
                "and the pending triggers are lost", f.loc(late[0]))
    else:
        ctx.ok(construct, f.loc(writes[0]), touches=len(touches))
    construct = "Kconfig.sync_deps/every normal exit has written auto.conf"
    missing = [(k, n) for k, n, st in must.exits if k != "raise" and not (("ev", "_write_old_vals") in st or ("ev", "_write_if_changed") in st)]
    if missing:
        k, n = missing[0]
        ctx.bad(construct, f"a {k} at line {getattr(n, 'lineno', '?')} leaves sync_deps without recording the new values", f.loc(n if isinstance(n, ast.stmt) else f.node))
    else:
        ctx.ok(construct, f.loc(writes[0]), exits=len(must.exits))
    construct = "Kconfig.sync_deps/the write of auto.conf is the last effect"
    from .c09 import _trivial
    sig = [x for x in f.node.body if not _trivial(x)]
    last = sig[-1]
    ok = isinstance(last, ast.Expr) and any(c in writes for c in ast.walk(last))
    (ctx.ok(construct, f.loc(last)) if ok else ctx.bad(construct, "statements follow the write of auto.conf", f.loc(last)))
    w = repo.func(f"{CORE}:Kconfig._write_old_vals")
    construct = "Kconfig._write_old_vals/auto.conf = _old_vals_contents() through _write_if_changed"
    cs = _calls_in(w.node, "_write_if_changed")
    ok = bool(cs) and "auto.conf" in ast.unparse(cs[0].args[0]) and ast.unparse(cs[0].args[1]) == "self._old_vals_contents()"
    (ctx.ok(construct, w.loc()) if ok else ctx.bad(construct, "auto.conf is no longer written as _old_vals_contents() via _write_if_changed", w.loc()))
    # _load_old_vals touches for unknown names happen before any write too (it is called first) and resets _old_val
    lo = repo.func(f"{CORE}:Kconfig._load_old_vals")
    ctx.analysed(lo.qual, w.qual)
    construct = "Kconfig._load_old_vals/resets every _old_val before reading"
    first = [n for n in lo.node.body if not (isinstance(n, ast.Expr) and isinstance(n.value, ast.Constant))][0]
    ok = isinstance(first, ast.For) and "unique_defined_syms" in ast.unparse(first.iter) and \
        any(isinstance(s, ast.Assign) and ast.unparse(s.targets[0]).endswith("._old_val") and ast.unparse(s.value) == "None" for s in first.body)
    (ctx.ok(construct, lo.loc(first)) if ok else ctx.bad(construct, "stale _old_val of a previous sync survives", lo.loc()))


ATOMS = ("W", "O", "Bn", "E")


def _atoms_of(test: ast.AST, sym: str, val: str) -> Optional[List[Tuple[str, bool]]]:
    """Map a test of the loop body to a conjunction of atoms (positive form)."""
    t = ast.unparse(test)
    if t == f"{sym}._write_to_conf":
        return [("W", True)]
    if t == f"{sym}._old_val is None":
        return [("O", True)]
    if t in (f"{val} == {sym}._old_val", f"{sym}._old_val == {val}"):
        return [("E", True)]
    if t == f"{sym}._old_val is not None":
        return [("O", False)]
    if t == f"not {sym}._write_to_conf":
        return [("W", False)]
    if t in (f"{val} != {sym}._old_val", f"{sym}._old_val != {val}"):
        return [("E", False)]
    if isinstance(test, ast.BoolOp) and isinstance(test.op, ast.And):
        out: List[Tuple[str, bool]] = []
        rest = []
        for v in test.values:
            a = _atoms_of(v, sym, val)
            if a is not None:
                out += a
            else:
                rest.append(ast.unparse(v))
        if sorted(rest) == sorted([f"{sym}.orig_type is BOOL", f"{val} == 'n'"]) or \
                sorted(rest) == sorted([f"{sym}.orig_type == BOOL", f"{val} == 'n'"]):
            out.append(("Bn", True))
            return out
        if not rest:
            return out
    return None


def r12_2(ctx):
    """R12.2 the touch decision table: for every consistent valuation of (W: would be written, O: no old value, Bn: bool with
    value n, E: value equals old value) the loop body touches iff what _old_vals_contents records now differs from what
    was recorded before."""
    repo = ctx.repo
    f = repo.func(f"{CORE}:Kconfig.sync_deps")
    ov = repo.func(f"{CORE}:Kconfig._old_vals_contents")
    ctx.analysed(f.qual, ov.qual)
    # what is recorded: config_string of symbols unless (BOOL and not bool_value)
    src = ast.unparse(ov.node)
    comp = [n for n in ast.walk(ov.node) if isinstance(n, ast.ListComp)]
    construct = "Kconfig._old_vals_contents/records config_string unless the symbol is a bool with value n"
    ok = False
    if comp:
        c = comp[0]
        sv = ast.unparse(c.generators[0].target)
        ifs = [ast.unparse(i) for i in c.generators[0].ifs]
        ok = ast.unparse(c.elt) == f"{sv}.config_string" and "unique_defined_syms" in ast.unparse(c.generators[0].iter) and \
            ifs in ([f"not ({sv}.orig_type is BOOL and (not {sv}.bool_value))"], [f"not ({sv}.orig_type == BOOL and (not {sv}.bool_value))"])
    if not ok:
        ctx.bad(construct, "the recorded set changed; the decision table below is specified against `written and not (bool n)`", ov.loc())
        return
    ctx.ok(construct, ov.loc())
    loop = [n for n in f.node.body if isinstance(n, ast.For) and "unique_defined_syms" in ast.unparse(n.iter)][0]
    sym = ast.unparse(loop.target)
    vals = [s for s in loop.body if isinstance(s, ast.Assign) and ast.unparse(s.value) == f"{sym}.str_value"]
    if not vals:
        raise AnchorError("sync_deps loop: `val = sym.str_value` not found")
    val = ast.unparse(vals[0].targets[0])

    def on_stmt(st, p: Path, loops):
        if any(isinstance(n, ast.Call) and ast.unparse(n.func) == "_touch_dep_file" and ast.unparse(n.args[1]) == f"{sym}.name" for n in ast.walk(st)):
            p.events.append(("TOUCH", st.lineno, None))

    # locals of the loop body that only ever hold boolean constants (decision flags)
    asg_vals: Dict[str, List[ast.AST]] = {}
    for n in ast.walk(loop):
        if isinstance(n, ast.Assign) and len(n.targets) == 1 and isinstance(n.targets[0], ast.Name):
            asg_vals.setdefault(n.targets[0].id, []).append(n.value)
    flags = {k for k, vs in asg_vals.items() if all(isinstance(v, ast.Constant) and isinstance(v.value, bool) for v in vs)}
    # only the statements of the body; alias loop taken 0/1 times does not matter for the decision
    paths = Enumerator(on_stmt).run(loop.body, Path())
    # every test on a path is a boolean formula over five leaves: W (would be written), O (no old value), B (bool type),
    # N (value is "n"), E (value equals the old value) - evaluated, not pattern-matched, so and/or/not may be nested at will
    leaf = {f"{sym}._write_to_conf": ("W", True), f"{sym}._old_val is None": ("O", True), f"{sym}._old_val is not None": ("O", False),
            f"{val} == {sym}._old_val": ("E", True), f"{sym}._old_val == {val}": ("E", True),
            f"{val} != {sym}._old_val": ("E", False), f"{sym}._old_val != {val}": ("E", False),
            f"{sym}.orig_type is BOOL": ("B", True), f"{sym}.orig_type == BOOL": ("B", True),
            f"{sym}.orig_type is not BOOL": ("B", False), f"{sym}.orig_type != BOOL": ("B", False),
            f"{val} == 'n'": ("N", True), f"{val} != 'n'": ("N", False)}

    def ev(node, v):
        if isinstance(node, ast.BoolOp):
            vals_ = [ev(x, v) for x in node.values]
            return all(vals_) if isinstance(node.op, ast.And) else any(vals_)
        if isinstance(node, ast.UnaryOp) and isinstance(node.op, ast.Not):
            return not ev(node.operand, v)
        t = ast.unparse(node).replace('"', "'")
        if t not in leaf:
            raise AnalysisError(f"sync_deps loop: test `{t}` is not expressible over W/O/B/N/E")
        a_, pos = leaf[t]
        return v[a_] if pos else not v[a_]

    table: List[Tuple[List[Tuple[ast.AST, bool]], str]] = []
    for p, status in paths:
        conds = []
        for c, pol, ln, node in p.conds:
            if "_deprecated_options" in c:
                continue
            base = node.operand if isinstance(node, ast.UnaryOp) and isinstance(node.op, ast.Not) else node
            if isinstance(base, ast.Name) and base.id in flags:
                continue  # a boolean flag set from the tests above: the enumerator has already pruned the infeasible arm
            conds.append((node, pol))
        outcome = "touch" if any(e[0] == "TOUCH" for e in p.events) else "skip"
        table.append((conds, outcome))
    bad = []
    n_val = 0
    for W, O, B, N, E in itertools.product((True, False), repeat=5):
        if O and E:
            continue  # a str value never equals a missing old value
        if B and N and E:
            continue  # "n" is never recorded for a bool
        n_val += 1
        v = {"W": W, "O": O, "B": B, "N": N, "E": E, "Bn": B and N}
        match = [outcome for conds, outcome in table if all(ev(node, v) == pol for node, pol in conds)]
        if len(set(match)) != 1:
            raise AnalysisError(f"decision table: valuation {v} matches outcomes {match}")
        new_recorded = W and not (B and N)
        spec = "touch" if ((new_recorded and not E) or (not new_recorded and not O)) else "skip"
        if match[0] != spec:
            bad.append((v, match[0], spec))
    construct = "Kconfig.sync_deps/touch iff recorded-new differs from recorded-old"
    if bad:
        v, got, spec = bad[0]
        ctx.bad(construct, f"for W={v['W']} (written) O={v['O']} (no old value) Bn={v['Bn']} (bool n) E={v['E']} (equal) the loop body does "
                f"`{got}` but the recorded values {'differ' if spec == 'touch' else 'are the same'} ({len(bad)} of {n_val} valuations wrong)", f.loc(loop))
    else:
        ctx.ok(construct, f.loc(loop), valuations=n_val, paths=len(paths))


def r12_3(ctx):
    """R12.3 aliases share the trigger: wherever the dependency file of an option is touched - for a changed option in
    sync_deps(), for a vanished one in _load_old_vals() (the header loses `#define CONFIG_OLD CONFIG_NEW` together with
    CONFIG_NEW: fixed defect 5.60) - the touch is followed, under no further condition than the presence of rename tables,
    by a touch for every deprecated alias of that option."""
    repo = ctx.repo
    sd = repo.func(f"{CORE}:Kconfig.sync_deps")
    lo = repo.func(f"{CORE}:Kconfig._load_old_vals")
    ctx.analysed(sd.qual, lo.qual)
    loop = [n for n in sd.node.body if isinstance(n, ast.For) and "unique_defined_syms" in ast.unparse(n.iter)][0]
    sym = ast.unparse(loop.target)
    lo_touch = [c for c in _calls_in(lo.node, "_touch_dep_file") if len(c.args) > 1 and isinstance(c.args[1], ast.Name)
                and not any(isinstance(p_, ast.For) and "get_deprecated_option" in ast.unparse(p_.iter) for p_ in _anc(repo, c))]
    if not lo_touch:
        raise AnchorError("_load_old_vals: the touch of a vanished name was not found")
    for f, scope, name_expr, label in ((sd, loop, f"{sym}.name", "Kconfig.sync_deps/every alias of a touched option is touched too"),
                                       (lo, lo.node, ast.unparse(lo_touch[0].args[1]), "Kconfig._load_old_vals/every alias of a vanished option is touched too")):
        fl = Flow(f.node, resolver=Resolver(f.node)).run()
        main = [c for c in _calls_in(scope, "_touch_dep_file") if len(c.args) > 1 and ast.unparse(c.args[1]) == name_expr]
        alias_loops = [n for n in ast.walk(scope) if isinstance(n, ast.For) and f"get_deprecated_option({name_expr})" in ast.unparse(n.iter)]
        construct = label
        if not main or not alias_loops:
            ctx.bad(construct, "the alias loop after the touch is missing: the file of an alias whose `#define` changed or vanished with the option is never touched", f.loc(main[0] if main else scope))
            continue
        al = alias_loops[0]
        at = [c for c in _calls_in(al, "_touch_dep_file") if ast.unparse(c.args[1]) == ast.unparse(al.target)]
        g_main = fl.guards_at(main[0]) or set()
        g_alias = fl.guards_at(at[0]) if at else None
        msgs = []
        if not at:
            msgs.append("the alias loop does not touch the alias")
        else:
            extra = sorted(g for g in (g_alias - g_main) if g != ("self._deprecated_options", True))
            if extra:
                msgs.append(f"alias touch additionally guarded by {extra}")
            if any(isinstance(x, (ast.Break, ast.Continue)) for x in ast.walk(al)):
                msgs.append("the alias loop can stop early")
            if main[0].lineno > al.lineno:
                msgs.append("alias touches precede the option's own touch")
        (ctx.bad(construct, "; ".join(msgs), f.loc(al)) if msgs else ctx.ok(construct, f.loc(al)))


def _unescapes_matched_string(repo, lo) -> bool:
    """`unescape(<m>.group(1))` where <m> is the result of `_conf_string_match(<value>)` (whatever the local is called)"""
    from .c04 import _reaching
    for c in ast.walk(lo.node):
        if isinstance(c, ast.Call) and ast.unparse(c.func) == "unescape" and c.args:
            a = c.args[0]
            if isinstance(a, ast.Call) and isinstance(a.func, ast.Attribute) and a.func.attr == "group" and isinstance(a.func.value, ast.Name):
                v = _reaching(repo, lo.node, a.func.value.id, c)
                if v is not None and isinstance(v, ast.Call) and ast.unparse(v.func) == "_conf_string_match":
                    return True
            if isinstance(a, ast.Call) and "_conf_string_match(" in ast.unparse(a):
                return True
    return False


def r12_4(ctx):
    """R12.4 old-value reader/writer agreement: _load_old_vals parses auto.conf with the same _set_match as the sdkconfig
    reader, unescapes strings written through _escape, and touches the file of every name that is no longer a symbol."""
    repo = ctx.repo
    lo = repo.func(f"{CORE}:Kconfig._load_old_vals")
    src = ast.unparse(lo.node)
    for label, ok in (
        ("parses lines with self._set_match", "self._set_match(line)" in src),
        ("unescapes string values", _unescapes_matched_string(repo, lo)),
        ("touches names that are no longer symbols", any(ast.unparse(c.args[1]) == "name" for c in _calls_in(lo.node, "_touch_dep_file"))),
        ("a missing auto.conf is not an error", "ENOENT" in src),
    ):
        construct = f"Kconfig._load_old_vals/{label}"
        (ctx.ok(construct, lo.loc(), nontrivial=False) if ok else ctx.bad(construct, f"{label}: not found", lo.loc()))
    res = Resolver(lo.node)
    fl = Flow(lo.node, resolver=res).run()
    st = [n for n in ast.walk(lo.node) if isinstance(n, ast.Assign) and ast.unparse(n.targets[0]).endswith("._old_val") and ast.unparse(n.value) != "None"]
    construct = "Kconfig._load_old_vals/old value stored for every known name"
    if not st:
        ctx.bad(construct, "no store of _old_val", lo.loc())
    else:
        gs = fl.guards_at(st[0]) or set()
        # "the name is a (defined) option of the tree" in its spellings - which of them is right is R12.12's table
        known = lambda g: (g[0].endswith(".nodes") and g[1]) or (g[0].endswith(" is None") and not g[1]) or (g[0].endswith(" is not None") and g[1])  # noqa: E731
        extra = sorted(g for g in gs if not (g in {("name in self.syms", True), ("match", True), ("not match", False)} or known(g)
                                             or (g[1] and "_set_match(" in g[0]) or (g[1] and g[0].isidentifier() and g[0].endswith("match"))))
        (ctx.bad(construct, f"additionally guarded by {extra}", lo.loc(st[0])) if extra else ctx.ok(construct, lo.loc(st[0])))
    # _touch_dep_file: truncating touch on a path derived from the name
    t = repo.func(f"{CORE}:_touch_dep_file")
    ctx.analysed(lo.qual, t.qual)
    ops = c13.truncating_opens(t.node)
    construct = "_touch_dep_file/truncating touch of <dir>/<name as path>.cdep, directories created first"
    tsrc = ast.unparse(t.node)
    ok = bool(ops) and "HEADER_TREE_SUFFIX" in tsrc and ".lower()" in tsrc and "os.makedirs(" in tsrc and \
        tsrc.index("os.makedirs(") < tsrc.index("os.open(")
    (ctx.ok(construct, t.loc()) if ok else ctx.bad(construct, "the touch no longer truncates/creates the file at the derived path", t.loc()))
    # distinct names map to distinct files: the option name reaches the path through character-wise operations only (lower,
    # replace of one character by the separator, concatenation, join) - nothing that drops or merges parts of it
    from .common import expand_locals
    construct = "_touch_dep_file/every option name has its own trigger file (the name reaches the path character by character)"
    name_prm = [a.arg for a in t.node.args.args][1]
    if not ops:
        ctx.bad(construct, "no truncating open", t.loc())
    else:
        pe = ast.parse(expand_locals(t.node, ops[0][0].args[0]), mode="eval").body
        bad_op = None
        for x in ast.walk(pe):
            if isinstance(x, (ast.ListComp, ast.GeneratorExp, ast.SetComp, ast.DictComp, ast.IfExp, ast.Lambda, ast.Starred, ast.Subscript)):
                bad_op = type(x).__name__
            elif isinstance(x, ast.Call):
                fn_ = ast.unparse(x.func)
                okc = fn_ in ("os.path.join", "join", "str") or (isinstance(x.func, ast.Attribute) and x.func.attr in ("lower", "upper", "format")) or \
                    (isinstance(x.func, ast.Attribute) and x.func.attr == "replace" and len(x.args) == 2 and isinstance(x.args[0], ast.Constant)
                     and isinstance(x.args[0].value, str) and len(x.args[0].value) == 1)
                if not okc:
                    bad_op = fn_
        uses = any(isinstance(x, ast.Name) and x.id == name_prm for x in ast.walk(pe))
        if bad_op or not uses:
            ctx.bad(construct, f"the path `{ast.unparse(pe)[:90]}` is computed with `{bad_op}`: two different option names (e.g. `BUF_SIZE` and `BUF_SIZE_`) can share a "
                    "trigger file - one of them is never flagged and the other is flagged spuriously", t.loc(ops[0][0]))
        else:
            ctx.ok(construct, t.loc(ops[0][0]))


def r12_5(ctx):
    """R12.5 auto.conf is only left untouched when it is identical: _contents_eq compares the whole file (C13 R13.1b) and
    _write_if_changed truncates only after that comparison failed (C13 R13.1)."""
    c13.r13_1b(ctx)
    before = len(ctx.instances)
    c13.r13_1(ctx)
    keep = [i for i in ctx.instances[before:] if "_write_if_changed" in i.construct or "_write_old_vals" in i.construct]
    dropped = {i.construct for i in ctx.instances[before:]} - {i.construct for i in keep}
    ctx.instances[before:] = keep
    ctx.findings[:] = [f for f in ctx.findings if not (f.rule == ctx._rule and f.construct in dropped)]


def r12_6(ctx):
    """R12.6 the alias list used for touching is complete: the rename tables are updated together and a duplicate mapping
    removes only the re-mapped alias from the reverse table (C07 R07.5) - sync_deps finds the aliases to touch through
    get_deprecated_option(), i.e. through that reverse table; _old_val of every symbol is reset before each sync."""
    from . import c07
    c07.r07_5(ctx)
    repo = ctx.repo
    lo = repo.func(f"{CORE}:Kconfig._load_old_vals")
    fl = Flow(lo.node).run()
    resets = [n for n in ast.walk(lo.node) if isinstance(n, ast.Assign) and ast.unparse(n.targets[0]).endswith("._old_val") and ast.unparse(n.value) == "None"]
    construct = "Kconfig._load_old_vals/_old_val reset unconditionally for every symbol at each sync"
    ok = bool(resets) and not (fl.guards_at(resets[0]) or set()) and not any(isinstance(p, ast.ExceptHandler) for p in _anc(repo, resets[0]))
    (ctx.ok(construct, lo.loc(resets[0]) if resets else lo.loc()) if ok else
     ctx.bad(construct, "the old value survives from an earlier sync of the same Kconfig object when auto.conf has no line for the symbol: a later change back to that "
             "value is not flagged", lo.loc(resets[0]) if resets else lo.loc()))


def _anc(repo, n):
    p = repo.parent(n)
    while p is not None:
        yield p
        p = repo.parent(p)


def r12_7(ctx):
    """R12.7 (a) a failure while flagging aborts the sync before auto.conf is written: no function on the sync path catches
    an OS error and carries on (a swallowed failure of one touch followed by the auto.conf write loses that trigger for
    good - the rerun compares against the already updated auto.conf); (b) the option name read from the old auto.conf is
    used as it was written there: a name that no longer exists is flagged under its own name, never re-mapped to another
    option (which would then be judged unchanged)."""
    from .common import no_swallowed_errors, not_rebound
    no_swallowed_errors(ctx, [f"{CORE}:Kconfig.sync_deps", f"{CORE}:Kconfig._load_old_vals", f"{CORE}:Kconfig._write_old_vals",
                              f"{CORE}:_touch_dep_file", f"{CORE}:Kconfig._write_if_changed"],
                        ("OSError",), "the sync goes on to write auto.conf although an option's trigger file was not touched")
    not_rebound(ctx, f"{CORE}:Kconfig._load_old_vals", ["name"],
                "an option that disappeared must be flagged under the name auto.conf recorded")


def r12_8(ctx):
    """R12.8 auto.conf records the value the next sync compares with: Symbol.config_string writes the evaluated value as it is
    (C02 R02.11a) - a writer-side re-spelling (a forced 0x prefix) never equals str_value again and the option is flagged
    on every sync."""
    from . import c02
    from .common import delegate
    delegate(ctx, c02.r02_11, lambda c: c.startswith("Symbol.config_string/"))

def r12_9(ctx):
    """R12.9 kconfgen's cdep_tree output always runs the sync: write_cdep_tree() reaches config.sync_deps() on every path (the
    recorded values can be stale although sdkconfig did not change: another tree version, another --env)."""
    repo = ctx.repo
    f = repo.func("kconfgen.core:write_cdep_tree")
    ctx.analysed(f.qual)
    fl = Flow(f.node, resolver=Resolver(f.node),
              events=lambda n: ["sync"] if not isinstance(n, (ast.If, ast.For, ast.While, ast.With, ast.Try)) and any(
                  isinstance(c, ast.Call) and ast.unparse(c.func).endswith(".sync_deps") for c in ast.walk(n)) else []).run()
    construct = "write_cdep_tree/every way out has run sync_deps"
    skipping = [sorted((x[1], x[2]) for x in stt if x[0] == "g")[:3] for kind, node, stt in fl.exits
                if kind in ("return", "fallthrough") and "sync" not in {x[1] for x in stt if x[0] == "ev"}]
    (ctx.bad(construct, f"returns without syncing under {skipping[0]}: changed options are not flagged", f.loc()) if skipping else ctx.ok(construct, f.loc()))

def r12_10(ctx):
    """R12.10 auto.conf is read back record by record: _load_old_vals cuts the file on the newline only (C02 R02.11) - a value containing
    U+2028 or a form feed would otherwise have no old value and its trigger file would be touched by every sync."""
    from .common import no_splitlines
    no_splitlines(ctx, ["esp_kconfiglib.core"], "the record of a value containing such a character is cut in two: no old value is recovered and the option's "
                  "trigger file is touched by every sync")
    ctx.ok("Kconfig._load_old_vals/auto.conf is cut on the newline only", ctx.repo.func(f"{CORE}:Kconfig._load_old_vals").loc(), nontrivial=False)


def r12_11(ctx):
    """R12.11 a torn auto.conf does not stop the rerun: the two places that read an existing auto.conf back (_load_old_vals and
    _contents_eq) either decode leniently (`errors=`) or read inside a handler that covers UnicodeError - a sync may die in the
    middle of a multi-byte character, and strict decoding would raise UnicodeDecodeError (not an EnvironmentError) on every
    rerun (fixed defect 5.47)."""
    repo = ctx.repo
    lo = repo.func(f"{CORE}:Kconfig._load_old_vals")
    ce = repo.func(f"{CORE}:Kconfig._contents_eq")
    ctx.analysed(lo.qual, ce.qual)
    from ..taint import TaintAnalysis, _FuncTaint
    WIDE = ("UnicodeError", "UnicodeDecodeError", "ValueError", "Exception", "BaseException")
    for f, label in ((lo, "reading the old values"), (ce, "comparing with the existing file")):
        construct = f"{f.short}/{label} survives an undecodable auto.conf"
        opens = [n for n in ast.walk(f.node) if isinstance(n, ast.Call) and ast.unparse(n.func) == "open" and n.args
                 and not any(isinstance(a, ast.Constant) and isinstance(a.value, str) and a.value[:1] in ("w", "a", "x") for a in n.args[1:])]
        if not opens:
            raise AnchorError(f"{f.short}: no read-open")
        ok = True
        for o in opens:
            lenient = any(k.arg == "errors" and isinstance(k.value, ast.Constant) and k.value.value not in (None, "strict") for k in o.keywords)
            binary = any(isinstance(a, ast.Constant) and isinstance(a.value, str) and "b" in a.value for a in o.args[1:])
            if lenient or binary:
                continue
            # strict decoding: every read of the handle must sit in a try whose handlers cover UnicodeError
            reads = [n for n in ast.walk(f.node) if isinstance(n, (ast.For, ast.Call)) and (
                (isinstance(n, ast.Call) and isinstance(n.func, ast.Attribute) and n.func.attr in ("read", "readline", "readlines"))
                or (isinstance(n, ast.For) and isinstance(n.iter, ast.Name)))]
            ft = _FuncTaint(TaintAnalysis(repo, CORE), f, {})

            def covered(node):
                p = repo.parent(node)
                child = node
                while p is not None and p is not f.node:
                    if isinstance(p, ast.Try) and child in p.body:
                        for h in p.handlers:
                            names = [ast.unparse(x) for x in (h.type.elts if isinstance(h.type, ast.Tuple) else [h.type])] if h.type is not None else ["BaseException"]
                            if any(nm.split(".")[-1] in WIDE for nm in names):
                                return True
                    child, p = p, repo.parent(p)
                return False
            if not reads or not all(covered(r) for r in reads):
                ok = False
        (ctx.ok(construct, f.loc(opens[0])) if ok else
         ctx.bad(construct, "the file is decoded strictly and a UnicodeDecodeError is not handled: an auto.conf cut inside a multi-byte character by an interrupted "
                 "sync makes every later sync raise - the rerun never completes and no trigger is delivered", f.loc(opens[0])))


def r12_12(ctx):
    """R12.12 the line-by-line decision of _load_old_vals: for every line of the old auto.conf that matches the assignment pattern,
    the option's trigger file is touched exactly when the name is not a *defined* option of the present tree (an option that
    was removed but is still referenced stays in Kconfig.syms as an undefined symbol - sync_deps() compares defined symbols
    only, so nobody else flags it: fixed defect 5.51), and an old value is stored only for a defined option. Decided as a
    table: the tests on each path through the loop body are evaluated over M (line matched), K (name in syms), D (symbol has
    definitions) and free atoms for everything else."""
    repo = ctx.repo
    lo = repo.func(f"{CORE}:Kconfig._load_old_vals")
    ctx.analysed(lo.qual)
    loops = [n for n in ast.walk(lo.node) if isinstance(n, ast.For) and any(
        isinstance(c, ast.Call) and ast.unparse(c.func).endswith("_set_match") for c in ast.walk(n))]
    if not loops:
        raise AnchorError("_load_old_vals: the loop over the lines of auto.conf was not found")
    loop = loops[0]
    unpack = [s for s in ast.walk(loop) if isinstance(s, ast.Assign) and isinstance(s.value, ast.Call) and ast.unparse(s.value.func).endswith(".groups")]
    if not unpack:
        raise AnchorError("_load_old_vals: `name, val = match.groups()` not found")
    split_line = unpack[0].lineno
    mvar = ast.unparse(unpack[0].value.func.value)
    nvar = ast.unparse(unpack[0].targets[0].elts[0]) if isinstance(unpack[0].targets[0], ast.Tuple) else None
    if nvar is None:
        raise AnchorError("_load_old_vals: the name is not unpacked from the match")
    # locals holding the symbol looked up by name
    symvars = {ast.unparse(s.targets[0]) for s in ast.walk(loop) if isinstance(s, ast.Assign) and len(s.targets) == 1 and isinstance(s.targets[0], ast.Name)
               and ast.unparse(s.value) in (f"self.syms[{nvar}]", f"self.syms.get({nvar})", f"self.syms.get({nvar}, None)")}
    symexprs = set(symvars) | {f"self.syms[{nvar}]", f"self.syms.get({nvar})"}

    def on_stmt(st, p: Path, loops_):
        for n in ast.walk(st):
            if isinstance(n, ast.Call) and ast.unparse(n.func).split(".")[-1] == "_touch_dep_file" and len(n.args) > 1 and ast.unparse(n.args[1]) == nvar:
                p.events.append(("TOUCH", st.lineno, None))
        if isinstance(st, ast.Assign) and ast.unparse(st.targets[0]).endswith("._old_val") and ast.unparse(st.value) != "None":
            p.events.append(("STORE", st.lineno, None))

    paths = Enumerator(on_stmt).run(loop.body, Path())
    free: Dict[str, str] = {}

    def leaf(node):
        t = ast.unparse(node).replace('"', "'")
        ln = getattr(node, "lineno", 0)
        if ln <= split_line and t in (mvar, f"{mvar} is not None"):
            return "M", True
        if ln <= split_line and t == f"{mvar} is None":
            return "M", False
        if t in (f"{nvar} in self.syms",) or any(t == f"{s} is not None" for s in symexprs):
            return "K", True
        if t in (f"{nvar} not in self.syms",) or any(t == f"{s} is None" for s in symexprs):
            return "K", False
        if any(t == f"{s}.nodes" for s in symexprs) or any(t in (f"{s} in self.unique_defined_syms", f"len({s}.nodes) > 0", f"{s}.nodes != []") for s in symexprs):
            return "D", True
        if any(t in (f"{s} not in self.unique_defined_syms", f"len({s}.nodes) == 0", f"{s}.nodes == []") for s in symexprs):
            return "D", False
        if any(s in {x.id for x in ast.walk(node) if isinstance(x, ast.Name)} for s in (nvar,)) and ("syms" in t):
            raise AnalysisError(f"_load_old_vals: test `{t[:70]}` decides whether the name is known in a way the table does not express")
        key = f"{t}@{ln}"
        free.setdefault(key, f"F{len(free)}")
        return free[key], True

    def ev(node, v):
        if isinstance(node, ast.BoolOp):
            # short-circuit, so that `sym is not None and sym.nodes` never asks for D of an unknown name
            if isinstance(node.op, ast.And):
                return all(ev(x, v) for x in node.values)
            return any(ev(x, v) for x in node.values)
        if isinstance(node, ast.UnaryOp) and isinstance(node.op, ast.Not):
            return not ev(node.operand, v)
        a_, pos = leaf(node)
        return v[a_] if pos else not v[a_]

    table = []
    for p, status in paths:
        table.append(([(node, pol) for c, pol, ln, node in p.conds], {e[0] for e in p.events}))

    def collect(node):
        if isinstance(node, ast.BoolOp):
            for x in node.values:
                collect(x)
        elif isinstance(node, ast.UnaryOp) and isinstance(node.op, ast.Not):
            collect(node.operand)
        else:
            leaf(node)
    for conds, _ in table:
        for node, pol in conds:
            collect(node)
    atoms = ["M", "K", "D"] + sorted(set(free.values()))
    if len(atoms) > 12:
        raise AnalysisError(f"_load_old_vals: {len(atoms)} atoms in the loop body")
    bad = []
    n_val = 0
    for bits in itertools.product((True, False), repeat=len(atoms)):
        v = dict(zip(atoms, bits))
        if v["D"] and not v["K"]:
            continue  # a defined symbol is in syms
        n_val += 1
        match = [ev_ for conds, ev_ in table if all(ev(node, v) == pol for node, pol in conds)]
        if not match:
            raise AnalysisError(f"_load_old_vals: no path for {v}")
        got_touch = {("TOUCH" in m) for m in match}
        got_store = {("STORE" in m) for m in match}
        if len(got_touch) != 1:
            raise AnalysisError(f"_load_old_vals: valuation {v} is ambiguous")
        touch, store = got_touch.pop(), any(got_store)
        want_touch = v["M"] and not v["D"]
        if touch != want_touch:
            bad.append((v, f"{'touches' if touch else 'does not touch'} the trigger file"))
        elif store and not (v["M"] and v["D"]):
            bad.append((v, "stores an old value"))
    construct = "Kconfig._load_old_vals/a recorded name is flagged iff it is not a defined option any more"
    if bad:
        v, what = bad[0]
        case = ("a line that is no assignment" if not v["M"] else "a name that is unknown" if not v["K"] else
                "an option that was removed but is still referenced (in syms, no definition)" if not v["D"] else "a defined option")
        ctx.bad(construct, f"for {case} the loop body {what}: " +
                ("the option vanished from the build-visible configuration and nothing flags it" if v["M"] and not v["D"] else
                 "a file is touched for an option sync_deps() compares itself" if v["M"] else "a file is touched for a line that records nothing"),
                lo.loc(loop))
    else:
        ctx.ok(construct, lo.loc(loop), valuations=n_val, paths=len(paths))


def r12_13(ctx):
    """R12.13 the trigger file lies inside the dependency directory for every option name: in _touch_dep_file() the text
    derived from the name is never handed to os.path.join() as a later component when it can begin with the separator
    (`_FOO`.lower().replace('_', os.sep) is '/foo': join() then drops the directory and the file is created in the file
    system root, where no build rule looks for it and an unprivileged sync dies on it)."""
    from . import c13
    from .common import expand_locals
    repo = ctx.repo
    t = repo.func(f"{CORE}:_touch_dep_file")
    ctx.analysed(t.qual)
    construct = "_touch_dep_file/the directory is part of the path for every option name (no join() component can be absolute)"
    ops = c13.truncating_opens(t.node)
    if not ops:
        ctx.bad(construct, "no truncating open", t.loc())
        return
    name_prm = [a.arg for a in t.node.args.args][1]
    pe = ast.parse(expand_locals(t.node, ops[0][0].args[0]), mode="eval").body
    seps = ("os.sep", "sep", "'/'", "os.path.sep")

    def may_lead_sep(e):
        # can the string `e` begin with the path separator, given that an option name can begin with `_`?
        if isinstance(e, ast.BinOp) and isinstance(e.op, ast.Add):
            if isinstance(e.left, ast.Constant) and isinstance(e.left.value, str) and e.left.value:
                return e.left.value.startswith("/")
            return may_lead_sep(e.left)
        if isinstance(e, ast.JoinedStr) and e.values:
            v = e.values[0]
            if isinstance(v, ast.Constant):
                return str(v.value).startswith("/")
            return may_lead_sep(v.value) if isinstance(v, ast.FormattedValue) else False
        if isinstance(e, ast.Call) and isinstance(e.func, ast.Attribute):
            if e.func.attr == "replace" and len(e.args) == 2 and ast.unparse(e.args[1]).replace('"', "'") in seps:
                c = e.args[0]
                # the replaced character can be the first one of the name (only `_`, letters and digits occur in names)
                return (isinstance(c, ast.Constant) and isinstance(c.value, str) and len(c.value) == 1 and (c.value == "_" or c.value.isalnum())
                        and any(isinstance(x, ast.Name) and x.id == name_prm for x in ast.walk(e.func.value))) or may_lead_sep(e.func.value)
            if e.func.attr in ("lower", "upper", "rstrip", "strip") and not (e.func.attr == "strip" and not e.args):
                return may_lead_sep(e.func.value)
            if e.func.attr in ("lstrip",):
                return False
        return False

    joins = [x for x in ast.walk(pe) if isinstance(x, ast.Call) and ast.unparse(x.func) in ("os.path.join", "join")]
    bad = [(j, a) for j in joins for a in j.args[1:] if not isinstance(a, ast.Starred) and may_lead_sep(a)]
    if bad:
        ctx.bad(construct, f"`{ast.unparse(bad[0][1])[:80]}` is a later component of `{ast.unparse(bad[0][0].func)}()` and begins with the separator for a "
                "name like `_FOO`: the directory is dropped, the trigger file is `/foo.cdep`", t.loc(ops[0][0]))
    else:
        ctx.ok(construct, t.loc(ops[0][0]), joins=len(joins))


def rules():
    return [("R12.13", r12_13, 1), ("R12.12", r12_12, 1), ("R12.11", r12_11, 2), ("R12.10", r12_10, 1), ("R12.9", r12_9, 1), ("R12.8", r12_8, 1), ("R12.7", r12_7, 2), ("R12.1", r12_1, 6), ("R12.2", r12_2, 2), ("R12.3", r12_3, 2), ("R12.4", r12_4, 6), ("R12.5", r12_5, 4), ("R12.6", r12_6, 4)]
