"""C06 - every emitted value is well-formed for its type and inside its active range (necessary
structural conditions)."""
from __future__ import annotations

import ast
from typing import Dict, List, Optional, Set, Tuple

from ..flow import AnalysisError, Flow, Resolver
from ..repo import AnchorError
from ..tables import type_chains, type_set, type_tests_in
from . import c01

PROPERTY = "C06"
CORE = "esp_kconfiglib.core"
ALL5 = {"BOOL", "STRING", "INT", "HEX", "FLOAT"}
LEVEL_TEXT = (
    "Static analysis: the only writer of a non-None user value validates it first; over all flag-feasible paths of "
    "the numeric branches of Symbol.str_value the range clamp is entered whenever a range is active (whatever source "
    "provided the value) and the numeric shadow is updated after the last source assignment; every consumer that "
    "switches on the symbol type covers the five types with the converters the property names; hex renderers ensure "
    "the 0x prefix. Not decided: numeric correctness of clamping/normalisation."
)


def r06_1(ctx):
    """R06.1 stored user values are validated: every assignment `X._user_value = v` (v not None) is dominated by a failed
    `not X.value_is_valid(v)` early exit, v is not changed in between except by the float normaliser, and
    value_is_valid has a clause for each of the five types."""
    repo = ctx.repo
    n_sites = 0
    for f in list(repo.all_funcs()):
        if f.name in ("__init__", "init_rest"):
            continue
        for n in ast.walk(f.node):
            if not (isinstance(n, ast.Assign) and repo.enclosing_func(n) is f):
                continue
            tg = [t for t in n.targets if isinstance(t, ast.Attribute) and t.attr == "_user_value"]
            if not tg or (isinstance(n.value, ast.Constant) and n.value.value is None):
                continue
            # Choice mode writes are validated inline (`value in (2, 0)`), see below
            recv = ast.unparse(tg[0].value)
            n_sites += 1
            construct = f"{f.short}/store {recv}._user_value"
            ctx.analysed(f.qual)
            var = ast.unparse(n.value)
            # dominating early exit: preceding sibling `if not <recv>.value_is_valid(var): ... return`
            dom = None
            cur: ast.AST = n
            while cur is not f.node and dom is None:
                par = repo.parent(cur)
                for fld in ("body", "orelse", "finalbody"):
                    b = getattr(par, fld, None)
                    if isinstance(b, list) and cur in b:
                        for prev in b[: b.index(cur)]:
                            if isinstance(prev, ast.If) and prev.body and isinstance(prev.body[-1], (ast.Return, ast.Raise)) and not prev.orelse:
                                t = ast.unparse(prev.test)
                                if t == f"not {recv}.value_is_valid({var})" or \
                                        (f.cls == "Choice" and "in (2, 0)" in t and var in t and t.startswith("not")):
                                    dom = prev
                cur = par
            if dom is None:
                ctx.bad(construct, f"{recv}._user_value = {var} is not dominated by a failed-validation early exit "
                        f"(`if not {recv}.value_is_valid({var}): return`): malformed values reach the evaluators", f.loc(n))
                continue
            # reassignments of var between validation and store
            bad_re = []
            for m in ast.walk(f.node):
                if isinstance(m, ast.Assign) and any(isinstance(t, ast.Name) and t.id == var for t in m.targets) \
                        and dom.lineno < m.lineno < n.lineno:
                    if ast.unparse(m.value) != f"_normalize_float({var})":
                        bad_re.append(m)
            if bad_re:
                ctx.bad(construct, f"`{var}` is reassigned after validation ({ast.unparse(bad_re[0])})", f.loc(bad_re[0]))
            else:
                ctx.ok(construct, f.loc(n), validated_by=ast.unparse(dom.test))
    if n_sites == 0:
        raise AnchorError("no non-None store into _user_value found")
    viv = repo.func(f"{CORE}:Symbol.value_is_valid")
    ctx.analysed(viv.qual)
    # what the predicate accepts, read as a boolean function of its atomic tests (one expression, guard clauses or an if
    # chain - the spelling does not matter): for every type, acceptance implies the form check of that type
    from .common import AcceptCondition
    ac = AcceptCondition(viv.node)
    from .common import type_atom_truth
    # the type tests, in whatever spelling (== / is / in a tuple or a set constant / implied by an else arm)
    type_tests = [a for a in ac.atoms if type_atom_truth(repo, CORE, a, "INT") is not None]
    if not type_tests:
        raise AnchorError(f"value_is_valid: no type tests found (atoms: {ac.atoms})")
    need = {
        "BOOL": [["value in (2, 0)", "value in (0, 2)"]],
        "INT": [["type(value) is str", "isinstance(value, str)"], ["_is_base_n(value, 10)"]],
        "HEX": [["type(value) is str", "isinstance(value, str)"], ["_is_base_n(value, 16)"], ["int(value, 16) >= 0", "int(value, 16) < 0"]],
        "FLOAT": [["type(value) is str", "isinstance(value, str)"], ["is_float(value)"]],
        "STRING": [["type(value) is str", "isinstance(value, str)"]],
    }
    neg = {"int(value, 16) < 0"}
    for ty in sorted(ALL5):
        construct = f"Symbol.value_is_valid/{ty} clause"
        fixed = {a: type_atom_truth(repo, CORE, a, ty) for a in type_tests}
        bad_v = None
        accepts_something = False
        for v in ac.valuations(fixed):
            if not ac.accept(v):
                continue
            accepts_something = True
            for alts in need[ty]:
                present = [a for a in alts if a in v]
                if not present or not any((v[a] if a not in neg else not v[a]) for a in present):
                    bad_v = (alts, {k: val for k, val in v.items() if k not in type_tests})
                    break
            if bad_v:
                break
        if bad_v:
            ctx.bad(construct, f"a {ty} value is accepted without `{bad_v[0][0]}` holding (accepted under {bad_v[1]})", viv.loc())
        elif not accepts_something:
            ctx.bad(construct, f"no {ty} value is accepted at all", viv.loc())
        else:
            ctx.ok(construct, viv.loc())


def _clamp_if(body: List[ast.stmt], result: str) -> Optional[ast.If]:
    last = None
    for st in body:
        if isinstance(st, ast.If) and not any(isinstance(x, ast.For) for x in ast.walk(st)):
            for x in ast.walk(st):
                if isinstance(x, ast.Assign) and any(isinstance(t, ast.Name) and t.id == result for t in x.targets) \
                        and "_user_value" not in ast.unparse(x.value):
                    last = st
    return last


def r06_2(ctx):
    """R06.2 the clamp closes every numeric path: on every flag-feasible path of the INT/HEX and FLOAT branches on which a
    range is active, the clamp block is entered before the value is stored - whichever source (set, user, set default,
    default, none) provided the value - and it compares the numeric shadow with both bounds."""
    repo = ctx.repo
    f = repo.func(f"{CORE}:Symbol.str_value")
    ctx.analysed(f.qual)
    branches = c01.typed_branches(f.node)
    result = c01.result_var(f.node, "_cached_str_val")
    for name in ("INTHEX", "FLOAT"):
        body = branches[name]
        cif = _clamp_if(body, result)
        if cif is None:
            ctx.bad(f"Symbol.str_value/{name}/clamp block", "no range clamp block found in this branch", f.loc(body[0]))
            continue
        ctest = ast.unparse(cif.test)
        paths = c01.classify_str_value_paths(body, result, 1 if ctx.tier == "quick" else 2)
        skipped: Dict[str, int] = {}
        n_active = 0
        for p, status in paths:
            if p.flags.get("has_active_range") is not True:
                if p.flags.get("has_active_range") is None:
                    raise AnalysisError("has_active_range is not a tracked flag on some path")
                continue
            n_active += 1
            entered = any(c == ctest and pol for c, pol, _, _ in p.conds)
            if not entered:
                srcs = [e[0][4:] for e in p.events if e[0].startswith("SRC:")]
                skipped[srcs[-1] if srcs else "no source"] = skipped.get(srcs[-1] if srcs else "no source", 0) + 1
        construct = f"Symbol.str_value/{name}/clamp entered whenever a range is active"
        if skipped:
            ctx.bad(construct, f"with an active range the clamp `if {ctest}` is skipped on paths whose value comes from: "
                    f"{skipped} - such a value leaves str_value outside the range", f.loc(cif))
        elif n_active == 0:
            raise AnalysisError(f"no path with an active range in branch {name}")
        else:
            ctx.ok(construct, f.loc(cif), paths_with_active_range=n_active, total_paths=len(paths))
        # the block compares the shadow with both bounds and rewrites the result
        cmps = [x for x in ast.walk(cif) if isinstance(x, ast.Compare) and len(x.ops) == 1 and isinstance(x.left, ast.Name)
                and x.left.id.startswith("val_num")]
        ops = {type(x.ops[0]).__name__: ast.unparse(x.comparators[0]) for x in cmps}
        construct = f"Symbol.str_value/{name}/clamp compares the shadow with both bounds"
        ok = "Lt" in ops and "Gt" in ops and ops["Lt"].startswith("low") and ops["Gt"].startswith("high")
        (ctx.ok(construct, f.loc(cif), comparisons=ops) if ok else ctx.bad(construct, f"comparisons found: {ops}", f.loc(cif)))
        # the clamp is the last thing that touches the result in the branch
        after = body[body.index(cif) + 1:] if cif in body else []
        construct = f"Symbol.str_value/{name}/nothing rewrites the value after the clamp"
        late = [x for st in after for x in ast.walk(st) if isinstance(x, ast.Assign) and any(isinstance(t, ast.Name) and t.id == result for t in x.targets)]
        (ctx.bad(construct, f"`{ast.unparse(late[0])}` follows the clamp", f.loc(late[0])) if late else ctx.ok(construct, f.loc(cif), nontrivial=False))


def r06_3(ctx):
    """R06.3 value/number pairing: on every path of the numeric branches the numeric shadow (val_num_*) is assigned after
    the last source assignment of the value and before the clamp - the clamp compares the shadow, so a missed update
    clamps a stale number."""
    repo = ctx.repo
    f = repo.func(f"{CORE}:Symbol.str_value")
    ctx.analysed(f.qual)
    branches = c01.typed_branches(f.node)
    result = c01.result_var(f.node, "_cached_str_val")
    for name in ("INTHEX", "FLOAT"):
        paths = c01.classify_str_value_paths(branches[name], result, 1 if ctx.tier == "quick" else 2)
        stale: Dict[str, int] = {}
        for p, status in paths:
            ev = [(e[0], e[1]) for e in p.events if e[0].startswith("SRC:") or e[0] == "NUM" or e[0] == "CLAMP"]
            last_src = max((i for i, (k, _) in enumerate(ev) if k.startswith("SRC:")), default=None)
            if last_src is None:
                continue
            tail = ev[last_src + 1:]
            upto_clamp = []
            for k, ln in tail:
                if k == "CLAMP":
                    break
                upto_clamp.append(k)
            if "NUM" not in upto_clamp:
                stale[f"{ev[last_src][0][4:]} at line {ev[last_src][1]}"] = stale.get(f"{ev[last_src][0][4:]} at line {ev[last_src][1]}", 0) + 1
        construct = f"Symbol.str_value/{name}/numeric shadow updated after every source"
        if stale:
            ctx.bad(construct, f"paths on which the value is taken from a source but val_num_* keeps an older number: {stale}",
                    f.loc(branches[name][0]))
        else:
            ctx.ok(construct, f.loc(branches[name][0]), paths=len(paths))
        # the shadow is the number of the value that was just taken, not of something else
        k = 0
        for n in ast.walk(ast.Module(body=branches[name], type_ignores=[])):
            if not (isinstance(n, ast.Assign) and isinstance(n.targets[0], ast.Name) and n.targets[0].id.startswith("val_num")):
                continue
            for c in [x for x in ast.walk(n.value) if isinstance(x, ast.Call) and isinstance(x.func, ast.Name) and x.func.id in ("int", "float") and x.args]:
                k += 1
                construct = f"Symbol.str_value/{name}/numeric shadow #{k} is the number of the value just taken"
                arg = ast.unparse(c.args[0])
                (ctx.ok(construct, f.loc(c), nontrivial=False) if arg == result else
                 ctx.bad(construct, f"`{ast.unparse(n)[:70]}` converts `{arg}`, not the value `{result}` that will be emitted: the clamp decision is "
                         "taken on another number and an out-of-range value passes unclamped", f.loc(c)))


def _arms_for(chains, ty: str):
    out = []
    for first, arms, els in chains:
        for ts, test, body in arms:
            if ty in ts:
                out.append((first, ts, test, body))
    return out


def r06_4(ctx):
    """R06.4 type-dispatch exhaustiveness: each consumer that switches on the symbol type handles the types the property
    names explicitly, with the converter it names (typed numbers in JSON, quoting through _escape, form checks)."""
    repo = ctx.repo
    table = [
        # (function, {type: predicate over the arm's source text}, reason)
        ("kconfgen.core:get_json_values.<locals>.write_node", {
            "BOOL": lambda s: "!= 'n'" in s or '!= "n"' in s or "== 'y'" in s,
            "HEX": lambda s: ", 16)" in s and "int(" in s,
            "INT": lambda s: "int(" in s,
            "FLOAT": lambda s: "float(" in s}, "typed numbers in JSON"),
        ("esp_kconfiglib.core:Kconfig._header_string", {
            "BOOL": lambda s: " 1\\n" in s, "STRING": lambda s: "_escape(" in s,
            "INT": lambda s: True, "HEX": lambda s: True, "FLOAT": lambda s: True}, "header renders all five types"),
        ("esp_kconfiglib.core:Symbol.config_string", {
            "BOOL": lambda s: "is not set" in s, "INT": lambda s: True, "HEX": lambda s: True, "FLOAT": lambda s: True},
         "sdkconfig line per type (string is the documented catch-all)"),
        ("kconfgen.core:write_cmake.<locals>.write_node", {
            "BOOL": lambda s: "''" in s or '""' in s, "STRING": lambda s: "_escape(" in s,
            "HEX": lambda s: "hex(int(" in s and ", 16)" in s}, "CMake: n as empty, quoted strings, 0x hex"),
        ("esp_kconfiglib.deprecated:DeprecatedOptions._deprecated_config_string", {
            "BOOL": lambda s: "is not set" in s, "STRING": lambda s: "_escape(" in s,
            "HEX": lambda s: "'0x' +" in s or '"0x" +' in s or "f'0x{" in s or 'f"0x{' in s}, "deprecated aliases mirror config_string"),
        ("kconfserver.core:handle_set", {
            "BOOL": lambda s: "set_value(2)" in s and "set_value(0)" in s,
            "HEX": lambda s: "int(val, 16)" in s and "hex(val)" in s,
            "FLOAT": lambda s: "is_float(" in s}, "server converts JSON values per type"),
        ("esp_kconfiglib.core:Kconfig._load_config", {
            "BOOL": lambda s: "startswith(('y', 'n'))" in s, "STRING": lambda s: "_conf_string_match(" in s and "unescape(" in s,
            "FLOAT": lambda s: "_normalize_float(" in s}, "per-type parsing of right-hand sides"),
        ("esp_menuconfig.formatting:check_valid", {
            "FLOAT": lambda s: "is_float(" in s}, "dialog validator"),
    ]
    for q, need, reason in table:
        f = repo.func(q)
        ctx.analysed(q)
        chains = type_chains(repo, f.node)
        for ty, pred in sorted(need.items()):
            construct = f"{f.short}/{ty} arm"
            arms = _arms_for(chains, ty)
            if not arms:
                ctx.bad(construct, f"no explicit arm for {ty} ({reason})", f.loc())
                continue
            good = [a for a in arms if pred(" ".join(ast.unparse(s) for s in a[3]))]
            first, ts, test, body = (good or arms)[0]
            src = " ".join(ast.unparse(s) for s in body)
            if good:
                ctx.ok(construct, f.loc(first), types=sorted(ts))
            else:
                ctx.bad(construct, f"the {ty} arm no longer applies the expected conversion ({reason}): {src[:120]}", f"{f.module.relpath}:{test.lineno}")
    # check_valid: numeric gate and base selection
    f = repo.func("esp_menuconfig.formatting:check_valid")
    tts = type_tests_in(repo, f.node)
    gate = [t for t in tts if not t.positive and t.types == {"INT", "HEX", "FLOAT"}]
    construct = "check_valid/validates INT, HEX and FLOAT"
    (ctx.ok(construct, f.loc()) if gate else ctx.bad(construct, "the early `not in (INT, HEX, FLOAT)` pass-through changed", f.loc()))
    base = [n for n in ast.walk(f.node) if isinstance(n, ast.Assign) and ast.unparse(n.targets[0]) == "base"]
    construct = "check_valid/base 10 for INT else 16"
    from .common import expand_locals
    ok = bool(base) and expand_locals(f.node, base[0].value).replace(" ", "") in ("10ifsym.orig_type==INTelse16", "16ifsym.orig_type==HEXelse10")
    (ctx.ok(construct, f.loc(base[0])) if ok else ctx.bad(construct, "base selection changed", f.loc()))


def r06_5(ctx):
    """R06.5 hex rendering: every HEX arm of a header / CMake / alias emitter passes the value through a prefix-ensuring
    operation (`"0x" + v` under a startswith(("0x","0X")) test, or hex(int(v, 16)))."""
    repo = ctx.repo
    for q in ("esp_kconfiglib.core:Kconfig._header_string", "kconfgen.core:write_cmake.<locals>.write_node",
              "esp_kconfiglib.deprecated:DeprecatedOptions._deprecated_config_string"):
        f = repo.func(q)
        ctx.analysed(q)
        construct = f"{f.short}/hex value gets a 0x prefix"
        ok = False
        where = f.loc()
        for n in ast.walk(f.node):
            if isinstance(n, ast.If):
                tts = [t for t in type_tests_in(repo, n.test) if t.positive and t.types == {"HEX"}]
                if not tts:
                    continue
                src = " ".join(ast.unparse(s) for s in n.body)
                tsrc = ast.unparse(n.test)
                where = f.loc(n)
                if "hex(int(" in src and ", 16)" in src:
                    ok = True
                if ("startswith(('0x', '0X'))" in tsrc or "startswith(('0x', '0X'))" in src) and ("'0x' +" in src or "f'0x{" in src):
                    ok = True
        (ctx.ok(construct, where) if ok else ctx.bad(construct, "the HEX arm does not ensure a 0x prefix", where))


def r06_6(ctx):
    """R06.6 a cached value tracks its range bounds and sources: every component Symbol evaluators read dynamically
    (ranges[*][0..2], defaults, set values, ...) is a registered invalidation edge - otherwise a value computed under
    an old bound is emitted outside the new active range (Symbol part of C03 R03.1)."""
    from . import c03
    before = len(ctx.instances)
    c03.r03_1(ctx)
    keep = [i for i in ctx.instances[before:] if i.construct.startswith("Symbol/")]
    dropped = {i.construct for i in ctx.instances[before:] if not i.construct.startswith("Symbol/")}
    ctx.instances[before:] = keep
    ctx.findings[:] = [f for f in ctx.findings if not (f.rule == ctx._rule and f.construct in dropped)]


def r06_7(ctx):
    """R06.7 float values are canonical: on every path of the FLOAT branch the stored value comes from
    _normalize_float(...), from the user value (normalised by set_value / _load_config before it is stored) or from
    str(<float>) in the clamp; set_value and _load_config normalise floats. (Writer and loader must agree on the
    spelling, otherwise a written default is reported as a mismatch on reload.)"""
    repo = ctx.repo
    f = repo.func(f"{CORE}:Symbol.str_value")
    ctx.analysed(f.qual)
    branches = c01.typed_branches(f.node)
    result = c01.result_var(f.node, "_cached_str_val")
    paths = c01.classify_str_value_paths(branches["FLOAT"], result, 1 if ctx.tier == "quick" else 2)
    raw: Dict[str, int] = {}
    for p, status in paths:
        ev = [e for e in p.events if e[0].startswith("SRC:") or e[0] == "CLAMP"]
        if not ev:
            continue
        k, ln, rhs = ev[-1]
        rhs = rhs or ""
        ok = rhs.startswith("_normalize_float(") or rhs == "self._user_value" or (k == "CLAMP" and rhs.startswith("str("))
        if not ok:
            raw[f"{k} `{rhs}` at line {ln}"] = raw.get(f"{k} `{rhs}` at line {ln}", 0) + 1
    construct = "Symbol.str_value/FLOAT/stored value is normalised on every path"
    if raw:
        ctx.bad(construct, f"paths store a float spelling that did not pass _normalize_float: {raw}", f.loc(branches["FLOAT"][0]))
    else:
        ctx.ok(construct, f.loc(branches["FLOAT"][0]), paths=len(paths))
    for q, var in ((f"{CORE}:Symbol.set_value", "value"), (f"{CORE}:Kconfig._load_config", "val")):
        g = repo.func(q)
        ctx.analysed(q)
        fl = Flow(g.node).run()
        norm = [n for n in ast.walk(g.node) if isinstance(n, ast.Assign) and ast.unparse(n.value) == f"_normalize_float({var})"
                and ast.unparse(n.targets[0]) == var and repo.enclosing_func(n) is g]
        construct = f"{g.short}/float user values are normalised before they are stored"
        if not norm:
            ctx.bad(construct, f"no `{var} = _normalize_float({var})`", g.loc())
            continue
        gs = fl.guards_at(norm[0]) or set()
        ty_ok = any("orig_type == FLOAT" in k and pol for k, pol in gs)
        stores = [n for n in ast.walk(g.node) if isinstance(n, ast.Assign) and any(isinstance(t, ast.Attribute) and t.attr == "_user_value" for t in n.targets)
                  and not (isinstance(n.value, ast.Constant) and n.value.value is None)] if g.name == "set_value" else \
                 [n for n in ast.walk(g.node) if isinstance(n, ast.Call) and ast.unparse(n.func) == "self.set_value_and_source" and repo.enclosing_func(n) is g
                  and ast.unparse(n.args[1]) == var]
        before_store = all(norm[0].lineno < s.lineno for s in stores) and bool(stores)
        (ctx.ok(construct, g.loc(norm[0])) if ty_ok and before_store else
         ctx.bad(construct, f"normalisation is not (FLOAT-guarded and before the store): guards {sorted(gs)}", g.loc(norm[0])))


def r06_8(ctx):
    """R06.8 (a) numeric conversions of symbol values in the evaluators and consumers are checked conversions (validity
    guard, ValueError handler, or a value validated when stored); (b) range bounds are parsed in the base of the *ranged*
    symbol everywhere (evaluator, config server, dialog validator), never in the base of the bound's own type; (c) the
    JSON and CMake converters parse in the base the value was validated in (10 for int, 16 for hex)."""
    from .common import checked_conversions
    repo = ctx.repo
    # (_sym_to_num is documented to raise ValueError; its caller expr_value handles it)
    from .common import symbol_value_converters
    mods = [CORE, "esp_kconfiglib.deprecated", "esp_kconfiglib.report", "kconfgen.core", "kconfserver.core", "esp_menuconfig.formatting",
            "esp_menuconfig.app", "esp_menuconfig.model", "esp_idf_kconfig.gen_kconfig_doc"]
    checked_conversions(ctx, symbol_value_converters(ctx.repo, mods), validated_params=("s",), only_symbol_values=True, exempt_funcs={
        "_sym_to_num": "documented to raise ValueError for non-numbers; its only callers (the relation arms of expr_value) catch it and fall back "
                       "to string comparison - checked below"})
    # the exemption's premise: every call of _sym_to_num sits in a try that handles ValueError
    from ..callgraph import CallGraph
    cg = CallGraph(ctx.repo)
    for caller, call in cg.callers(f"{CORE}:_sym_to_num", weak=False):
        construct = f"{caller.short}/_sym_to_num(..) is called under a ValueError handler"
        p = ctx.repo.parent(call)
        ok = False
        while p is not None and p is not caller.node:
            if isinstance(p, ast.Try) and any(h.type is None or "ValueError" in ast.unparse(h.type) for h in p.handlers) and any(call is x for b in p.body for x in ast.walk(b)):
                ok = True
            p = ctx.repo.parent(p)
        (ctx.ok(construct, caller.loc(call), nontrivial=False) if ok else ctx.bad(construct, "a non-numeric operand of a relation raises ValueError out of expr_value", caller.loc(call)))
    for q in (f"{CORE}:Symbol.str_value", "kconfserver.core:get_ranges.<locals>.get_active_range", "esp_menuconfig.formatting:check_valid"):
        f = repo.func(q)
        ctx.analysed(q)
        loops = [n for n in ast.walk(f.node) if isinstance(n, ast.For) and ast.unparse(n.iter).endswith(".ranges")]
        for lp in loops:
            bound_vars = {t.id for t in ast.walk(lp.target) if isinstance(t, ast.Name)}
            convs = [n for n in ast.walk(lp) if isinstance(n, ast.Call) and isinstance(n.func, ast.Name) and n.func.id == "int" and len(n.args) == 2]
            if not convs:
                continue
            construct = f"{f.short}/range bounds parsed in the ranged symbol's base (loop at +{lp.lineno - f.node.lineno})"
            bad = None
            for c in convs:
                b = c.args[1]
                names = {x.id for x in ast.walk(b) if isinstance(x, ast.Name)}
                # follow one assignment of the base variable inside the loop
                for nm in list(names):
                    for a in ast.walk(lp):
                        if isinstance(a, ast.Assign) and any(isinstance(t, ast.Name) and t.id == nm for t in a.targets):
                            names |= {x.id for x in ast.walk(a.value) if isinstance(x, ast.Name)}
                if names & bound_vars:
                    bad = c
            (ctx.bad(construct, f"`{ast.unparse(bad)}`: the base depends on the bound itself - a literal bound of a hex option is read as decimal, so the "
                     "active range differs from the one the config server and the validator report", f.loc(bad)) if bad else ctx.ok(construct, f.loc(lp), conversions=len(convs)))
    j = repo.func("kconfgen.core:get_json_values.<locals>.write_node")
    ctx.analysed(j.qual)
    chains = type_chains(repo, j.node)
    for ty, want in (("INT", ("int(candidate_val)", "int(candidate_val, 10)")), ("HEX", ("int(candidate_val, 16)",))):
        arms = [a for a in _arms_for(chains, ty) if any(isinstance(x, ast.Call) and isinstance(x.func, ast.Name) and x.func.id == "int" for s in a[3] for x in ast.walk(s))]
        construct = f"get_json_values.<locals>.write_node/{ty} parsed in the base it was validated in"
        if not arms:
            ctx.bad(construct, f"no dedicated {ty} arm with an int() conversion", j.loc())
            continue
        calls = [ast.unparse(x) for s in arms[0][3] for x in ast.walk(s) if isinstance(x, ast.Call) and isinstance(x.func, ast.Name) and x.func.id == "int"]
        own_arm = arms[0][1] == {ty}
        (ctx.ok(construct, j.loc(arms[0][0])) if own_arm and all(c in want for c in calls) else
         ctx.bad(construct, f"{ty} values are converted with {calls} (arm for {sorted(arms[0][1])}): values accepted by set_value (leading zeros, "
                 "unprefixed hex) raise or get another value in JSON only", f"{j.module.relpath}:{arms[0][2].lineno}"))


def r06_9(ctx):
    """R06.9 a default taken over from sdkconfig is validated like a user value: Symbol._inject_default_value rejects the
    stored value through Symbol.value_is_valid (the single form check, including hex non-negativity) before it rewrites
    the defaults."""
    repo = ctx.repo
    inj = repo.func(f"{CORE}:Symbol._inject_default_value")
    ctx.analysed(inj.qual)
    first = [n for n in inj.node.body if not (isinstance(n, ast.Expr) and isinstance(n.value, ast.Constant))][0]
    construct = "Symbol._inject_default_value/stored value checked with value_is_valid before it becomes a default"
    ok = isinstance(first, ast.If) and "not self.value_is_valid(" in ast.unparse(first.test) and isinstance(first.body[-1], ast.Return)
    stores = [n for n in ast.walk(inj.node) if isinstance(n, ast.Assign) and ast.unparse(n.targets[0]) == "self.defaults"]
    ok = ok and bool(stores) and all(s.lineno > first.lineno for s in stores)
    (ctx.ok(construct, inj.loc(first)) if ok else
     ctx.bad(construct, "the injected default bypasses Symbol.value_is_valid (an inline per-type check forgets e.g. that hex values must be non-negative): a malformed "
             "default-marked entry becomes the option's value in every output", inj.loc(first)))


def r06_10(ctx):
    """R06.10 number forms: (a) the float validator decides by float() + math.isfinite() and rejects nothing on character
    classes (overflowing literals rejected, exponent notation accepted); (b) no consumer parses a value with an
    auto-detected base; (c) every hex-prefix test knows both spellings 0x / 0X."""
    from .common import float_validator_shape, hex_prefix_both_cases, no_autodetected_base
    float_validator_shape(ctx)
    mods = [CORE, "esp_kconfiglib.deprecated", "kconfgen.core", "kconfserver.core", "esp_menuconfig.app", "esp_menuconfig.model",
            "esp_menuconfig.formatting", "esp_idf_kconfig.gen_kconfig_doc"]
    mods = [m for m in mods if m in ctx.repo.modules]
    no_autodetected_base(ctx, mods, "a hex value without 0x is read as decimal and an int with leading zeros raises ValueError, while the header and "
                         "CMake output render the base-16 / base-10 reading")
    hex_prefix_both_cases(ctx, mods)


def r06_11(ctx):
    """R06.11 the flags computed together with a numeric value are recomputed with it (C03 R03.7): a `set` flag left over
    from an earlier evaluation disables the user value and the defaults, and the option exposes '' although something
    provides a value."""
    from . import c03
    from .common import delegate
    delegate(ctx, c03.r03_7, lambda c: True)

def r06_12(ctx):
    """R06.12 the integer form check is int() itself (no character-class shortcut in _is_base_n)."""
    from .common import int_validator_shape
    int_validator_shape(ctx)

def r06_13(ctx):
    """R06.13 the JSON emitter converts a number only when there is one: at every int()/float() applied to the option's own text in
    get_json_values, for each symbol type the arm admits, the tests on the way imply that the text is non-empty - a visible
    int/hex/float option may have no value at all (`\"\"`), and `float('')` / `int('', 16)` raise out of every generator that
    uses get_json_values (JSON, config server)."""
    from .common import FIVE_TYPES, facts_imply, type_atom_truth
    repo = ctx.repo
    f = repo.func("kconfgen.core:get_json_values.<locals>.write_node")
    ctx.analysed(f.qual)
    res = Resolver(f.node)
    fl = Flow(f.node, resolver=res).run()
    own = {ast.unparse(n.targets[0]) for n in ast.walk(f.node) if isinstance(n, ast.Assign) and len(n.targets) == 1 and isinstance(n.targets[0], ast.Name)
           and ast.unparse(n.value).endswith(".str_value")}
    n_conv = 0
    for c in ast.walk(f.node):
        if not (isinstance(c, ast.Call) and isinstance(c.func, ast.Name) and c.func.id in ("int", "float") and c.args):
            continue
        a = ast.unparse(c.args[0])
        if a not in own and not a.endswith(".str_value"):
            continue
        n_conv += 1
        gs = fl.guards_at(c) or set()
        construct = f"get_json_values.<locals>.write_node/{ast.unparse(c)[:40]} only of a non-empty text"
        bad_ty = None
        for ty in FIVE_TYPES:
            fixed = lambda leaf, ty=ty: type_atom_truth(repo, "kconfgen.core", leaf, ty)  # noqa: E731
            # is this type admitted at all by the type tests on the way?
            if facts_imply(gs, "False_", fixed=lambda leaf, ty=ty: (type_atom_truth(repo, "kconfgen.core", leaf, ty) if leaf != "False_" else False)):
                continue
            if not facts_imply(gs, res.text(c.args[0]), fixed=fixed) and not facts_imply(gs, a, fixed=fixed):
                bad_ty = ty
                break
        if bad_ty:
            ctx.bad(construct, f"for a {bad_ty} option the conversion is reached under {sorted(gs)}, which does not exclude the empty text: "
                    f"`{c.func.id}('')` raises ValueError", f.loc(c))
        else:
            ctx.ok(construct, f.loc(c))
    if n_conv < 3:
        raise AnalysisError(f"only {n_conv} conversions of the option's own text in get_json_values")
    # null stands for `a number option without a value` only: a string option's empty text is the value "" in every other format
    nulls = [st for st in ast.walk(f.node) if isinstance(st, ast.Assign) and isinstance(st.value, ast.Constant) and st.value.value is None
             and any(isinstance(t, ast.Name) for t in st.targets)]
    for st in nulls:
        gs = fl.guards_at(st) or set()
        construct = "get_json_values.<locals>.write_node/null only for a number option without a value"
        reach = [ty for ty in ("STRING", "BOOL") if not facts_imply(gs, "False_", fixed=lambda leaf, ty=ty: (type_atom_truth(repo, "kconfgen.core", leaf, ty) if leaf != "False_" else False))]
        (ctx.bad(construct, f"`{ast.unparse(st)}` is reachable for a {reach[0]} option (guards {sorted(gs)}): the empty string is written as \"\" to sdkconfig, header and "
                 "CMake but as null to JSON", f.loc(st)) if reach else ctx.ok(construct, f.loc(st)))


def r06_14(ctx):
    """R06.14 the active range is looked up for every option, visible or not: in Symbol.str_value each range search iterates
    `self.ranges` itself - not a filtered or conditional view of it - and is not placed under a visibility test. A promptless or
    currently hidden option still gets a value (defaults, set), and it is the clamp that keeps it inside its range."""
    from .common import EVALUATED, expand_locals, parse_key
    repo = ctx.repo
    f = repo.func(f"{CORE}:Symbol.str_value")
    ctx.analysed(f.qual)
    fl = Flow(f.node, resolver=Resolver(f.node)).run()
    loops = [n for n in ast.walk(f.node) if isinstance(n, ast.For) and "self.ranges" in ast.unparse(n.iter)]
    if len(loops) < 2:
        raise AnalysisError(f"only {len(loops)} range searches in Symbol.str_value")
    for i, lp in enumerate(loops):
        construct = f"Symbol.str_value/range search #{i + 1} covers all ranges of every option"
        it = ast.unparse(lp.iter)
        gs = fl.guards_at(lp) or set()
        vis = [k for k, p in gs if any(t in expand_locals(f.node, parse_key(k)) for t in (".visibility", "vis"))]
        if it != "self.ranges":
            ctx.bad(construct, f"the search iterates `{it}`: for some options no range is ever active and the value is exposed unclamped", f.loc(lp))
        elif vis:
            ctx.bad(construct, f"the search runs only under {sorted(vis)}: an invisible option's default or `set` value is exposed unclamped", f.loc(lp))
        else:
            ctx.ok(construct, f.loc(lp))


def r06_15(ctx):
    """R06.15 the text and its numeric shadow come from the same entry: the `set` / `set default` searches of Symbol.str_value stop at
    the first active entry - if the search went on, the `else` arm of a later inactive entry would reset the number the clamp
    compares (val_num := 0) while the text keeps the earlier literal, and an out-of-range literal passes unclamped."""
    from .common import first_match_loops
    n = first_match_loops(ctx, [f"{CORE}:Symbol.str_value"], "the clamp then compares another number than the text that is exposed",
                          suffixes=(".weak_rev_values", ".rev_values"))
    if n < 4:
        raise AnalysisError(f"only {n} set / set default searches found in Symbol.str_value")


def r06_16(ctx):
    """R06.16 text that comes from somewhere else is exposed only after the form check of the option's type: in the int/hex and float
    branches of Symbol.str_value every assignment of the result text from another symbol's value (`default OTHER`) or from a `set`
    literal is reached only with `_is_base_n(<that text>, base)` / `is_float(<that text>)` established. (The user value is
    checked by set_value, R06.1.) **Known findings**: the two `default` arms expose `sym.str_value` unchecked - `config I int
    default S` with the string option S = \"abc\" evaluates to `abc`, the header gets `#define CONFIG_I abc` and the JSON emitter
    raises ValueError."""
    from .common import FIVE_TYPES, facts_imply, type_atom_truth
    repo = ctx.repo
    f = repo.func(f"{CORE}:Symbol.str_value")
    ctx.analysed(f.qual)
    res = Resolver(f.node)
    fl = Flow(f.node, resolver=res).run()
    result = "val"
    n = 0
    seen = {}
    for st in ast.walk(f.node):
        if not (isinstance(st, ast.Assign) and len(st.targets) == 1 and ast.unparse(st.targets[0]) == result):
            continue
        srcs = [x for x in ast.walk(st.value) if isinstance(x, ast.Attribute) and x.attr in ("str_value", "name") and isinstance(x.ctx, ast.Load)
                and not (isinstance(x.value, ast.Name) and x.value.id == "self")]
        if not srcs:
            continue
        gs = fl.guards_at(st) or set()
        admitted = [ty for ty in FIVE_TYPES if not facts_imply(gs, "False_", fixed=lambda leaf, ty=ty: (type_atom_truth(repo, CORE, leaf, ty, attr="orig_type") if leaf != "False_" else False))]
        num = [ty for ty in admitted if ty in ("INT", "HEX", "FLOAT")]
        if not num or "STRING" in admitted:
            continue
        n += 1
        src = ast.unparse(srcs[0])
        kind = "FLOAT" if num == ["FLOAT"] else "INT/HEX"
        loops = [lp for lp in ast.walk(f.node) if isinstance(lp, ast.For) and any(x is st for x in ast.walk(lp))]
        its = " ".join(ast.unparse(lp.iter) for lp in loops)
        role = "default" if ".defaults" in its else "set default" if "weak_rev_values" in its else "set" if "rev_values" in its else "other"
        k = (kind, role)
        seen[k] = seen.get(k, 0) + 1
        construct = f"Symbol.str_value/{kind} {role} arm exposes foreign text only after its form check"
        checked = any((("_is_base_n(" in g or "is_float(" in g) and (src in g or res.text(srcs[0]) in g) and p) for g, p in gs)
        (ctx.ok(construct, f.loc(st), source=src) if checked else
         ctx.bad(construct, f"`{ast.unparse(st)[:60]}` takes the text of `{src}` as the option's value without `_is_base_n` / `is_float` having accepted it: a "
                 "non-number is exposed for a number option, the generators write it verbatim or raise", f.loc(st)))
    if n < 6:
        raise AnalysisError(f"only {n} foreign text sources found in the numeric branches of Symbol.str_value")


def r06_17(ctx):
    """R06.17 (a) the value is checked and clamped against the *first* range whose condition holds, in the evaluator as in the dialog
    (C17 R17.4); (b) a condition over a huge int and a float can be evaluated (C09 R09.11) - a range or default condition that raises
    takes str_value and every generator with it."""
    from . import c09, c17
    from .common import delegate
    delegate(ctx, c17.r17_4, lambda c: 'Symbol.str_value' in c)
    delegate(ctx, c09.r09_11, lambda c: True)


def r06_18(ctx):
    """R06.18 the generators expose a range as numbers of the first active entry: in kconfgen every loop over an option's
    `ranges` uses the two bound symbols through `.str_value` only (a raw Symbol object in the JSON tree makes json.dump raise
    TypeError - the `menuconfig` arm of write_json_menus did that: fixed defect 5.55) and ends at the first entry whose
    condition holds, like Symbol.str_value."""
    from .common import first_match_loops, own_nodes
    repo = ctx.repo
    n_loops = 0
    quals = []
    for f in repo.funcs_in("kconfgen.core"):
        loops = [n for n in own_nodes(repo, f) if isinstance(n, ast.For) and ast.unparse(n.iter).endswith(".ranges")]
        if not loops:
            continue
        ctx.analysed(f.qual)
        quals.append(f.qual)
        for lp in loops:
            n_loops += 1
            names = [t.id for t in ast.walk(lp.target) if isinstance(t, ast.Name)]
            bounds = set(names[:2]) if len(names) >= 3 else set()
            construct = f"{f.short}/the bounds of `{ast.unparse(lp.iter)}` are exposed through str_value"
            if not bounds:
                ctx.bad(construct, f"the loop target `{ast.unparse(lp.target)}` does not name the two bounds", f.loc(lp))
                continue
            # names holding a bound: the loop targets, and what iterates over a literal tuple / list of them
            holders = set(bounds)
            feeding = set()
            changed = True
            while changed:
                changed = False
                for x in ast.walk(lp):
                    it, tg = (x.iter, x.target) if isinstance(x, (ast.For, ast.comprehension)) else (None, None)
                    if isinstance(it, (ast.Tuple, ast.List)) and it.elts and all(isinstance(e, ast.Name) and e.id in holders for e in it.elts) and isinstance(tg, ast.Name):
                        feeding |= {id(e) for e in it.elts}
                        if tg.id not in holders:
                            holders.add(tg.id)
                            changed = True
            raw = [x for x in ast.walk(lp) if isinstance(x, ast.Name) and x.id in holders and isinstance(x.ctx, ast.Load) and id(x) not in feeding
                   and not (isinstance(repo.parent(x), ast.Attribute) and repo.parent(x).attr in ("str_value", "name"))]
            (ctx.bad(construct, f"`{raw[0].id}` (a Symbol object) is used as it is at line {raw[0].lineno}: json.dump raises TypeError for an option with an active range",
                     f.loc(raw[0])) if raw else ctx.ok(construct, f.loc(lp)))
            construct = f"{f.short}/the search over `{ast.unparse(lp.iter)}` can end early"
            (ctx.ok(construct, f.loc(lp)) if any(isinstance(x, (ast.Break, ast.Return)) for x in ast.walk(lp)) else
             ctx.bad(construct, "the loop runs over every entry: the last active range is reported, the evaluator clamps to the first", f.loc(lp)))
    if not n_loops:
        raise AnchorError("kconfgen.core: no loop over an option's ranges")
    first_match_loops(ctx, quals, "the JSON reports another range than the one the value is clamped to", suffixes=(".ranges",))


def r06_19(ctx):
    """R06.19 what passes the int/hex form check is a number for every consumer: _is_base_n() - int() succeeding *and* the text
    having the plain form - is folded over witness texts that int() accepts: `1_0`, `0x1_f` (digit-group underscores), ` 12`,
    `12 `, `1f\n` (surrounding whitespace), `+12`, `+0x1f` (plus sign) must be refused, `12`, `-12`, `007`, `1f`, `0x1F`, `0X1f`
    must pass. The text is exposed as written (R06.14), for hex behind an added `0x`: `#define CONFIG_H 0x1_f` / `0x 1f` /
    `0x+0x1f` do not compile while the JSON says 31 (fixed defects 5.56, 5.57)."""
    from ..foldcheck import Unfoldable, fold_str_expr
    repo = ctx.repo
    f = repo.func(f"{CORE}:_is_base_n")
    ctx.analysed(f.qual)
    prm = f.node.args.args[0].arg

    def run(stmts, env):
        """fold the function for a text that int() accepts: the conversion attempt is a no-op, its handlers are not taken"""
        for st in stmts:
            if isinstance(st, ast.Expr) and isinstance(st.value, ast.Constant):
                continue
            if isinstance(st, ast.Expr) and isinstance(st.value, ast.Call) and ast.unparse(st.value.func) == "int":
                continue
            if isinstance(st, ast.Assign) and isinstance(st.value, ast.Call) and ast.unparse(st.value.func) == "int":
                continue
            if isinstance(st, ast.Pass):
                continue
            if isinstance(st, ast.Return):
                return ("ret", True if st.value is None and False else fold_str_expr(st.value, env) if st.value is not None else None)
            if isinstance(st, ast.If):
                r = run(st.body if fold_str_expr(st.test, env) else st.orelse, env)
                if r is not None:
                    return r
                continue
            if isinstance(st, ast.Try) and not st.finalbody:
                r = run(st.body, env)
                if r is None:
                    r = run(st.orelse, env)
                if r is not None:
                    return r
                continue
            raise Unfoldable(type(st).__name__)
        return None
    for w, want in (("1_0", False), ("0x1_f", False), (" 12", False), ("12 ", False), ("1f\n", False), ("+12", False), ("+0x1f", False),
                    ("12", True), ("-12", True), ("007", True), ("1f", True), ("0x1F", True), ("0X1f", True)):
        construct = f"_is_base_n/`{w!r}` {'passes' if want else 'is refused'}"
        try:
            r = run(f.node.body, {prm: w})
        except Unfoldable as e:
            raise AnalysisError(f"_is_base_n: cannot be folded over a witness text ({e})")
        if r is None:
            raise AnalysisError("_is_base_n: falls off the end for a witness text")
        got = bool(r[1])
        (ctx.ok(construct, f.loc()) if got == want else
         ctx.bad(construct, ("int() accepts it and so does the form check: the text is exposed as written, the C header does not compile and the formats disagree" if not want
                             else "a well-formed number is refused by the form check"), f.loc()))


def r06_20(ctx):
    """R06.20 the condition of a range or default can be evaluated for every operand: _sym_to_num() converts a fractional
    literal of unknown type, expr_value() passes no operand through float() (C09 R09.16) - otherwise `range 0 10 if GAIN >= 8.0`
    is decided by comparing text and the value leaves its active range."""
    from . import c09
    from .common import delegate
    delegate(ctx, c09.r09_16, lambda c: True)


def r06_21(ctx):
    """R06.21 a range applies under the dependencies of the definition it was written in: _propagate_deps() ANDs the node's full
    dependency (own `depends on` and parents) into every range condition (C01 R01.4) - with the enclosing dependency alone the
    range of a definition whose `depends on` is false stays active and the value is clamped to the wrong bounds."""
    from .common import delegate
    delegate(ctx, c01.r01_4, lambda c: "ranges" in c)


def rules():
    return [("R06.21", r06_21, 1), ("R06.20", r06_20, 2), ("R06.19", r06_19, 13), ("R06.18", r06_18, 3), ("R06.17", r06_17, 3), ("R06.16", r06_16, 6), ("R06.15", r06_15, 4), ("R06.14", r06_14, 2), ("R06.13", r06_13, 3), ("R06.12", r06_12, 1), ("R06.11", r06_11, 3), ("R06.10", r06_10, 12), ("R06.6", r06_6, 14), ("R06.7", r06_7, 3), ("R06.1", r06_1, 7), ("R06.2", r06_2, 6), ("R06.3", r06_3, 2), ("R06.4", r06_4, 20), ("R06.5", r06_5, 3), ("R06.8", r06_8, 12), ("R06.9", r06_9, 1)]
