"""C09 - cyclic definitions are rejected; accepted trees always evaluate (necessary structural conditions)."""
from __future__ import annotations

import ast
from typing import Dict, List, Optional, Set, Tuple

from ..flow import AnalysisError, Flow, Resolver
from ..repo import AnchorError
from . import c03

PROPERTY = "C09"
CORE = "esp_kconfiglib.core"
LEVEL_TEXT = (
    "Static analysis of esp_kconfiglib/core.py: the dependency-loop check walks Symbol._dependents, so (R09.1) every "
    "component the evaluators read dynamically must be a registered edge (same read-set comparison as C03) and "
    "_depend_on must reach every operand; (R09.2) construction order finalize -> build_dep -> loop check over all "
    "defined symbols -> choice deps, with the KconfigError not swallowed; (R09.3) shape of the DFS (flags, choice "
    "membership edges, loop reporting); (R09.4) value-set analysis over {0,2} showing the `val == 1` guard is dead."
)


def r09_1(ctx):
    """R09.1 the loop check sees every evaluation edge: evaluator read set is a subset of the registered
    _dependents edges (a read without an edge is a cycle the DFS cannot see -> accepted tree, unbounded recursion)."""
    c03.r03_1(ctx)


def r09_1b(ctx):
    """R09.1b _depend_on reaches every operand of every expression and adds the edge for each non-constant leaf."""
    before = len(ctx.instances)
    c03.r03_5(ctx)
    # keep only the _depend_on instances
    keep = ctx.instances[:before] + [i for i in ctx.instances[before:] if i.construct.startswith("_depend_on/")]
    dropped = [i for i in ctx.instances[before:] if not i.construct.startswith("_depend_on/")]
    ctx.instances[:] = keep
    ctx.findings[:] = [f for f in ctx.findings if not (f.rule == ctx._rule and any(f.construct == d.construct for d in dropped))]


def _calls(node: ast.AST, name: str, res: Optional[Resolver] = None) -> List[ast.Call]:
    out = []
    for n in ast.walk(node):
        if isinstance(n, ast.Call):
            t = res.text(n.func) if res is not None else ast.unparse(n.func)
            if t == name or t.endswith("." + name):
                out.append(n)
    return out


def r09_2(ctx):
    """R09.2 order of construction in Kconfig.__call__: _finalize_node, then _build_dep, then the loop check over all
    unique_defined_syms, then _add_choice_deps; the loop check's KconfigError is not caught on the way out."""
    repo = ctx.repo
    f = repo.func(f"{CORE}:Kconfig.__call__")
    ctx.analysed(f.qual)
    res = Resolver(f.node)
    names = {"fin": "self._finalize_node", "build": "self._build_dep", "loop": "_check_dep_loop_sym", "choice": "self._add_choice_deps"}

    loop_iters = {}
    for lp in ast.walk(f.node):
        if isinstance(lp, ast.For) and any(isinstance(x, ast.Call) and res.text(x.func) == names["loop"] for x in ast.walk(lp)):
            loop_iters[id(lp.iter)] = "loop"

    def events(node):
        out = []
        if id(node) in loop_iters:
            return [loop_iters[id(node)]]
        if isinstance(node, (ast.If, ast.For, ast.While, ast.With, ast.Try)):
            return out
        for n in ast.walk(node):
            if isinstance(n, ast.Call):
                t = res.text(n.func)
                for k, v in names.items():
                    if t == v:
                        out.append(k)
        return out

    fl = Flow(f.node, resolver=res, events=events).run()
    sites: Dict[str, ast.Call] = {}
    for n in ast.walk(f.node):
        if isinstance(n, ast.Call):
            t = res.text(n.func)
            for k, v in names.items():
                if t == v and k not in sites:
                    sites[k] = n
    for k in names:
        if k not in sites:
            raise AnchorError(f"Kconfig.__call__ no longer calls {names[k]}")
    order = [("fin", "build"), ("build", "loop"), ("loop", "choice")]
    for a, b in order:
        construct = f"Kconfig.__call__/{names[a]} precedes {names[b]}"
        evs = fl.events_at(sites[b])
        if evs is None:
            ctx.bad(construct, f"{names[b]} is unreachable", f.loc(sites[b]))
        elif a in evs:
            ctx.ok(construct, f.loc(sites[b]))
        else:
            ctx.bad(construct, f"{names[b]} can run on a path on which {names[a]} has not run", f.loc(sites[b]))
    # loop check over all defined symbols, unconditional
    lc = sites["loop"]
    loop = None
    n: Optional[ast.AST] = lc
    while n is not None and n is not f.node:
        n = repo.parent(n)
        if isinstance(n, ast.For):
            loop = n
            break
    construct = "Kconfig.__call__/loop check covers every defined symbol"
    gs = fl.guards_at(lc) or set()
    if loop is None or res.text(loop.iter) != "self.unique_defined_syms" or ast.unparse(lc.args[0]) != ast.unparse(loop.target):
        ctx.bad(construct, "the dependency-loop check does not iterate over self.unique_defined_syms", f.loc(lc))
    elif gs:
        ctx.bad(construct, f"the loop check is conditional: {sorted(gs)}", f.loc(lc))
    elif any(isinstance(x, (ast.Break, ast.Continue)) for x in ast.walk(loop)):
        ctx.bad(construct, "the loop over defined symbols can be cut short (break/continue)", f.loc(loop))
    else:
        ctx.ok(construct, f.loc(loop))
    construct = "Kconfig.__call__/loop check starts each DFS with ignore_choice=False"
    ok = len(lc.args) == 2 and isinstance(lc.args[1], ast.Constant) and lc.args[1].value is False
    (ctx.ok(construct, f.loc(lc)) if ok else ctx.bad(construct, "top-level call does not pass ignore_choice=False", f.loc(lc)))
    # not swallowed: no enclosing try in __call__ / __init__ around the call chain that catches KconfigError/Exception
    for q, callee in ((f.qual, "_check_dep_loop_sym"), (f"{CORE}:Kconfig.__init__", "self")):
        g = repo.func(q)
        for c in ast.walk(g.node):
            if isinstance(c, ast.Try):
                inside = any(isinstance(x, ast.Call) and (res.text(x.func) == "_check_dep_loop_sym" if g is f else ast.unparse(x.func) == "self")
                             for b in c.body for x in ast.walk(b))
                if not inside:
                    continue
                for h in c.handlers:
                    ht = ast.unparse(h.type) if h.type is not None else "BaseException"
                    if any(t in ht for t in ("KconfigError", "Exception", "BaseException")) and not any(isinstance(x, ast.Raise) for x in ast.walk(h)):
                        ctx.bad(f"{g.short}/loop error swallowed", f"`except {ht}` around the loop check does not re-raise", g.loc(h))
    ctx.ok("Kconfig.__call__/loop error propagates to the constructor's caller", f.loc(lc), nontrivial=False)


def _trivial(st: ast.stmt) -> bool:
    """statements without effect on the analysed protocol: pass, docstrings, logging calls"""
    if isinstance(st, ast.Pass):
        return True
    if isinstance(st, ast.Expr):
        if isinstance(st.value, ast.Constant):
            return True
        if isinstance(st.value, ast.Call) and ast.unparse(st.value.func).startswith(("log.", "print")):
            return True
    return False


def _guards_subset(gs: Set[Tuple[str, bool]], allowed: Set[Tuple[str, bool]]) -> List[Tuple[str, bool]]:
    return sorted(g for g in gs if g not in allowed)


def r09_3(ctx):
    """R09.3 shape of the loop-detecting DFS: marks, edges followed (all _dependents, the choice of a member unless just
    left, all members of a choice except the entry), results propagated, loop reported by raising KconfigError."""
    repo = ctx.repo
    f = repo.func(f"{CORE}:_check_dep_loop_sym")
    g = repo.func(f"{CORE}:_check_dep_loop_choice")
    h = repo.func(f"{CORE}:_found_dep_loop")
    ctx.analysed(f.qual, g.qual, h.qual)
    sym, ign = [a.arg for a in f.node.args.args][:2]
    res = Resolver(f.node)
    fl = Flow(f.node, resolver=res).run()
    unvisited = (f"{sym}._visited", False)
    # (a) dependents edge
    loops = [n for n in ast.walk(f.node) if isinstance(n, ast.For) and res.text(n.iter) == f"{sym}._dependents"]
    construct = "_check_dep_loop_sym/follows every _dependents edge"
    if not loops:
        ctx.bad(construct, f"no loop over {sym}._dependents", f.loc())
    else:
        lp = loops[0]
        dep = ast.unparse(lp.target)
        cs = _calls(lp, "_check_dep_loop_sym")
        cc = _calls(lp, "_check_dep_loop_choice")
        msgs = []
        if not cs or not all(ast.unparse(c.args[0]) == dep and isinstance(c.args[1], ast.Constant) and c.args[1].value is False for c in cs):
            msgs.append("dependent symbols are not visited with ignore_choice=False (a loop through a second choice is missed)")
        if not cc or not all(ast.unparse(c.args[0]) == dep and isinstance(c.args[1], ast.Constant) and c.args[1].value is None for c in cc):
            msgs.append("dependent choices are not visited with skip=None")
        extra = _guards_subset(fl.guards_at(lp) or set(), {unvisited})
        if extra:
            msgs.append(f"the edge loop is additionally guarded by {extra}")
        if any(isinstance(x, (ast.Break, ast.Continue)) for x in ast.walk(lp)):
            msgs.append("the edge loop can skip dependents (break/continue)")
        for c in cs + cc:
            ex = [gd for gd in _guards_subset(fl.guards_at(c) or set(), {unvisited}) if "Choice" not in gd[0]]
            if ex:
                msgs.append(f"recursive visit guarded by {ex}")
        (ctx.bad(construct, "; ".join(msgs), f.loc(lp)) if msgs else ctx.ok(construct, f.loc(lp)))
    # (b) membership edge
    mem = [c for c in _calls(f.node, "_check_dep_loop_choice") if ast.unparse(c.args[0]) == f"{sym}.choice"]
    construct = "_check_dep_loop_sym/enters the choice of a member"
    if not mem:
        ctx.bad(construct, f"no _check_dep_loop_choice({sym}.choice, {sym})", f.loc())
    else:
        c = mem[0]
        extra = _guards_subset(fl.guards_at(c) or set(), {unvisited, (f"{sym}.choice", True), (ign, False)})
        ok = ast.unparse(c.args[1]) == sym and not extra and (ign, False) in (fl.guards_at(c) or set())
        (ctx.ok(construct, f.loc(c)) if ok else ctx.bad(construct, f"membership edge changed (skip={ast.unparse(c.args[1])}, extra guards {extra})", f.loc(c)))
    # (c) results propagated, (d) marks
    for fn, item in ((f, sym), (g, [a.arg for a in g.node.args.args][0])):
        r2 = Resolver(fn.node)
        f2 = Flow(fn.node, resolver=r2).run()
        rec_calls = _calls(fn.node, "_check_dep_loop_sym") + _calls(fn.node, "_check_dep_loop_choice")
        rec_calls = [c for c in rec_calls if repo.enclosing_func(c) is fn]
        construct = f"{fn.short}/every recursive result is propagated"
        bad = []
        for c in rec_calls:
            st = repo.enclosing_stmt(c)
            if not (isinstance(st, ast.Assign) and isinstance(st.targets[0], ast.Name)):
                bad.append(f"line {c.lineno}: result not stored")
                continue
            var = st.targets[0].id
            par = repo.parent(st)
            body = None
            for fld in ("body", "orelse"):
                b = getattr(par, fld, None)
                if isinstance(b, list) and st in b:
                    body = b
            rest = [x for x in (body[body.index(st) + 1:] if body else []) if not _trivial(x)]
            # every way on from the store on which the result is a loop returns `_found_dep_loop(<result>, <item>)` before anything else
            # happens - written as `if loop: return ..`, or as `if not loop: continue` followed by the return
            from ..pathenum import RET, Enumerator, Path

            def on_stmt(s_, p_, loops_):
                if isinstance(s_, ast.Return):
                    p_.events.append(("RETURN", s_.lineno, s_))
                elif not _trivial(s_):
                    p_.events.append(("OTHER", s_.lineno, s_))
            ok = bool(rest)
            n_pos = 0
            for p_, status in (Enumerator(on_stmt, max_iter=1).run(rest, Path()) if rest else []):
                if any((c_ == var and not pol) or (c_ == f"not {var}" and pol) or (c_ in (f"{var} is None",) and pol) for c_, pol, _, _ in p_.conds):
                    continue  # no loop was found below
                if not any((c_ == var and pol) or (c_ == f"not {var}" and not pol) or (c_ in (f"{var} is not None",) and pol) for c_, pol, _, _ in p_.conds):
                    ok = False  # the result is not looked at on this path
                    break
                n_pos += 1
                first = p_.events[0] if p_.events else None
                if not (status == RET and first and first[0] == "RETURN" and isinstance(first[2].value, ast.Call)
                        and ast.unparse(first[2].value.func) == "_found_dep_loop" and [ast.unparse(a) for a in first[2].value.args] == [var, item]):
                    ok = False
                    break
            ok = ok and n_pos > 0
            if not ok:
                bad.append(f"line {c.lineno}: not followed by `if {var}: return _found_dep_loop({var}, {item})`")
        (ctx.bad(construct, "; ".join(bad), fn.loc()) if bad or not rec_calls else ctx.ok(construct, fn.loc(), calls=len(rec_calls)))
        construct = f"{fn.short}/visited marks 1 before, 2 after, loop on re-entry"
        marks = [(n.lineno, ast.unparse(n.value)) for n in ast.walk(fn.node) if isinstance(n, ast.Assign)
                 and ast.unparse(n.targets[0]) == f"{item}._visited"]
        m1 = [l for l, v in marks if v == "1"]
        m2 = [l for l, v in marks if v == "2"]
        first_rec = min((c.lineno for c in rec_calls), default=0)
        last_rec = max((c.lineno for c in rec_calls), default=0)
        rets = [n for n in ast.walk(fn.node) if isinstance(n, ast.Return) and n.value is not None and ast.unparse(n.value) == f"({item},)"]
        ok = bool(m1) and bool(m2) and m1[0] < first_rec and m2[0] > last_rec and bool(rets)
        if ok:
            gsr = f2.guards_at(rets[0]) or set()
            ok = (f"{item}._visited", True) in gsr and (f"{item}._visited == 2", False) in gsr
        (ctx.ok(construct, fn.loc()) if ok else ctx.bad(construct, "the 0/1/2 marking protocol changed", fn.loc()))
    # (e) choice members
    ch, skip = [a.arg for a in g.node.args.args][:2]
    rg = Resolver(g.node)
    fg = Flow(g.node, resolver=rg).run()
    lp = [n for n in ast.walk(g.node) if isinstance(n, ast.For) and rg.text(n.iter) == f"{ch}.syms"]
    construct = "_check_dep_loop_choice/visits every member except the entry"
    if not lp:
        ctx.bad(construct, f"no loop over {ch}.syms", g.loc())
    else:
        cs = _calls(lp[0], "_check_dep_loop_sym")
        tv = ast.unparse(lp[0].target)
        ok = bool(cs) and ast.unparse(cs[0].args[0]) == tv and isinstance(cs[0].args[1], ast.Constant) and cs[0].args[1].value is True
        if ok:
            extra = _guards_subset(fg.guards_at(cs[0]) or set(), {(f"{ch}._visited", False), (f"{tv} is {skip}", False),
                                                                  (f"{ch}.syms[*] is {skip}", False)})
            ok = not extra
        (ctx.ok(construct, g.loc(lp[0])) if ok else ctx.bad(construct, "members are not all visited with ignore_choice=True under `sym is not skip`", g.loc(lp[0])))
    # (f) reporting
    rh = Resolver(h.node)
    fh = Flow(h.node, resolver=rh).run()
    raises = [n for n in ast.walk(h.node) if isinstance(n, ast.Raise) and n.exc is not None and "KconfigError" in ast.unparse(n.exc)]
    loopv, cur = [a.arg for a in h.node.args.args][:2]
    construct = "_found_dep_loop/raises KconfigError when the loop is closed"
    if not raises:
        ctx.bad(construct, "no `raise KconfigError`", h.loc())
    else:
        gs = fh.guards_at(raises[0]) or set()
        extra = [x for x in gs if x != (f"{cur} is {loopv}[0]", True)]
        ok = (f"{cur} is {loopv}[0]", True) in gs and not [x for x in extra if "item" not in x[0]]
        rets = [n for n in ast.walk(h.node) if isinstance(n, ast.Return)]
        ok = ok and any(ast.unparse(r.value) == f"{loopv} + ({cur},)" for r in rets if r.value is not None)
        (ctx.ok(construct, h.loc(raises[0])) if ok else ctx.bad(construct, f"guards {sorted(gs)}", h.loc(raises[0])))


# ----------------------------------------------------------------------------- R09.4 value sets
TOP = None


def _vs_union(a, b):
    if a is TOP or b is TOP:
        return TOP
    return a | b


class ValueSets:
    """Flow-insensitive value sets of int-valued locals/expressions over subsets of the integers, TOP = unknown."""

    def __init__(self, fn: ast.FunctionDef, trusted_attrs: Set[str], trusted_calls: Set[str], user_value: Set[int]):
        self.fn = fn
        self.trusted_attrs = trusted_attrs
        self.trusted_calls = trusted_calls
        self.user_value = frozenset(user_value)
        self.vars: Dict[str, object] = {}
        self.problems: List[Tuple[int, str]] = []
        assigns: Dict[str, List[ast.AST]] = {}
        for n in ast.walk(fn):
            if isinstance(n, ast.Assign) and len(n.targets) == 1 and isinstance(n.targets[0], ast.Name):
                assigns.setdefault(n.targets[0].id, []).append(n.value)
            elif isinstance(n, ast.Assign):
                for t in n.targets:
                    if isinstance(t, ast.Name):
                        assigns.setdefault(t.id, []).append(n.value)
        self.assigns = assigns
        for _ in range(6):
            changed = False
            for name, vals in assigns.items():
                acc: object = frozenset()
                for v in vals:
                    acc = _vs_union(acc, self.eval(v))
                if self.vars.get(name, frozenset()) != acc:
                    self.vars[name] = acc
                    changed = True
            if not changed:
                break

    def eval(self, e: ast.AST):
        if isinstance(e, ast.Constant):
            if isinstance(e.value, bool):
                return frozenset({int(e.value)})
            if isinstance(e.value, int):
                return frozenset({e.value})
            return TOP
        if isinstance(e, ast.Name):
            return self.vars.get(e.id, frozenset()) if e.id in self.assigns else TOP
        if isinstance(e, ast.Attribute):
            if e.attr in self.trusted_attrs:
                return frozenset({0, 2})
            if e.attr == "_user_value":
                return self.user_value
            return TOP
        if isinstance(e, ast.IfExp):
            return _vs_union(self.eval(e.body), self.eval(e.orelse))
        if isinstance(e, ast.Call):
            fn = ast.unparse(e.func)
            if fn in ("min", "max") and not e.keywords:
                acc: object = frozenset()
                for a in e.args:
                    acc = _vs_union(acc, self.eval(a))
                return acc
            if fn in ("min", "max") and len(e.args) == 1 and isinstance(e.args[0], (ast.GeneratorExp, ast.ListComp)) \
                    and all(k.arg == "default" for k in e.keywords):
                # max((<elt> for ...), default=<d>): one of the elements or the default
                acc = self.eval(e.args[0].elt)
                for k in e.keywords:
                    acc = _vs_union(acc, self.eval(k.value))
                return acc if e.keywords else acc
            if fn in self.trusted_calls:
                return frozenset({0, 2})
            return TOP
        if isinstance(e, ast.BinOp):
            l, r = self.eval(e.left), self.eval(e.right)
            if isinstance(e.op, ast.Sub) and l is not TOP and r is not TOP:
                return frozenset(a - b for a in l for b in r)
            if isinstance(e.op, ast.Mult) and l == frozenset({2}) and isinstance(e.right, (ast.Compare, ast.BoolOp, ast.IfExp, ast.UnaryOp)):
                return frozenset({0, 2})
            if l is not TOP and r is not TOP and isinstance(e.op, (ast.Add, ast.Mult, ast.FloorDiv)):
                opf = {ast.Add: lambda a, b: a + b, ast.Mult: lambda a, b: a * b, ast.FloorDiv: lambda a, b: a // b if b else 0}[type(e.op)]
                return frozenset(opf(a, b) for a in l for b in r)
            return TOP
        if isinstance(e, ast.Subscript) and isinstance(e.value, ast.Tuple):
            acc = frozenset()
            for x in e.value.elts:
                acc = _vs_union(acc, self.eval(x))
            return acc
        return TOP


def r09_4(ctx):
    """R09.4 the `val == 1` ValueError guard in Symbol.bool_value is dead: the value sets of the bool evaluators are
    closed over {0, 2} (constants, min/max, 2 - x, 2 * (comparison), visibility, expr_value, validated user values)."""
    repo = ctx.repo
    # the user value of a bool is constrained by value_is_valid: `value in (2, 0)`
    viv = repo.func(f"{CORE}:Symbol.value_is_valid")
    allowed: Optional[Set[int]] = None
    for n in ast.walk(viv.node):
        if isinstance(n, ast.Compare) and isinstance(n.ops[0], ast.In) and isinstance(n.comparators[0], ast.Tuple) \
                and all(isinstance(x, ast.Constant) and isinstance(x.value, int) for x in n.comparators[0].elts):
            allowed = {x.value for x in n.comparators[0].elts}
    if allowed is None:
        raise AnchorError("value_is_valid: no `value in (<ints>)` clause for bool")
    construct = "Symbol.value_is_valid/bool user values are 0 or 2"
    (ctx.ok(construct, viv.loc(), allowed=sorted(allowed)) if allowed <= {0, 2}
     else ctx.bad(construct, f"bool user values {sorted(allowed)} are accepted", viv.loc()))
    trusted_attrs = {"bool_value", "visibility", "_cached_bool_val", "_cached_vis"}
    trusted_calls = {"expr_value", "_visibility"}
    targets = [
        (f"{CORE}:Symbol.bool_value", "stored", "_cached_bool_val"),
        (f"{CORE}:Choice.bool_value", "returns", None),
        (f"{CORE}:expr_value", "returns", None),
        (f"{CORE}:_visibility", "returns", None),
    ]
    for q, mode, slot in targets:
        f = repo.func(q)
        ctx.analysed(q)
        vs = ValueSets(f.node, trusted_attrs, trusted_calls, allowed)
        exprs: List[ast.AST] = []
        if mode == "stored":
            for n in ast.walk(f.node):
                if isinstance(n, ast.Assign) and any(ast.unparse(t) == f"self.{slot}" for t in n.targets):
                    exprs.append(n.value)
        for n in ast.walk(f.node):
            if isinstance(n, ast.Return) and n.value is not None and repo.enclosing_func(n) is f:
                exprs.append(n.value)
        construct = f"{f.short}/result values within {{0, 2}}"
        worst: Set[int] = set()
        unknown = []
        for e in exprs:
            v = vs.eval(e)
            if v is TOP:
                unknown.append(ast.unparse(e)[:60])
            else:
                worst |= set(v)
        if unknown:
            raise AnalysisError(f"{f.short}: value set of {unknown[0]!r} not derivable")
        if worst <= {0, 2}:
            ctx.ok(construct, f.loc(), value_set=sorted(worst), expressions=len(exprs))
        else:
            ctx.bad(construct, f"the result can take the values {sorted(worst - {0, 2})}: an accepted tree can hit the "
                    "`val == 1` ValueError / compare wrongly with visibility", f.loc(), value_set=sorted(worst))


def r09_5(ctx):
    """R09.5 accepted trees evaluate without ValueError: every int()/float() conversion of a symbol value in the
    evaluators is a checked conversion (validity predicate, handler, or a value validated when it was stored) - a range
    bound or `set` value may be any symbol, including non-numeric ones."""
    from .common import checked_conversions, formatter_args_are_numbers
    checked_conversions(ctx, [f"{CORE}:Symbol.str_value"])
    formatter_args_are_numbers(ctx, [f"{CORE}:Symbol.str_value", f"{CORE}:Kconfig._header_string"])
    repo = ctx.repo
    ev = repo.func(f"{CORE}:expr_value")
    construct = "expr_value/number conversion failures fall back to string comparison"
    tries = [n for n in ast.walk(ev.node) if isinstance(n, ast.Try) and any("_sym_to_num" in ast.unparse(b) for b in n.body)]
    ok = bool(tries) and any("ValueError" in ast.unparse(h.type) for h in tries[0].handlers if h.type is not None)
    (ctx.ok(construct, ev.loc(tries[0]) if tries else ev.loc()) if ok else ctx.bad(construct, "_sym_to_num is called outside a ValueError handler", ev.loc()))
    f = repo.func(f"{CORE}:_depend_on")
    construct = "_depend_on/self-dependencies are registered too"
    fl = Flow(f.node).run()
    sc, ex = [a.arg for a in f.node.args.args][:2]
    leaf = [n for n in ast.walk(f.node) if isinstance(n, ast.Call) and ast.unparse(n.func) == f"{ex}._dependents.add"]
    gs = fl.guards_at(leaf[0]) if leaf else set()
    bad = [g for g in (gs or set()) if sc in g[0].replace(f"{ex}.is_constant", "")]
    (ctx.bad(construct, f"the edge is skipped under {bad}: a symbol that depends directly on itself has no self-edge for the loop check to find", f.loc(leaf[0]))
     if bad else ctx.ok(construct, f.loc(leaf[0]) if leaf else f.loc(), nontrivial=False))
    g = repo.func(f"{CORE}:_check_dep_loop_choice")
    construct = "_check_dep_loop_choice/in-progress members are not skipped"
    fg = Flow(g.node, resolver=Resolver(g.node)).run()
    calls = [n for n in ast.walk(g.node) if isinstance(n, ast.Call) and ast.unparse(n.func) == "_check_dep_loop_sym"]
    bad = []
    for c in calls:
        bad += [x for x in (fg.guards_at(c) or set()) if "_visited" in x[0] and "choice" not in x[0].split("._visited")[0].split(".")[-1] and not x[0].startswith(g.node.args.args[0].arg + "._visited")]
    (ctx.bad(construct, f"member visits are guarded by {bad}: a loop that closes on a member still on the search stack is not reported", g.loc(calls[0]))
     if bad else ctx.ok(construct, g.loc(calls[0]) if calls else g.loc(), nontrivial=False))


def r09_6(ctx):
    """R09.6 (a) code that handles `Symbol | Choice` values (the items of a reported loop, annotated union parameters) reads
    only attributes both classes have unless a type test guards the access - `Choice` has no `choice` slot, so reporting a
    loop through a choice would die with AttributeError instead of the Kconfig error; (b) the loop check starts from clean
    marks: nothing that runs before it in Kconfig.__call__ leaves `_visited` set (the DFS shares that slot with the
    unique-symbol tree walks); (c) reverse dependencies are built as (source AND condition) - the shape the sanity checks
    and `_warn_select_unsatisfied_deps` take apart with split_expr(..)[0] (C01 R01.6)."""
    from . import c01
    from ..callgraph import CallGraph
    from .common import delegate, union_attr_lint
    repo = ctx.repo
    sites = [(f"{CORE}:_found_dep_loop", "item")]
    for f in repo.funcs_in(CORE):
        for a in f.node.args.args:
            if a.annotation is not None and "Symbol" in ast.unparse(a.annotation) and "Choice" in ast.unparse(a.annotation) and "Union" in ast.unparse(a.annotation) \
                    and "Tuple" not in ast.unparse(a.annotation) and "Set" not in ast.unparse(a.annotation) and "List" not in ast.unparse(a.annotation):
                sites.append((f.qual, a.arg))
    union_attr_lint(ctx, sites)
    # (b)
    f = repo.func(f"{CORE}:Kconfig.__call__")
    cg = CallGraph(repo)
    lp = [n for n in f.node.body if isinstance(n, ast.For) and any(isinstance(x, ast.Call) and "check_dep_loop_sym" in ast.unparse(x.func) for x in ast.walk(n))]
    if not lp:
        raise AnchorError("loop check not found at the top level of Kconfig.__call__")
    before = f.node.body[:f.node.body.index(lp[0])]
    roots: Set[str] = set()
    for st in before:
        for c in ast.walk(st):
            if isinstance(c, ast.Call):
                for q, strong in cg.callee_of(f, c):
                    roots.add(q)
    reach = cg.reachable(roots, weak=False)
    construct = "Kconfig.__call__/nothing before the loop check leaves _visited marks behind"
    offenders = []
    for q in sorted(reach):
        g = repo.funcs[q]
        if g.short.startswith(("_check_dep_loop", "Symbol.__init__", "Choice.__init__", "Symbol.init_rest", "Choice.init_rest")):
            continue
        for n in ast.walk(g.node):
            if isinstance(n, ast.Assign) and isinstance(n.targets[0], ast.Attribute) and n.targets[0].attr == "_visited" \
                    and not (isinstance(n.value, ast.Name) and n.value.id == "UNKNOWN") and not (isinstance(n.value, ast.Constant) and n.value.value in (0, False)) \
                    and g.short != "Kconfig.node_iter":
                offenders.append(f"{g.short} sets _visited")
            if isinstance(n, ast.Call) and ast.unparse(n.func).endswith(".node_iter"):
                arg = n.args[0] if n.args else next((k.value for k in n.keywords if k.arg == "unique_syms"), None)
                if arg is not None and not (isinstance(arg, ast.Constant) and not arg.value):
                    offenders.append(f"{g.short} calls node_iter(unique_syms={ast.unparse(arg)})")
    (ctx.bad(construct, "; ".join(offenders[:3]) + ": every defined symbol then looks `in progress` to the DFS, whose top-level result is not "
             "inspected - no loop is ever reported and evaluation recurses without bound", f.loc(lp[0]))
     if offenders else ctx.ok(construct, f.loc(lp[0]), functions_examined=len(reach)))
    delegate(ctx, c01.r01_6, lambda c: True)


def r09_7(ctx):
    """R09.7 the default-resolution walk of a load terminates on every accepted tree: Symbol/Choice.resolve_defaults() and
    resolve_vis() recurse over `dependencies`, which is *not* the graph the loop check proved acyclic (it also holds the
    conditions of the symbol's own select / imply statements: `A select T if C`, `C depends on A` is legal). Each resolver
    therefore marks itself (`_defaults_resolved = True`) before it calls resolve_vis() or a dependency's
    resolve_defaults()."""
    repo = ctx.repo

    def ev(n):
        if isinstance(n, (ast.If, ast.For, ast.While, ast.With, ast.Try)):
            return []
        return ["mark"] if isinstance(n, ast.Assign) and any(ast.unparse(t) == "self._defaults_resolved" for t in n.targets) \
            and isinstance(n.value, ast.Constant) and n.value.value is True else []

    def kill(n):
        if isinstance(n, (ast.If, ast.For, ast.While, ast.With, ast.Try)):
            return []
        return ["mark"] if isinstance(n, ast.Assign) and any(ast.unparse(t) == "self._defaults_resolved" for t in n.targets) \
            and isinstance(n.value, ast.Constant) and n.value.value is False else []

    for cls in ("Symbol", "Choice"):
        f = repo.func(f"{CORE}:{cls}.resolve_defaults")
        ctx.analysed(f.qual)
        fl = Flow(f.node, resolver=Resolver(f.node), events=ev).run()
        calls = [n for n in ast.walk(f.node) if isinstance(n, ast.Call) and isinstance(n.func, ast.Attribute) and n.func.attr in ("resolve_vis", "resolve_defaults")
                 and (n.func.attr == "resolve_defaults" or ast.unparse(n.func.value) == "self")]
        if not calls:
            raise AnchorError(f"{cls}.resolve_defaults: no recursive walk found")
        for i, c in enumerate(calls):
            construct = f"{cls}.resolve_defaults/recursive call #{i + 1} `{ast.unparse(c.func)}` runs with the resolver marked"
            evs = fl.events_at(c)
            (ctx.ok(construct, f.loc(c)) if evs is not None and "mark" in evs else
             ctx.bad(construct, "the walk can come back to this symbol/choice before it is marked (a select / imply condition of its own leads back "
                     "here on a tree the loop check accepts): unbounded recursion while a tool-written sdkconfig is loaded", f.loc(c)))


def r09_8(ctx):
    """R09.8 the membership edges the loop check follows are all members: _finalize_choice *adds* the Symbol children of each
    definition of a (named, multiply defined) choice to choice.syms (C05 R05.3) - overwriting the list keeps only the last
    definition's members and a loop through an earlier member is accepted."""
    from . import c05
    from .common import delegate
    delegate(ctx, c05.r05_3, lambda c: "_finalize_choice" in c)

def r09_9(ctx):
    """R09.9 the loop check sees every member of a choice: members are registered (sym.choice / choice.syms) only after nested `if`
    blocks inside the choice were flattened (C05 R05.6) - an unregistered member has no membership edge and a loop through it is accepted."""
    from . import c05
    from .common import delegate
    delegate(ctx, c05.r05_6, lambda c: "registered after nested ifs" in c)


def r09_10(ctx):
    """R09.10 evaluating an accepted tree does not trip over the evaluator's own bookkeeping: in esp_kconfiglib.core every local that
    is bound by plain assignments is assigned on every path before it is read (mypy's `possibly-undefined`, decided over the
    statement flow) - a read that can come first raises UnboundLocalError out of str_value / config_string / write_config."""
    from .common import definitely_assigned
    n = definitely_assigned(ctx, [CORE], "the tree was accepted but cannot be evaluated")
    if n < 80:
        raise AnalysisError(f"only {n} functions with plain locals examined in {CORE}")


def r09_11(ctx):
    """R09.11 a relation between numbers is decided by comparing them, not by arithmetic on them: in expr_value() no `+`/`-`/`*` is
    applied to the converted operands (`_sym_to_num(..)`) outside a handler for OverflowError - an int option may hold any number
    of digits (set_value accepts 10**350) and `int - float` raises OverflowError beyond the float range, so a condition such as
    `X > 1.5` could not be evaluated on an accepted tree (fixed defect 5.44)."""
    from .common import expand_locals
    repo = ctx.repo
    f = repo.func(f"{CORE}:expr_value")
    ctx.analysed(f.qual)
    from ..taint import TaintAnalysis, _FuncTaint
    ft = _FuncTaint(TaintAnalysis(repo, CORE), f, {})
    ops = [n for n in ast.walk(f.node) if isinstance(n, ast.BinOp) and isinstance(n.op, (ast.Sub, ast.Add, ast.Mult))
           and "_sym_to_num(" in expand_locals(f.node, n)]
    uses = [n for n in ast.walk(f.node) if isinstance(n, ast.Call) and ast.unparse(n.func) == "_sym_to_num"]
    if not uses:
        raise AnchorError("expr_value: operands are no longer converted with _sym_to_num")
    construct = "expr_value/numeric operands are compared, not subtracted"
    bad = [n for n in ops if not ft.handled(n, "OverflowError")]
    (ctx.bad(construct, f"`{ast.unparse(bad[0])[:60]}` raises OverflowError for an int beyond the float range against a float operand, and no enclosing handler "
             "catches it: the symbol that depends on the relation cannot be evaluated", f.loc(bad[0])) if bad else ctx.ok(construct, f.loc(uses[0])))


def r09_12(ctx):
    """R09.12 the choice's selection consults only what the loop check knows about: Choice._selection_from_defaults() asks for the
    visibility of a `default` symbol only if it is one of the choice's own symbols (C05 R05.2) - the dependency graph has
    member -> choice edges but none for a default that names an outside symbol, so a loop through such a symbol's prompt is
    accepted at load and recurses on evaluation (fixed defect 5.45)."""
    from . import c05
    from .common import delegate
    delegate(ctx, c05.r05_2, lambda c: "default loop" in c)


def r09_13(ctx):
    """R09.13 a note about a value never stops the evaluation: in Symbol.str_value / bool_value every log call that interpolates text
    from the tree or the configuration (`<x>.str_value`, a user value) escapes it - the logger renders Rich markup and a literal such
    as `[/a]` in `set X=\"[/a]\"` raised MarkupError out of X.str_value on an accepted tree (fixed defect 5.46)."""
    from .common import log_text_escaped
    n = log_text_escaped(ctx, [f"{CORE}:Symbol.str_value", f"{CORE}:Symbol.bool_value"], "the value cannot be computed although the tree was accepted")
    if n < 4:
        raise AnalysisError(f"only {n} text interpolations found in the evaluators' log calls")


def r09_14(ctx):
    """R09.14 the menu structure the loop check walks is the one the conditions describe: (a) _auto_menu_dep() decides on the *prompt*
    condition of a node that has a prompt (and on node.dep otherwise) - with node.dep alone a symbol tied to its predecessor only by
    `bool \"x\" if PREV` stays a direct child of an enclosing choice, becomes a member and closes a bogus loop on an acyclic tree;
    (b) every recursive _finalize_node() call hands on the enclosing `visible if` it was given - a constant there drops that condition
    from the prompts below, the `V -> T` edge is never built and a loop through `visible if V` is accepted."""
    repo = ctx.repo
    a = repo.func(f"{CORE}:_auto_menu_dep")
    ctx.analysed(a.qual)
    prm = [x.arg for x in a.node.args.args]
    calls = [n for n in ast.walk(a.node) if isinstance(n, ast.Call) and ast.unparse(n.func) == "_expr_depends_on" and n.args]
    if not calls or len(prm) < 2:
        raise AnchorError("_auto_menu_dep: no _expr_depends_on(..) call")
    from .common import expand_locals
    fl = Flow(a.node, resolver=Resolver(a.node)).run()
    n2 = prm[1]
    construct = "_auto_menu_dep/a node with a prompt is judged by its prompt condition"
    ok = False
    for c in calls:
        e = ast.parse(expand_locals(a.node, c.args[0]), mode="eval").body
        gs = fl.guards_at(c) or set()
        if isinstance(e, ast.IfExp) and ast.unparse(e.test) == f"{n2}.prompt" and ast.unparse(e.body) == f"{n2}.prompt[1]" and ast.unparse(e.orelse) == f"{n2}.dep":
            ok = True
        if ast.unparse(e) == f"{n2}.prompt[1]" and (f"{n2}.prompt", True) in gs:
            ok = True
    (ctx.ok(construct, a.loc(calls[0])) if ok else
     ctx.bad(construct, f"the dependency that is tested is `{expand_locals(a.node, calls[0].args[0])[:70]}`: a condition that is written on the prompt only is not seen", a.loc(calls[0])))
    f = repo.func(f"{CORE}:Kconfig._finalize_node")
    ctx.analysed(f.qual)
    vparam = [x.arg for x in f.node.args.args][2]
    rec = [n for n in ast.walk(f.node) if isinstance(n, ast.Call) and ast.unparse(n.func) == "self._finalize_node" and len(n.args) >= 2]
    if len(rec) < 2:
        raise AnalysisError(f"only {len(rec)} recursive calls in _finalize_node")
    for i, c in enumerate(rec):
        construct = f"Kconfig._finalize_node/recursive call #{i + 1} hands on the enclosing `visible if`"
        (ctx.ok(construct, f.loc(c)) if ast.unparse(c.args[1]) == vparam else
         ctx.bad(construct, f"`{ast.unparse(c)[:60]}` passes `{ast.unparse(c.args[1])}` instead of `{vparam}`: the enclosing menus' `visible if` is lost for "
                 "everything below that node", f.loc(c)))


def r09_15(ctx):
    """R09.15 every output of an accepted tree can be computed: Symbol._str_default() - the oracle of the minimal configuration - evaluates a
    bool default with expr_value() (it may be a compound expression), first active default decides (C10 R10.1b)."""
    from . import c10
    from .common import delegate
    delegate(ctx, c10.r10_1b, lambda c: '_str_default' in c)


def r09_16(ctx):
    """R09.16 operands of a relation convert for every type and every size: (a) _sym_to_num() tries float() for any text int()
    refuses, whatever the symbol's type (a literal such as `8.0` is a constant of unknown type) - behind a type test for FLOAT
    only, `GAIN >= 8.0` falls back to comparing text; (b) expr_value() never passes an operand through float(): an int beyond
    the float range raises OverflowError, which the ValueError fallback does not catch."""
    repo = ctx.repo
    f = repo.func(f"{CORE}:_sym_to_num")
    ctx.analysed(f.qual)
    fl = Flow(f.node, resolver=Resolver(f.node)).run()
    floats = [n for n in ast.walk(f.node) if isinstance(n, ast.Call) and isinstance(n.func, ast.Name) and n.func.id == "float" and n.args and "str_value" in ast.unparse(n.args[0])]
    construct = "_sym_to_num/float() is tried for whatever int() refuses"
    free = [c for c in floats if not any("FLOAT" in k and p for k, p in (fl.guards_at(c) or set()))]
    in_handler = [c for c in free if any(isinstance(p_, ast.ExceptHandler) for p_ in _anc_nodes(repo, c))]
    (ctx.ok(construct, f.loc(in_handler[0])) if in_handler else
     ctx.bad(construct, "no float() conversion in the handler of the failed int(): a fractional literal (`8.0`, type unknown) does not convert and the relation is decided "
             "by comparing text", f.loc(floats[0]) if floats else f.loc()))
    e = repo.func(f"{CORE}:expr_value")
    ctx.analysed(e.qual)
    construct = "expr_value/no operand is forced through float()"
    conv = [n for n in ast.walk(e.node) if isinstance(n, ast.Call) and isinstance(n.func, ast.Name) and n.func.id == "float"]
    bad = [c for c in conv if not any(isinstance(p_, ast.Try) and any(h.type is None or any(w in ast.unparse(h.type) for w in ("OverflowError", "ArithmeticError", "Exception")) for h in p_.handlers)
                                      and any(c is x for b_ in p_.body for x in ast.walk(b_)) for p_ in _anc_nodes(repo, c))]
    (ctx.bad(construct, f"`{ast.unparse(bad[0])}`: an int beyond the float range (1e400 as an int) raises OverflowError - evaluation, every generator and the config server die", e.loc(bad[0]))
     if bad else ctx.ok(construct, e.loc()))


def _anc_nodes(repo, n):
    p = repo.parent(n)
    while p is not None:
        yield p
        p = repo.parent(p)


def r09_17(ctx):
    """R09.17 the message of the loop error can be built for every loop: _found_dep_loop() prints each item, which reaches
    MenuNode._sym_choice_node_str(); there the symbol printer `sc_expr_str_fn` is applied directly only to single symbols
    (range bounds, select/imply/set targets) - a `default` value is an expression and goes through expr_str(). Printing it
    with the symbol printer raises AttributeError on a tuple: the cyclic tree is then refused with the wrong exception and
    without the loop in the message."""
    repo = ctx.repo
    f = repo.func(f"{CORE}:MenuNode._sym_choice_node_str")
    ctx.analysed(f.qual, f"{CORE}:_found_dep_loop")
    loops = [n for n in ast.walk(f.node) if isinstance(n, ast.For) and ast.unparse(n.iter).endswith("orig_defaults")
             and isinstance(n.target, ast.Tuple) and n.target.elts and isinstance(n.target.elts[0], ast.Name)]
    construct = "MenuNode._sym_choice_node_str/a default value is printed as an expression"
    if not loops:
        ctx.ok(construct, f.loc(), nontrivial=False, loops=0)
        return
    for lp in loops:
        d = lp.target.elts[0].id
        direct = [c for b in lp.body for c in ast.walk(b) if isinstance(c, ast.Call) and not (isinstance(c.func, ast.Name) and c.func.id == "expr_str")
                  and not (isinstance(c.func, ast.Attribute) and c.func.attr == "expr_str")
                  and any(isinstance(a, ast.Name) and a.id == d for a in c.args)
                  and isinstance(c.func, ast.Name) and c.func.id.endswith("expr_str_fn")]
        if direct:
            ctx.bad(construct, f"`{ast.unparse(direct[0])}`: the symbol printer is applied to the default value, which is a tuple for `default A && !B` - "
                    "printing a loop through such an option raises AttributeError instead of the KconfigError naming the loop", f.loc(direct[0]))
        else:
            ctx.ok(construct, f.loc(lp))


def rules():
    return [("R09.17", r09_17, 1), ("R09.16", r09_16, 2), ("R09.15", r09_15, 1), ("R09.14", r09_14, 3), ("R09.13", r09_13, 4), ("R09.12", r09_12, 1), ("R09.11", r09_11, 1), ("R09.10", r09_10, 80), ("R09.9", r09_9, 1), ("R09.8", r09_8, 1), ("R09.7", r09_7, 2), ("R09.6", r09_6, 6), ("R09.1", r09_1, 14), ("R09.1b", r09_1b, 3), ("R09.2", r09_2, 6), ("R09.3", r09_3, 8), ("R09.4", r09_4, 5), ("R09.5", r09_5, 10)]
