"""C19 - the deprecated-options check depends only on a file's own scope (necessary structural conditions)."""
from __future__ import annotations

import ast
import builtins
from typing import Dict, List, Optional, Set, Tuple

from ..flow import AnalysisError, Flow, Resolver, MUTATORS
from ..repo import AnchorError

PROPERTY = "C19"
MOD = "kconfcheck.check_deprecated_options"
LEVEL_TEXT = (
    "Static analysis of kconfcheck/check_deprecated_options.py: the per-file check never mutates the shared global set or "
    "a memoised per-project set (alias analysis over fresh-copy constructors vs. plain aliases); memo entries are "
    "stored once per key with a value that is a function of the key (the builders read no module-level mutable state "
    "and no other parameter); the local accumulation is filtered by `nearest project root == this project`; the local "
    "set added is the one of the file's own nearest project; the global scope is exactly IDF root + components + "
    "explicit/--includes rename files. Not decided: the project-root regex, symlinked trees."
)

FRESH_CALLS = {"set", "frozenset", "list", "dict", "sorted", "tuple"}


def _is_fresh(e: ast.AST) -> bool:
    if isinstance(e, ast.Call):
        fn = ast.unparse(e.func)
        if fn in FRESH_CALLS:
            return True
        if isinstance(e.func, ast.Attribute) and e.func.attr in ("copy", "union", "intersection", "difference"):
            return True
        return True  # a call result is not an alias of a parameter unless it is a known accessor (handled by caller)
    if isinstance(e, (ast.BinOp, ast.SetComp, ast.ListComp, ast.DictComp, ast.Set, ast.List, ast.Dict, ast.Constant, ast.GeneratorExp)):
        return True
    return False


def r19_1(ctx):
    """R19.1 shared sets are never mutated by a check: inside check_deprecated_options no in-place mutation targets
    global_deprecated, a value of local_deprecated, or an alias of either; the effective set is a fresh object; the only
    store into shared state is the memo fill."""
    repo = ctx.repo
    f = repo.func(f"{MOD}:check_deprecated_options")
    ctx.analysed(f.qual)
    params = [a.arg for a in f.node.args.args]
    shared = {p for p in params if p in ("global_deprecated", "local_deprecated", "project_root_cache")}
    if len(shared) < 3:
        raise AnchorError(f"check_deprecated_options parameters changed: {params}")
    aliases: Dict[str, str] = {"global_deprecated": "global_deprecated"}
    for _ in range(4):
        for n in ast.walk(f.node):
            if isinstance(n, ast.Assign) and isinstance(n.targets[0], ast.Name):
                v = n.value
                src = None
                if isinstance(v, ast.Name) and v.id in aliases:
                    src = aliases[v.id]
                elif isinstance(v, ast.Subscript) and ast.unparse(v.value) == "local_deprecated":
                    src = "local_deprecated[...]"
                elif isinstance(v, ast.Call) and isinstance(v.func, ast.Attribute) and v.func.attr in ("get", "setdefault") \
                        and ast.unparse(v.func.value) == "local_deprecated":
                    src = "local_deprecated[...]"
                elif isinstance(v, ast.IfExp):
                    for br in (v.body, v.orelse):
                        if isinstance(br, ast.Name) and br.id in aliases:
                            src = aliases[br.id]
                if src:
                    aliases[n.targets[0].id] = src
    muts = []
    for n in ast.walk(f.node):
        tgt = None
        if isinstance(n, ast.AugAssign):
            tgt = n.target
        elif isinstance(n, ast.Call) and isinstance(n.func, ast.Attribute) and n.func.attr in MUTATORS | {"intersection_update", "difference_update"}:
            tgt = n.func.value
        elif isinstance(n, ast.Delete):
            tgt = n.targets[0]
        if tgt is None:
            continue
        t = ast.unparse(tgt)
        base = t.split("[")[0]
        if base in aliases and (isinstance(tgt, ast.Name) or ast.unparse(tgt).startswith("local_deprecated[")):
            muts.append((n, t, aliases[base]))
        elif t.startswith("local_deprecated[") or t == "global_deprecated":
            muts.append((n, t, t))
    construct = "check_deprecated_options/no in-place mutation of the shared deprecated sets"
    if muts:
        n, t, src = muts[0]
        ctx.bad(construct, f"`{ast.unparse(n)[:60]}` mutates `{t}`, which aliases {src}: names of one project leak into the set used for every "
                "later file, so a verdict depends on what was checked before", f.loc(n), aliases=aliases)
    else:
        ctx.ok(construct, f.loc(), aliases=aliases)
    eff = [n for n in ast.walk(f.node) if isinstance(n, ast.Assign) and isinstance(n.targets[0], ast.Name) and "global_deprecated" in ast.unparse(n.value)]
    construct = "check_deprecated_options/effective set starts as a fresh copy of the global set"
    ok = bool(eff) and _is_fresh(eff[0].value) and not isinstance(eff[0].value, ast.Name)
    (ctx.ok(construct, f.loc(eff[0]), expr=ast.unparse(eff[0].value)) if ok else ctx.bad(construct, "the effective set is the global set itself", f.loc()))
    stores = [n for n in ast.walk(f.node) if isinstance(n, ast.Assign) and isinstance(n.targets[0], ast.Subscript)
              and ast.unparse(n.targets[0].value) in shared]
    fl = Flow(f.node).run()
    construct = "check_deprecated_options/only store into shared state is the memo fill, once per project"
    msgs = []
    for s in stores:
        key = ast.unparse(s.targets[0].slice)
        base = ast.unparse(s.targets[0].value)
        gs = fl.guards_at(s) or set()
        if base != "local_deprecated":
            msgs.append(f"store into {base}")
        elif (f"{key} in local_deprecated", False) not in gs:
            msgs.append("memo overwritten for a key that is already present")
        elif not (isinstance(s.value, ast.Call) and ast.unparse(s.value.func) == "_build_local_deprecated" and ast.unparse(s.value.args[0]) == key):
            msgs.append(f"memo value {ast.unparse(s.value)} is not _build_local_deprecated({key}, ...)")
    if not stores:
        msgs.append("memo fill not found")
    (ctx.bad(construct, "; ".join(msgs), f.loc()) if msgs else ctx.ok(construct, f.loc(stores[0])))


def _free_names(fn: ast.FunctionDef) -> Set[str]:
    bound = {a.arg for a in fn.args.args + fn.args.kwonlyargs}
    for n in ast.walk(fn):
        if isinstance(n, ast.Name) and isinstance(n.ctx, (ast.Store, ast.Del)):
            bound.add(n.id)
        elif isinstance(n, (ast.FunctionDef, ast.ClassDef)) and n is not fn:
            bound.add(n.name)
        elif isinstance(n, ast.ExceptHandler) and n.name:
            bound.add(n.name)
    return {n.id for n in ast.walk(fn) if isinstance(n, ast.Name) and isinstance(n.ctx, ast.Load) and n.id not in bound}


def r19_2(ctx):
    """R19.2 memo discipline: a stored value is a function of its key and the file system - _find_project_root,
    _build_local_deprecated, _is_project_root and extract_lhs_from_file read no module-level mutable state; the
    project-root cache is filled only for directories on the walked chain with the answer found for that chain."""
    repo = ctx.repo
    m = repo.module(MOD)
    mutable_globals = set()
    for n in m.tree.body:
        if isinstance(n, (ast.Assign, ast.AnnAssign)):
            tg = n.targets if isinstance(n, ast.Assign) else [n.target]
            if not (isinstance(n.value, ast.Constant) or (isinstance(n.value, ast.Call) and ast.unparse(n.value.func) in ("frozenset", "re.compile", "tuple"))):
                mutable_globals |= {t.id for t in tg if isinstance(t, ast.Name)}
    imported = set()
    for n in m.tree.body:
        if isinstance(n, ast.Import):
            imported |= {(a.asname or a.name).split(".")[0] for a in n.names}
        elif isinstance(n, ast.ImportFrom):
            imported |= {a.asname or a.name for a in n.names}
    module_funcs = {n.name for n in m.tree.body if isinstance(n, ast.FunctionDef)}
    for name in ("_find_project_root", "_build_local_deprecated", "_build_global_deprecated", "_is_project_root", "extract_lhs_from_file"):
        f = repo.func(f"{MOD}:{name}")
        ctx.analysed(f.qual)
        free = _free_names(f.node)
        unknown = sorted(x for x in free if x not in imported and x not in module_funcs and not hasattr(builtins, x))
        badg = sorted(x for x in free if x in mutable_globals)
        construct = f"{name}/result is a function of its arguments and the file system"
        if badg or unknown:
            ctx.bad(construct, f"reads module-level state {badg or unknown}: the memoised answer depends on call history", f.loc())
        else:
            ctx.ok(construct, f.loc(), free_names=sorted(free))
    f = repo.func(f"{MOD}:_find_project_root")
    cache = f.node.args.args[1].arg
    stores = [n for n in ast.walk(f.node) if isinstance(n, ast.Assign) and isinstance(n.targets[0], ast.Subscript) and ast.unparse(n.targets[0].value) == cache]
    construct = "_find_project_root/cache filled only for the walked chain with that chain's answer"
    msgs = []
    # (i) every store is `cache[d] = V` in a loop `for d in L` over a local list L that only ever receives the directory the
    #     walk currently stands on; (ii) V is what the function returns on the way out of that loop
    walker = None
    for c in ast.walk(f.node):
        if isinstance(c, ast.Call) and ast.unparse(c.func) == "_is_project_root" and c.args and isinstance(c.args[0], ast.Name):
            walker = c.args[0].id
    if walker is None:
        raise AnchorError("_find_project_root: the walking variable (argument of _is_project_root) not found")
    lists = set()
    for s_ in stores:
        par = repo.parent(s_)
        if not (isinstance(par, ast.For) and isinstance(par.iter, ast.Name) and ast.unparse(s_.targets[0].slice) == ast.unparse(par.target)):
            msgs.append(f"line {s_.lineno}: store for a directory that is not taken from the list of walked directories")
            continue
        lists.add(par.iter.id)
        # the value stored is the value returned next
        blk = repo.parent(par)
        body = None
        for fld in ("body", "orelse", "finalbody"):
            b_ = getattr(blk, fld, None)
            if isinstance(b_, list) and par in b_:
                body = b_
        nxt = [x for x in (body[body.index(par) + 1:] if body else []) if isinstance(x, ast.Return)]
        if not nxt or ast.unparse(nxt[0].value) != ast.unparse(s_.value):
            msgs.append(f"line {s_.lineno}: the cache receives `{ast.unparse(s_.value)}` but the function returns "
                        f"`{ast.unparse(nxt[0].value) if nxt else 'something else'}` for that chain")
    if len(lists) > 1:
        msgs.append(f"several directory lists {sorted(lists)}")
    for L in lists:
        apps = [n for n in ast.walk(f.node) if isinstance(n, ast.Call) and ast.unparse(n.func) == f"{L}.append"]
        other = [n for n in ast.walk(f.node) if isinstance(n, ast.Call) and isinstance(n.func, ast.Attribute) and ast.unparse(n.func.value) == L
                 and n.func.attr in ("extend", "insert", "remove", "pop", "clear")]
        if not apps or other or any(ast.unparse(a_.args[0]) != walker for a_ in apps):
            msgs.append(f"`{L}` no longer collects exactly the walked directories")
    if not stores:
        msgs.append("the cache is never filled")
    # (iii) the cache is only ever consulted for the directory the walk stands on: an answer taken from another key (the
    #       parent's, say) skips this directory's own test
    for n in ast.walk(f.node):
        key = None
        if isinstance(n, ast.Subscript) and isinstance(n.ctx, ast.Load) and ast.unparse(n.value) == cache:
            key = n.slice
        elif isinstance(n, ast.Call) and ast.unparse(n.func) in (f"{cache}.get", f"{cache}.__contains__") and n.args:
            key = n.args[0]
        elif isinstance(n, ast.Compare) and len(n.ops) == 1 and isinstance(n.ops[0], (ast.In, ast.NotIn)) and ast.unparse(n.comparators[0]) == cache:
            key = n.left
        if key is not None and ast.unparse(key) != walker:
            msgs.append(f"line {n.lineno}: the cache is consulted for `{ast.unparse(key)}`, not for the directory under examination")
    # hit: returns cached answer; found: the directory itself
    (ctx.bad(construct, "; ".join(msgs), f.loc()) if msgs else ctx.ok(construct, f.loc(), stores=len(stores)))
    construct = "_find_project_root/keys are absolute paths"
    p0 = f.node.args.args[0].arg
    ok = any(isinstance(n, ast.Assign) and ast.unparse(n.value) == f"os.path.abspath({p0})" for n in f.node.body)
    (ctx.ok(construct, f.loc(), nontrivial=False) if ok else ctx.bad(construct, "relative and absolute spellings get separate cache entries", f.loc()))


def r19_3(ctx):
    """R19.3 scope filter: _build_local_deprecated accumulates a rename file only when the nearest project root of its
    directory is this project; check_deprecated_options adds the local set of the project root computed from the
    checked file's own directory, only when that root exists and is not the IDF root."""
    repo = ctx.repo
    f = repo.func(f"{MOD}:_build_local_deprecated")
    ctx.analysed(f.qual)
    res = Resolver(f.node)
    fl = Flow(f.node, resolver=res).run()
    pr, cache = [a.arg for a in f.node.args.args][:2]
    upd = [n for n in ast.walk(f.node) if isinstance(n, ast.Call) and isinstance(n.func, ast.Attribute) and n.func.attr in ("update", "add") or
           isinstance(n, ast.AugAssign)]
    construct = "_build_local_deprecated/only rename files whose nearest project root is this project"
    if not upd:
        ctx.bad(construct, "no accumulation found", f.loc())
    else:
        gs = fl.guards_at(upd[0]) or set()
        ok = False
        for k, p in gs:
            if not (p and k.endswith(f" == {pr}")):
                continue
            lhs = k[: -len(f" == {pr}")]
            if lhs.startswith("_find_project_root("):
                ok = True
            else:
                asg = [a for a in ast.walk(f.node) if isinstance(a, ast.Assign) and ast.unparse(a.targets[0]) == lhs]
                ok = len(asg) == 1 and isinstance(asg[0].value, ast.Call) and ast.unparse(asg[0].value.func) == "_find_project_root" \
                    and ast.unparse(asg[0].value.args[1]) == cache
        walks = [n for n in ast.walk(f.node) if isinstance(n, ast.For) and "os.walk(" in ast.unparse(n.iter)]
        pruned = any(isinstance(x, ast.Continue) for w in walks for x in ast.walk(w))
        if ok:
            ctx.ok(construct, f.loc(upd[0]), guards=sorted(map(str, gs)))
        else:
            ctx.bad(construct, f"the accumulation is guarded by {sorted(gs)}{' (walk pruned with continue, which does not stop os.walk from descending)' if pruned else ''}"
                    ": rename files of a nested project are counted for the enclosing project", f.loc(upd[0]))
        construct = "_build_local_deprecated/walks exactly the project subtree for sdkconfig.rename"
        ok = len(walks) == 1 and ast.unparse(walks[0].iter) == f"os.walk({pr})" and any(
            k == "os.walk(" + pr + ")[*][2][*] == 'sdkconfig.rename'" or "== 'sdkconfig.rename'" in k for k, p in gs if p)
        (ctx.ok(construct, f.loc(walks[0]) if walks else f.loc()) if ok else ctx.bad(construct, "walk root or file-name filter changed", f.loc()))
    c = repo.func(f"{MOD}:check_deprecated_options")
    fl = Flow(c.node, resolver=Resolver(c.node)).run()
    adds = [n for n in ast.walk(c.node) if isinstance(n, ast.Subscript) and ast.unparse(n.value) == "local_deprecated" and isinstance(n.ctx, ast.Load)]
    construct = "check_deprecated_options/adds the local set of the file's own nearest project"
    from .common import expand_locals
    fparam = c.node.args.args[0].arg
    cache_param = [a.arg for a in c.node.args.args if "cache" in a.arg]
    want_root = f"_find_project_root(os.path.dirname(os.path.abspath({fparam})), {cache_param[0] if cache_param else '?'})"
    msgs = []
    if not adds:
        msgs.append("local set never used")
    for a in adds:
        got = expand_locals(c.node, a.slice)
        if got != want_root:
            msgs.append(f"local set indexed by `{got}`, not by the nearest project of the checked file's own directory (`{want_root}`)")
        gs = {(expand_locals(c.node, ast.parse(k, mode='eval').body) if _parses(k) else k, p) for k, p in (fl.guards_at(a) or set())}
        if (f"{want_root} is None", False) not in gs or (f"{want_root} == abs_idf_path", False) not in gs:
            msgs.append(f"local set used under {sorted(gs)}")
    (ctx.bad(construct, "; ".join(msgs), c.loc()) if msgs else ctx.ok(construct, c.loc(adds[0])))
    construct = "check_deprecated_options/verdict = effective set intersected with the options of the checked file"
    inter = [n for n in ast.walk(c.node) if isinstance(n, ast.Call) and isinstance(n.func, ast.Attribute) and n.func.attr == "intersection"]
    ok = bool(inter) and expand_locals(c.node, inter[0].args[0]) == f"extract_lhs_from_file({fparam}, '=')"
    (ctx.ok(construct, c.loc()) if ok else ctx.bad(construct, "the verdict is no longer computed from the checked file's own assignments", c.loc()))


def _parses(k: str) -> bool:
    try:
        ast.parse(k, mode="eval")
        return True
    except SyntaxError:
        return False


def r19_4(ctx):
    """R19.4 the global scope is what the property lists: IDF_PATH/sdkconfig.rename and everything under
    IDF_PATH/components; explicitly passed rename files and rename files found under --includes are added to the global
    set in _prepare_deprecated_options, and nothing else is."""
    repo = ctx.repo
    g = repo.func(f"{MOD}:_build_global_deprecated")
    ctx.analysed(g.qual)
    idf = g.node.args.args[0].arg
    joins = {ast.unparse(n) for n in ast.walk(g.node) if isinstance(n, ast.Call) and ast.unparse(n.func) == "os.path.join" and ast.unparse(n.args[0]) == idf}
    walks = [ast.unparse(n.iter) for n in ast.walk(g.node) if isinstance(n, ast.For) and "os.walk(" in ast.unparse(n.iter)]
    construct = "_build_global_deprecated/reads only <idf>/sdkconfig.rename and walks only <idf>/components"
    ok = {j.replace('"', "'") for j in joins} == {f"os.path.join({idf}, 'sdkconfig.rename')", f"os.path.join({idf}, 'components')"} \
        and walks == ["os.walk(components_dir)"]
    (ctx.ok(construct, g.loc()) if ok else ctx.bad(construct, f"paths {sorted(joins)}, walks {walks}", g.loc()))
    p = repo.func(f"{MOD}:_prepare_deprecated_options")
    ctx.analysed(p.qual)
    res = Resolver(p.node)
    fl = Flow(p.node, resolver=res).run()
    sites = [n for n in ast.walk(p.node) if (isinstance(n, ast.Call) and isinstance(n.func, ast.Attribute) and n.func.attr == "update"
                                             and ast.unparse(n.func.value) == "global_deprecated") or
             (isinstance(n, ast.AugAssign) and ast.unparse(n.target) == "global_deprecated")]
    construct = "_prepare_deprecated_options/global set = IDF + components + explicit + --includes rename files"
    kinds = []
    for s in sites:
        t = ast.unparse(s)
        if "_build_global_deprecated(" in t:
            kinds.append("idf")
        elif "extract_lhs_from_file(file)" in t:
            kinds.append("explicit")
        elif "extract_lhs_from_file(full_path)" in t:
            kinds.append("includes")
        else:
            kinds.append("other:" + t[:40])
    ok = sorted(kinds) == ["explicit", "idf", "includes"]
    (ctx.ok(construct, p.loc(), sources=kinds) if ok else ctx.bad(construct, f"sources of the global set are {kinds}", p.loc()))
    construct = "_prepare_deprecated_options/local sets start empty and are filled lazily"
    ok = any(isinstance(n, (ast.Assign, ast.AnnAssign)) and ast.unparse(n.targets[0] if isinstance(n, ast.Assign) else n.target) == "local_deprecated"
             and ast.unparse(n.value) == "{}" for n in ast.walk(p.node)) and "local_deprecated[" not in ast.unparse(p.node)
    (ctx.ok(construct, p.loc(), nontrivial=False) if ok else ctx.bad(construct, "per-project sets are pre-filled", p.loc()))


def r19_5(ctx):
    """R19.5 scope collection is exhaustive and order-free: (a) no loop modifies the list it iterates over (the explicit
    rename files are removed from `files` while iterating a copy); (b) project roots are detected from the whole
    CMakeLists.txt; (c) the walks of the global and local builders are never pruned."""
    from .common import no_mutation_of_iterated
    n = no_mutation_of_iterated(ctx, MOD, "an element after each removed one is skipped - which rename files are read depends on the order of the arguments")
    if n < 5:
        raise AnalysisError(f"only {n} loops found in {MOD}")
    repo = ctx.repo
    f = repo.func(f"{MOD}:_is_project_root")
    ctx.analysed(f.qual)
    reads = [x for x in ast.walk(f.node) if isinstance(x, ast.Call) and isinstance(x.func, ast.Attribute) and x.func.attr in ("read", "readline", "readlines")]
    construct = "_is_project_root/project() is searched in the whole CMakeLists.txt"
    ok = bool(reads) and all(x.func.attr == "read" and not x.args and not x.keywords for x in reads)
    (ctx.ok(construct, f.loc(reads[0]) if reads else f.loc()) if ok else
     ctx.bad(construct, f"`{ast.unparse(reads[0]) if reads else '?'}` reads only part of the file: a nested project whose project() call follows a long preamble is not "
             "a project root and its files are judged in the enclosing project's scope", f.loc(reads[0]) if reads else f.loc()))
    for name in ("_build_global_deprecated", "_build_local_deprecated"):
        g = repo.func(f"{MOD}:{name}")
        ctx.analysed(g.qual)
        walks = [x for x in ast.walk(g.node) if isinstance(x, ast.For) and "os.walk(" in ast.unparse(x.iter)]
        construct = f"{name}/the directory walk is not pruned"
        bad = None
        for w in walks:
            dn = ast.unparse(w.target.elts[1]) if isinstance(w.target, ast.Tuple) and len(w.target.elts) == 3 else None
            if dn and dn != "_":
                for x in ast.walk(w):
                    if isinstance(x, ast.Call) and isinstance(x.func, ast.Attribute) and ast.unparse(x.func.value) == dn and x.func.attr in ("clear", "remove", "pop"):
                        bad = x
                    if isinstance(x, (ast.Assign, ast.Delete)) and any(ast.unparse(t).startswith(dn + "[") for t in (x.targets if hasattr(x, "targets") else [])):
                        bad = x
            if any(isinstance(x, ast.Break) for x in ast.walk(w)):
                bad = w
        (ctx.bad(construct, f"`{ast.unparse(bad)[:60]}` stops os.walk from descending: rename files deeper in the tree are missing from the scope", g.loc(bad))
         if bad is not None else ctx.ok(construct, g.loc(walks[0]) if walks else g.loc()))


def r19_6(ctx):
    """R19.6 rename files found while walking the `--includes` directories are global scope wherever they lie: the arm that
    adds an `sdkconfig.rename` to the global set is reached for every such file - it is not behind the test that excludes
    submodule directories from the *files to check*."""
    repo = ctx.repo
    p = repo.func(f"{MOD}:_prepare_deprecated_options")
    ctx.analysed(p.qual)
    fl = Flow(p.node, resolver=Resolver(p.node)).run()
    adds = [n for n in ast.walk(p.node) if isinstance(n, ast.Call) and ast.unparse(n.func) == "global_deprecated.update"]
    in_walk = [n for n in adds if any(isinstance(a, ast.For) and "os.walk(" in ast.unparse(a.iter) for a in _anc(repo, n, p.node))]
    if not in_walk:
        raise AnchorError("_prepare_deprecated_options: rename files of the walked include directories are no longer collected")
    for i, n in enumerate(in_walk):
        construct = f"_prepare_deprecated_options/rename file #{i + 1} found under --includes is collected whatever directory it is in"
        gs = fl.guards_at(n) or set()
        blocked = sorted(k for k, pol in gs if "ignore_dirs" in k and pol is False and " and " not in k and " or " not in k)
        (ctx.bad(construct, f"the rename file is only collected when {blocked} is false: old names defined in an excluded submodule are not flagged in the "
                 "files that are checked", p.loc(n)) if blocked else ctx.ok(construct, p.loc(n), guards=sorted(gs)))


def _anc(repo, n, stop):
    q = repo.parent(n)
    while q is not None and q is not stop:
        yield q
        q = repo.parent(q)


def r19_7(ctx):
    """R19.7 (a) the old name of a rename line ends at the first *whitespace* (str.split() with the caller's separator, None =
    any whitespace): a fixed delimiter would miss TAB-separated files; (b) the IDF root is normalised with os.path.abspath
    unconditionally, like the project roots it is compared with; (c) a CMakeLists.txt marks a project root by a `project(`
    call whatever its argument looks like (`project(${ProjectId})`, `project("name")`)."""
    from .common import expand_locals
    repo = ctx.repo
    f = repo.func(f"{MOD}:extract_lhs_from_file")
    ctx.analysed(f.qual)
    sep = f.node.args.args[1].arg if len(f.node.args.args) > 1 else "sep"
    adds = [n for n in ast.walk(f.node) if isinstance(n, ast.Call) and isinstance(n.func, ast.Attribute) and n.func.attr == "add" and n.args]
    construct = "extract_lhs_from_file/the name ends at the caller's separator (None = any whitespace)"
    # the element that enters the result set: `ret.add(e)` or the element of a returned set comprehension
    elems = [a.args[0] for a in adds] + [n.elt for n in ast.walk(f.node) if isinstance(n, ast.SetComp)]
    if not elems:
        raise AnchorError("extract_lhs_from_file: neither ret.add(..) nor a set comprehension")
    t = expand_locals(f.node, elems[0])
    (ctx.ok(construct, f.loc(elems[0])) if f".split({sep})[0]" in t else
     ctx.bad(construct, f"the name is taken as `{t}`: with a fixed delimiter a TAB-separated rename line yields the whole line as the old name", f.loc(elems[0])))
    p = repo.func(f"{MOD}:_prepare_deprecated_options")
    ctx.analysed(p.qual)
    asg = [n for n in ast.walk(p.node) if isinstance(n, ast.Assign) and ast.unparse(n.targets[0]) == "abs_idf_path"]
    construct = "_prepare_deprecated_options/IDF_PATH is normalised unconditionally"
    if not asg:
        raise AnchorError("_prepare_deprecated_options: abs_idf_path not found")
    (ctx.ok(construct, p.loc(asg[0])) if isinstance(asg[0].value, ast.Call) and ast.unparse(asg[0].value.func) == "os.path.abspath" else
     ctx.bad(construct, f"`{ast.unparse(asg[0].value)}`: an absolute but un-normalised IDF_PATH (trailing slash, `..`) no longer equals the normalised project root it is "
             "compared with, and the IDF tree is treated as a user project", p.loc(asg[0])))
    r = repo.func(f"{MOD}:_is_project_root")
    ctx.analysed(r.qual)
    pats = [c for n in ast.walk(r.node) if isinstance(n, ast.Call) and ast.unparse(n.func).startswith("re.") for c in n.args[:1] if isinstance(c, ast.Constant) and isinstance(c.value, str)]
    construct = "_is_project_root/any `project(` call marks a project root"
    if not pats:
        raise AnchorError("_is_project_root: pattern not found")
    pat = pats[0].value
    tail = pat.split("\\(", 1)[1] if "\\(" in pat else None
    (ctx.ok(construct, r.loc(pats[0]), pattern=pat) if tail == "" else
     ctx.bad(construct, f"the pattern `{pat}` demands something after `project(`: calls with a variable or quoted argument are not recognised and the project is attributed "
             "to the enclosing one", r.loc(pats[0])))

def r19_8(ctx):
    """R19.8 (a) what is checked does not depend on how the files were named: kconfcheck.main() reaches _prepare_deprecated_options() - which
    adds the files found under `--includes` - whatever the positional file list holds (no early exit on an empty list before it);
    (b) a file's project is found by walking up to the file-system root: the upward walk of _find_project_root() ends only at the
    root (`parent == path`) or at a project marker - not at a `.git` or any other probe of the directories on the way, which would
    make the verdict depend on where the tree is checked out."""
    from .common import expand_locals, parse_key
    repo = ctx.repo
    m = repo.func("kconfcheck.core:main")
    ctx.analysed(m.qual)
    fl = Flow(m.node, resolver=Resolver(m.node)).run()
    calls = [n for n in ast.walk(m.node) if isinstance(n, ast.Call) and ast.unparse(n.func).endswith("_prepare_deprecated_options")]
    if not calls:
        raise AnchorError("kconfcheck.main: no call of _prepare_deprecated_options")
    construct = "kconfcheck.main/_prepare_deprecated_options() is reached whatever the positional file list holds"
    gs = fl.guards_at(calls[0]) or set()
    # the positional file list is the last argument (includes, exclude_submodules, files)
    args = {x.id for a in calls[0].args[-1:] for x in ast.walk(a) if isinstance(x, ast.Name)}
    dep = sorted(f"{'' if p else 'not '}({k})" for k, p in gs if {x.id for x in ast.walk(parse_key(k)) if isinstance(x, ast.Name)} & args)
    (ctx.bad(construct, f"the call is reached only under {dep}: with `--includes DIR` and no positional file nothing is collected, nothing is checked and the exit "
             "status is 0", m.loc(calls[0])) if dep else ctx.ok(construct, m.loc(calls[0])))
    f = repo.func(f"{MOD}:_find_project_root")
    ctx.analysed(f.qual)
    loops = [n for n in ast.walk(f.node) if isinstance(n, ast.While)]
    if not loops:
        raise AnchorError("_find_project_root: no upward loop")
    ff = Flow(f.node, resolver=Resolver(f.node)).run()
    exits = [n for n in ast.walk(loops[0]) if isinstance(n, (ast.Break, ast.Return))]
    construct = "_find_project_root/the upward walk ends only at the root, a project marker or a cached answer"
    bad = None
    for e in exits:
        for k, p in (ff.guards_at(e) or set()):
            full = expand_locals(f.node, parse_key(k))
            if any(t in full for t in ("isdir(", "exists(", "isfile(", "listdir(", "islink(", "os.stat(", "os.access(")) and "_is_project_root" not in full:
                bad = (e, full)
    (ctx.bad(construct, f"the walk stops under `{bad[1][:80]}`: the nearest project root of a file depends on other directories on the way up (a checkout boundary), "
             "not only on the project markers", f.loc(bad[0])) if bad else ctx.ok(construct, f.loc(loops[0]), exits=len(exits)))


def r19_9(ctx):
    """R19.9 an explicitly passed rename file is a source of names whatever its target suffix: the test by which
    _prepare_deprecated_options() tells rename files from files to check, folded for the paths `/p/sdkconfig.rename`,
    `/p/sdkconfig.rename.esp32` (rename files) and `/p/sdkconfig.defaults`, `/p/sdkconfig.ci.x` (files to check), classifies them so -
    a target-specific rename file that is *checked* instead is reported OK and its names are never applied to the defaults files; the
    directory part of the path plays no role (`/p/sdkconfig.rename_demo/sdkconfig.defaults` is a file to check: fixed defect 5.52)."""
    from ..foldcheck import Unfoldable, fold_str_expr
    from .common import expand_locals
    repo = ctx.repo
    f = repo.func(f"{MOD}:_prepare_deprecated_options")
    ctx.analysed(f.qual)
    tests = [(lp, n) for lp in ast.walk(f.node) if isinstance(lp, ast.For) and isinstance(lp.target, ast.Name) for n in lp.body
             if isinstance(n, ast.If) and any(isinstance(c, ast.Call) and ast.unparse(c.func).endswith("files.remove") for c in ast.walk(n))]
    if not tests:
        raise AnchorError("_prepare_deprecated_options: the explicit-rename-file arm was not found")
    lp, arm = tests[0]
    test = ast.parse(expand_locals(f.node, arm.test), mode="eval").body
    for w, want in (("/p/sdkconfig.rename", True), ("/p/sdkconfig.rename.esp32", True), ("/p/sdkconfig.defaults", False), ("/p/sdkconfig.ci.x", False),
                    ("/p/sdkconfig.rename_demo/sdkconfig.defaults", False), ("/p/sdkconfig.rename_demo/sdkconfig.rename", True)):
        construct = f"_prepare_deprecated_options/explicit file `{w}` is {'a rename file' if want else 'a file to check'}"
        try:
            got = bool(fold_str_expr(test, {lp.target.id: w}))
        except Unfoldable as e:
            raise AnalysisError(f"_prepare_deprecated_options: test `{ast.unparse(test)[:60]}` cannot be folded ({e})")
        (ctx.ok(construct, f.loc(arm)) if got == want else
         ctx.bad(construct, f"`{ast.unparse(test)[:60]}` is {got} for it: " + ("its old names are not applied, and it is checked as if it were a defaults file"
                                                                            if want else "it is taken for a rename file and never checked"), f.loc(arm)))


def r19_10(ctx):
    """R19.10 the global scope is complete, and complete before the first file is checked: (a) in _build_global_deprecated() the
    rename file of the IDF root is read whether or not a `components` directory exists (no guard on it, no return before it);
    (b) _prepare_deprecated_options() folds every rename file into the global set itself, eagerly - nothing that updates the
    set lives in a nested function or generator that runs later, while files are already being checked (the verdict of a file
    would depend on its position in the run)."""
    repo = ctx.repo
    f = repo.func(f"{MOD}:_build_global_deprecated")
    ctx.analysed(f.qual)
    fl = Flow(f.node, resolver=Resolver(f.node)).run()
    reads = [n for n in ast.walk(f.node) if isinstance(n, ast.Call) and ast.unparse(n.func).endswith("extract_lhs_from_file") and n.args and "root_rename" in ast.unparse(n.args[0])]
    if not reads:
        reads = [n for n in ast.walk(f.node) if isinstance(n, ast.Call) and ast.unparse(n.func).endswith("extract_lhs_from_file")
                 and not any(isinstance(p, (ast.For, ast.While)) for p in _anc19(repo, n))]
    if not reads:
        raise AnchorError("_build_global_deprecated: the read of the root rename file was not found")
    gs = fl.guards_at(reads[0]) or set()
    construct = "_build_global_deprecated/the IDF root's rename file is read whatever else the root contains"
    extra = sorted((k, p) for k, p in gs if "components" in k or "isdir" in k)
    (ctx.bad(construct, f"read only under {extra}: an IDF root without `components/` (the cwd fallback in a stand-alone component) loses its framework-wide deprecations", f.loc(reads[0]))
     if extra else ctx.ok(construct, f.loc(reads[0])))
    g = repo.func(f"{MOD}:_prepare_deprecated_options")
    ctx.analysed(g.qual)
    construct = "_prepare_deprecated_options/the global set is filled before the function returns"
    lazy = [n for n in ast.walk(g.node) if isinstance(n, (ast.Yield, ast.YieldFrom, ast.Lambda)) or (isinstance(n, (ast.FunctionDef, ast.AsyncFunctionDef)) and n is not g.node)]
    lazy = [n for n in lazy if any("global_deprecated" in ast.unparse(x) for x in ast.walk(n if not isinstance(n, (ast.Yield, ast.YieldFrom)) else repo.enclosing_stmt(n)))
            or isinstance(n, (ast.Yield, ast.YieldFrom))]
    nested_updates = [n for n in ast.walk(g.node) if isinstance(n, (ast.FunctionDef, ast.AsyncFunctionDef)) and n is not g.node and "global_deprecated" in ast.unparse(n)]
    (ctx.bad(construct, f"`{getattr((nested_updates or lazy)[0], 'name', 'a generator')}` updates the global set when it is run, not when _prepare_deprecated_options() is called: files "
             "checked before the walk reaches a rename file are judged without it", g.loc((nested_updates or lazy)[0])) if (nested_updates or lazy) else ctx.ok(construct, g.loc()))


def _anc19(repo, n):
    p = repo.parent(n)
    while p is not None:
        yield p
        p = repo.parent(p)


def rules():
    return [("R19.10", r19_10, 2), ("R19.9", r19_9, 6), ("R19.8", r19_8, 2), ("R19.7", r19_7, 3), ("R19.6", r19_6, 1), ("R19.1", r19_1, 3), ("R19.2", r19_2, 7), ("R19.3", r19_3, 4), ("R19.4", r19_4, 3), ("R19.5", r19_5, 8)]
