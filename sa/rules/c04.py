"""C04 - both parsers accept the same language and build the same configuration. Language equivalence of a
hand-written recursive-descent parser and a pyparsing grammar is not decidable by any analysis in reach and is NOT
decided; these are necessary table/shape conditions."""
from __future__ import annotations

import ast
import os
import re
from typing import Dict, List, Optional, Set, Tuple

from ..flow import AnalysisError, Flow, Resolver
from ..repo import AnchorError

PROPERTY = "C04"
CORE = "esp_kconfiglib.core"
P2 = "esp_kconfiglib.kconfig_parser"
G2 = "esp_kconfiglib.kconfig_grammar"
LEVEL_TEXT = (
    "Static table/shape comparison of the two parsers: every value parser 2 stores into an expression slot of a MenuNode "
    "comes from an expression constructor (conversion discipline, with sibling agreement between the conditional "
    "options); every keyword and operator of the documented grammar (docs/en/kconfiglib/formal-base.rst) is dispatched "
    "by both parsers and mapped to the same constants; both parsers fill the same property slots with tuples of the same "
    "arity; both reach the same post-processing; parser 1 joins continuation lines before every tokenisation; neither "
    "parser unescapes expanded text. Equivalence of the accepted languages and of the built trees is not decided."
)

CONSTRUCTORS = ("self.parse_expression", "self.kconfigize_expr", "self.kconfig._make_and", "self.kconfig._make_or",
                "self.kconfig._lookup_sym", "self.kconfig._lookup_const_sym", "self.create_envvar", "self._const_sym_with_embedded_vars")
CONST_EXPR = ("self.kconfig.y", "self.kconfig.n")
SLOTS = ("defaults", "selects", "implies", "ranges", "sets", "weak_sets")


def _reaching(repo, fn, name: str, use: ast.AST) -> Optional[ast.AST]:
    """value of the nearest assignment to `name` that textually precedes `use` in the same or an enclosing block."""
    st = repo.enclosing_stmt(use)
    cur: ast.AST = st
    while cur is not fn:
        par = repo.parent(cur)
        for fld in ("body", "orelse", "finalbody"):
            b = getattr(par, fld, None)
            if isinstance(b, list) and cur in b:
                for prev in reversed(b[: b.index(cur)]):
                    for n in ast.walk(prev) if isinstance(prev, (ast.If,)) else [prev]:
                        pass
                    if isinstance(prev, ast.Assign) and any(isinstance(t, ast.Name) and t.id == name for t in prev.targets):
                        return prev.value
                    if isinstance(prev, ast.AnnAssign) and isinstance(prev.target, ast.Name) and prev.target.id == name and prev.value is not None:
                        # `condition: T = self.kconfig.y` followed by a conditional reassignment: collect both
                        return prev.value
                    if isinstance(prev, ast.If):
                        # conditional reassignment `if c: name = X` after an initial value
                        for x in ast.walk(prev):
                            if isinstance(x, ast.Assign) and any(isinstance(t, ast.Name) and t.id == name for t in x.targets):
                                init = _reaching(repo, fn, name, prev)
                                return ast.Tuple(elts=[x.value] + ([init] if init is not None else []), ctx=ast.Load())
        cur = par
        if cur is None:
            break
    return None


def _is_expr_value(repo, fn, e: ast.AST, site: ast.AST, depth: int = 4) -> Tuple[bool, str]:
    t = ast.unparse(e)
    if t in CONST_EXPR:
        return True, t
    if isinstance(e, ast.Call) and ast.unparse(e.func) in CONSTRUCTORS:
        return True, ast.unparse(e.func)
    if isinstance(e, ast.IfExp):
        a, wa = _is_expr_value(repo, fn, e.body, site, depth)
        b, wb = _is_expr_value(repo, fn, e.orelse, site, depth)
        return a and b, f"{wa}|{wb}"
    if isinstance(e, ast.Tuple) and not isinstance(getattr(e, "ctx", None), ast.Store):
        rs = [_is_expr_value(repo, fn, x, site, depth) for x in e.elts]
        return all(r[0] for r in rs), "|".join(r[1] for r in rs)
    if isinstance(e, ast.Name) and depth:
        v = _reaching(repo, fn, e.id, site)
        if v is not None:
            return _is_expr_value(repo, fn, v, site, depth - 1)
    return False, t


def r04_1(ctx):
    """R04.1 conversion discipline in parser 2: every component stored into defaults/selects/implies/ranges/sets/weak_sets,
    dep, visibility and prompt[1] originates from an expression constructor (parse_expression, kconfigize_expr,
    _make_and/_make_or, y/n, _lookup_*sym) - never a raw token list; all conditional options convert their condition the
    same way."""
    repo = ctx.repo
    n_sites = 0
    cond_how: Dict[str, Set[str]] = {}
    for name in ("parse_options", "parse_menu", "parse_comment", "parse_if_entry", "parse_prompt"):
        f = repo.func(f"{P2}:Parser.{name}")
        ctx.analysed(f.qual)
        for n in ast.walk(f.node):
            comps: List[Tuple[str, ast.AST]] = []
            slot = None
            if isinstance(n, ast.Call) and isinstance(n.func, ast.Attribute) and n.func.attr == "append" and isinstance(n.func.value, ast.Attribute) \
                    and n.func.value.attr in SLOTS and n.args and isinstance(n.args[0], ast.Tuple):
                slot = n.func.value.attr
                comps = [(f"{slot}[{i}]", e) for i, e in enumerate(n.args[0].elts)]
            elif isinstance(n, ast.Assign) and isinstance(n.targets[0], ast.Attribute) and n.targets[0].attr in ("dep", "visibility"):
                slot = n.targets[0].attr
                comps = [(slot, n.value)]
            elif isinstance(n, ast.Assign) and isinstance(n.targets[0], ast.Attribute) and n.targets[0].attr == "prompt" and isinstance(n.value, ast.Tuple):
                slot = "prompt"
                comps = [("prompt[1]", n.value.elts[1])]
            for label, e in comps:
                n_sites += 1
                ok, how = _is_expr_value(repo, f.node, e, n)
                construct = f"Parser.{name}/{label} at `{ast.unparse(n)[:48]}`"
                if ok:
                    ctx.ok(construct, f.loc(n), via=how)
                    if slot in SLOTS and label.endswith("]") and int(label[-2]) == len(comps) - 1:
                        cond_how.setdefault(slot, set()).update(x for x in how.split("|") if x not in CONST_EXPR)
                else:
                    ctx.bad(construct, f"the stored value `{ast.unparse(e)}` comes from `{how}`, not from an expression constructor: the slot holds raw "
                            "tokens (strings / nested lists) and evaluation raises or differs from parser 1", f.loc(n))
    if n_sites < 20:
        raise AnalysisError(f"only {n_sites} expression-slot stores found in parser 2")
    construct = "Parser.parse_options/all conditional options convert their condition the same way"
    kinds = {k: tuple(sorted(v)) for k, v in cond_how.items()}
    if len(set(kinds.values())) <= 1 and len(kinds) >= 5:
        ctx.ok(construct, repo.func(f"{P2}:Parser.parse_options").loc(), conversions=kinds)
    else:
        ctx.bad(construct, f"condition conversion differs between option kinds: {kinds}", repo.func(f"{P2}:Parser.parse_options").loc())


def _bnf_terminals(repo) -> Set[str]:
    path = os.path.join(repo.root, "docs", "en", "kconfiglib", "formal-base.rst")
    if not os.path.exists(path):
        raise AnchorError("docs/en/kconfiglib/formal-base.rst not found")
    txt = open(path, encoding="utf-8").read()
    m = re.search(r"\.\. code-block:: bnf\n(.*?)\n\S", txt, re.S)
    block = m.group(1) if m else txt
    lits = set(re.findall(r'"([^"\s][^"]*?)"', block))
    return {l.strip() for l in lits if l.strip()}


def r04_2(ctx):
    """R04.2 keyword tables: every option keyword and entry keyword of the documented grammar is dispatched by parser 1
    (keyword map + the t0 chains of _parse_block/_parse_props) and by parser 2 (KconfigOptionBlock's tokens[0] chain,
    entry_keywords, Keyword(...) in the grammar)."""
    repo = ctx.repo
    lits = _bnf_terminals(repo)
    words: Set[str] = set()
    for l in lits:
        if re.fullmatch(r"[a-z ]+=?", l):
            for w in l.rstrip("=").split():
                words.add(w)
    ops = {l for l in lits if re.fullmatch(r"[=!<>&|():]+", l)}
    if len(words) < 25:
        raise AnalysisError(f"only {len(words)} keywords extracted from the BNF")
    kw = repo.resolve_const(CORE, "_get_keyword")
    if isinstance(kw, ast.Attribute):
        kw = kw.value
    if not isinstance(kw, ast.Dict):
        raise AnchorError("_get_keyword is not a dict literal")
    p1_words = {k.value: ast.unparse(v) for k, v in zip(kw.keys, kw.values) if isinstance(k, ast.Constant)}
    # tokens dispatched in parser 1
    disp1: Set[str] = set()
    for name in ("_parse_block", "_parse_props", "_parse_prompt", "_parse_cond", "_parse_help"):
        f = repo.funcs.get(f"{CORE}:Kconfig.{name}")
        if f is None:
            continue
        ctx.analysed(f.qual)
        for n in ast.walk(f.node):
            if isinstance(n, ast.Name) and n.id.startswith("_T_"):
                disp1.add(n.id)
            if isinstance(n, ast.Name) and n.id in ("_TYPE_TOKENS", "_SOURCE_TOKENS"):
                v = repo.resolve_const(CORE, n.id)
                for x in ast.walk(v) if v is not None else []:
                    if isinstance(x, ast.Name) and x.id.startswith("_T_"):
                        disp1.add(x.id)
    # parser 2
    ob = repo.func(f"{G2}:KconfigOptionBlock.parseImpl")
    ctx.analysed(ob.qual)
    p2_words: Set[str] = set()
    for n in ast.walk(ob.node):
        if isinstance(n, ast.Compare) and ast.unparse(n.left) == "tokens[0]":
            for c in n.comparators:
                for x in ast.walk(c):
                    if isinstance(x, ast.Constant) and isinstance(x.value, str):
                        p2_words.add(x.value)
        if isinstance(n, ast.Compare) and ast.unparse(n.left) == "tokens[1]" and isinstance(n.comparators[0], ast.Constant):
            p2_words.add(n.comparators[0].value)
        if isinstance(n, ast.Call) and isinstance(n.func, ast.Attribute) and n.func.attr == "startswith" and n.args and isinstance(n.args[0], ast.Constant) \
                and isinstance(n.args[0].value, str):
            p2_words |= set(re.findall(r"[a-z]+", n.args[0].value))
    gmod = repo.module(G2)
    for n in ast.walk(gmod.tree):
        if isinstance(n, ast.Call) and ast.unparse(n.func) in ("Keyword", "one_of", "Literal", "CaselessKeyword"):
            for x in ast.walk(n):
                if isinstance(x, ast.Constant) and isinstance(x.value, str):
                    p2_words |= set(x.value.split())
        if isinstance(n, ast.Assign) and ast.unparse(n.targets[0]) == "self.entry_keywords" and isinstance(n.value, ast.Tuple):
            p2_words |= {e.value for e in n.value.elts if isinstance(e, ast.Constant)}
    p2src = gmod.src
    for w in sorted(words):
        construct = f"keyword `{w}`/dispatched by both parsers"
        in1 = w in p1_words and (p1_words[w] in disp1 or w in ("on", "env", "if"))
        in2 = w in p2_words or re.search(rf"[\"']{w}[\"' ]", p2src) is not None
        if in1 and in2:
            ctx.ok(construct, f"{CORE.replace('.', '/')}.py", token=p1_words[w])
        else:
            ctx.bad(construct, f"documented keyword `{w}`: parser 1 {'handles' if in1 else 'does NOT handle'} it, parser 2 "
                    f"{'handles' if in2 else 'does NOT handle'} it - sources using it are accepted by one parser only", "docs/en/kconfiglib/formal-base.rst")
    ctx.note(f"R04.2: {len(words)} keywords and {len(ops)} operator literals extracted from the BNF")


OPS = {"&&": "AND", "||": "OR", "!": "NOT", "=": "EQUAL", "!=": "UNEQUAL", "<": "LESS", "<=": "LESS_EQUAL", ">": "GREATER", ">=": "GREATER_EQUAL"}


def r04_3(ctx):
    """R04.3 operator and type tables: each documented operator maps to the same constant in Parser.kconfigize_operator and
    in parser 1's tokenizer; parser 2's expression regexes cover them; the five type words map to the same constants in
    both parsers."""
    repo = ctx.repo
    lits = _bnf_terminals(repo)
    doc_ops = {l for l in lits if l in OPS}
    cls = repo.cls(f"{P2}:Parser")
    tables: Dict[str, Dict[str, str]] = {}
    for n in cls.body:
        if isinstance(n, ast.Assign) and isinstance(n.targets[0], ast.Name) and isinstance(n.value, ast.Dict):
            tables[n.targets[0].id] = {k.value: ast.unparse(v) for k, v in zip(n.value.keys, n.value.values) if isinstance(k, ast.Constant)}
    ko = tables.get("kconfigize_operator")
    if ko is None:
        raise AnchorError("Parser.kconfigize_operator not found")
    tok = repo.func(f"{CORE}:Kconfig._tokenize")
    ctx.analysed(tok.qual)
    toks = {n.id for n in ast.walk(tok.node) if isinstance(n, ast.Name) and n.id.startswith("_T_")}
    aliases = {}
    for name in OPS.values():
        v = repo.module_assigns(CORE).get(name)
        aliases[name] = ast.unparse(v) if v is not None else None
    orx = None
    cmpo = None
    for n in ast.walk(repo.module(G2).tree):
        if isinstance(n, ast.Assign) and isinstance(n.targets[0], ast.Name):
            if n.targets[0].id == "_operator_regex" and isinstance(n.value, ast.Call) and isinstance(n.value.args[0], ast.Constant):
                orx = n.value.args[0].value
            if n.targets[0].id == "_cmp_operators" and isinstance(n.value, ast.Tuple):
                cmpo = {e.value for e in n.value.elts if isinstance(e, ast.Constant)}
    if len(doc_ops) < 9:
        raise AnalysisError(f"only {sorted(doc_ops)} operators in the BNF")
    for op in sorted(doc_ops):
        cname = OPS[op]
        construct = f"operator `{op}`/same constant in both parsers"
        msgs = []
        if ko.get(op) != cname:
            msgs.append(f"parser 2 maps it to {ko.get(op)}")
        if aliases.get(cname) not in toks:
            msgs.append(f"parser 1's tokenizer never produces {aliases.get(cname)} (= {cname})")
        if orx is not None and not re.fullmatch(orx, op):
            msgs.append("parser 2's operator regex does not match it")
        if op in ("=", "!=", "<", ">", "<=", ">=") and cmpo is not None and op not in cmpo:
            msgs.append("missing from parser 2's comparison operators")
        (ctx.bad(construct, "; ".join(msgs), f"{P2.replace('.', '/')}.py") if msgs else ctx.ok(construct, f"{P2.replace('.', '/')}.py", constant=cname, token=aliases[cname]))
    st = tables.get("str_to_kconfig_type")
    kw = repo.resolve_const(CORE, "_get_keyword")
    if isinstance(kw, ast.Attribute):
        kw = kw.value
    p1 = {k.value: ast.unparse(v) for k, v in zip(kw.keys, kw.values) if isinstance(k, ast.Constant)} if isinstance(kw, ast.Dict) else {}
    for w in ("bool", "int", "hex", "string", "float"):
        construct = f"type word `{w}`/same type in both parsers"
        c2 = (st or {}).get(w)
        c1 = p1.get(w)
        a2 = ast.unparse(repo.module_assigns(CORE).get(c2)) if c2 and repo.module_assigns(CORE).get(c2) is not None else None
        (ctx.ok(construct, f"{P2.replace('.', '/')}.py", p1=c1, p2=c2) if c1 is not None and a2 == c1 else
         ctx.bad(construct, f"parser 1 maps it to {c1}, parser 2 to {c2} (= {a2})", f"{P2.replace('.', '/')}.py"))


def r04_4(ctx):
    """R04.4 property-slot parity and tuple arity: the set of MenuNode property lists filled by parser 1's _parse_props
    equals the set filled by parser 2's parse_options, and tuples appended to the same list have the same arity."""
    repo = ctx.repo
    f1 = repo.func(f"{CORE}:Kconfig._parse_props")
    f2 = repo.func(f"{P2}:Parser.parse_options")
    ctx.analysed(f1.qual, f2.qual)

    def appended(fn) -> Dict[str, Set[int]]:
        out: Dict[str, Set[int]] = {}
        alias: Dict[str, List[str]] = {}
        for n in ast.walk(fn):
            if isinstance(n, ast.Assign) and isinstance(n.targets[0], ast.Name) and isinstance(n.value, ast.IfExp):
                alias[n.targets[0].id] = [x.attr for x in (n.value.body, n.value.orelse) if isinstance(x, ast.Attribute)]
        for n in ast.walk(fn):
            if isinstance(n, ast.Call) and isinstance(n.func, ast.Attribute) and n.func.attr == "append" and n.args and isinstance(n.args[0], ast.Tuple):
                tgt = n.func.value
                names = [tgt.attr] if isinstance(tgt, ast.Attribute) else alias.get(tgt.id, []) if isinstance(tgt, ast.Name) else []
                for nm in names:
                    out.setdefault(nm, set()).add(len(n.args[0].elts))
        return out

    a1, a2 = appended(f1.node), appended(f2.node)
    for slot in sorted(set(a1) | set(a2)):
        construct = f"MenuNode.{slot}/filled by both parsers with tuples of the same arity"
        if slot in a1 and slot in a2 and a1[slot] == a2[slot]:
            ctx.ok(construct, f2.loc(), arity=sorted(a1[slot]))
        else:
            ctx.bad(construct, f"parser 1 appends arities {sorted(a1.get(slot, []))}, parser 2 {sorted(a2.get(slot, []))}", f2.loc())
    if len(set(a1) & set(a2)) < 6:
        raise AnalysisError(f"only {sorted(set(a1) & set(a2))} common slots")
    for attr in ("dep", "help", "warning", "env_var"):
        construct = f"MenuNode/{attr} assigned by both parsers"
        s1 = any(isinstance(n, ast.Attribute) and n.attr == attr and isinstance(n.ctx, ast.Store) for q in (f1,) for n in ast.walk(q.node)) or \
            any(isinstance(n, ast.Attribute) and n.attr == attr and isinstance(n.ctx, ast.Store) for n in ast.walk(repo.func(f"{CORE}:Kconfig._parse_help").node))
        s2 = any(isinstance(n, ast.Attribute) and n.attr == attr and isinstance(n.ctx, ast.Store) for n in ast.walk(f2.node))
        (ctx.ok(construct, f2.loc(), nontrivial=False) if s1 and s2 else ctx.bad(construct, f"parser 1: {s1}, parser 2: {s2}", f2.loc()))


def r04_5(ctx):
    """R04.5 shared post-processing: after the parser switch in Kconfig.__call__ both arms reach the same sequence
    _finalize_node -> sanity checks -> _build_dep -> loop check -> _add_choice_deps (none of them inside one arm)."""
    repo = ctx.repo
    f = repo.func(f"{CORE}:Kconfig.__call__")
    ctx.analysed(f.qual)
    fl = Flow(f.node).run()
    sw = [n for n in ast.walk(f.node) if isinstance(n, ast.If) and "parser_version" in ast.unparse(n.test)]
    if not sw:
        raise AnchorError("parser switch not found in Kconfig.__call__")
    for name in ("self._finalize_node", "self._check_sym_sanity", "self._check_choice_sanity", "self._build_dep", "self._add_choice_deps"):
        calls = [n for n in ast.walk(f.node) if isinstance(n, ast.Call) and ast.unparse(n.func) == name]
        construct = f"Kconfig.__call__/{name[5:]} runs for both parsers"
        if not calls:
            ctx.bad(construct, "call not found", f.loc())
            continue
        gs = fl.guards_at(calls[0]) or set()
        dep = [g for g in gs if "parser_version" in g[0]]
        (ctx.bad(construct, f"only under {dep}", f.loc(calls[0])) if dep else ctx.ok(construct, f.loc(calls[0])))
    construct = "Kconfig.__call__/both parser arms exist"
    src = ast.unparse(sw[0])
    ok = "self._parse_block(" in src and "self._new_parse(" in src
    (ctx.ok(construct, f.loc(sw[0]), nontrivial=False) if ok else ctx.bad(construct, "one parser is no longer reachable", f.loc(sw[0])))


def r04_6(ctx):
    """R04.6 line continuation is joined before every tokenisation in parser 1 (parser 2 joins all continuations in
    preprocess_file): each function that hands a raw `line` to self._tokenize first runs the `while
    line.endswith("\\\\\\n")` joining loop - the sites are siblings and must agree."""
    repo = ctx.repo
    n_sites = 0
    for f in repo.funcs_in(CORE):
        if f.cls != "Kconfig":
            continue
        calls = [n for n in ast.walk(f.node) if isinstance(n, ast.Call) and ast.unparse(n.func) == "self._tokenize" and n.args
                 and isinstance(n.args[0], ast.Name) and repo.enclosing_func(n) is f]
        for c in calls:
            n_sites += 1
            var = c.args[0].id
            ctx.analysed(f.qual)

            def events(node, _v=var):
                if isinstance(node, ast.Compare) or isinstance(node, ast.Call):
                    pass
                return []

            joins = [w for w in ast.walk(f.node) if isinstance(w, ast.While) and ast.unparse(w.test).replace('"', "'") == f"{var}.endswith('\\\\\\n')"
                     and any(isinstance(s, ast.Assign) and ast.unparse(s.targets[0]) == var and "self._readline()" in ast.unparse(s.value) and f"{var}[:-2]" in ast.unparse(s.value)
                             for s in w.body)]
            construct = f"Kconfig.{f.name}/continuation lines joined before tokenising `{var}`"
            st = repo.enclosing_stmt(c)
            ok = bool(joins) and joins[0].lineno < st.lineno and repo.parent(joins[0]) is repo.parent(st)
            if ok:
                ctx.ok(construct, f.loc(c))
            else:
                ctx.bad(construct, "this tokenisation site does not join backslash-continued lines although its sibling does: a continued line "
                        "(e.g. right after a help text) reaches the tokenizer with a trailing backslash and parser 1 rejects what parser 2 accepts", f.loc(c))
    if n_sites < 2:
        raise AnalysisError(f"only {n_sites} line tokenisation sites found")
    pp = [q for q in repo.funcs if q.startswith(f"{G2}:") and q.endswith("preprocess_file")]
    construct = "kconfig_grammar.preprocess_file/parser 2 joins continuation lines"
    ok = bool(pp) and "\\\\" in ast.unparse(repo.funcs[pp[0]].node)
    (ctx.ok(construct, repo.funcs[pp[0]].loc() if pp else G2, nontrivial=False) if ok else ctx.bad(construct, "preprocess_file no longer handles backslash continuation", G2))


EXPANDERS = ("_expand_string_vars", "_expand_whole", "expandvars", "_expand_str", "_expand_macro", "create_envvar")


def r04_7(ctx):
    """R04.7 escape processing precedes variable expansion in both parsers: no unescape(...) call has an expansion call in
    its argument (backslashes that come from an expanded value must not be consumed as escapes); where both occur in one
    expression unescape is the inner call."""
    repo = ctx.repo
    n_sites = 0
    for modname in (P2, CORE):
        for f in repo.funcs_in(modname):
            for n in ast.walk(f.node):
                if isinstance(n, ast.Call) and ast.unparse(n.func).split(".")[-1] == "unescape" and n.args and repo.enclosing_func(n) is f:
                    n_sites += 1
                    inner = [x for x in ast.walk(n.args[0]) if isinstance(x, ast.Call) and ast.unparse(x.func).split(".")[-1] in EXPANDERS]
                    # also through a local assigned from an expansion
                    if isinstance(n.args[0], ast.Name):
                        v = _reaching(repo, f.node, n.args[0].id, n)
                        if v is not None:
                            inner += [x for x in ast.walk(v) if isinstance(x, ast.Call) and ast.unparse(x.func).split(".")[-1] in EXPANDERS]
                    construct = f"{f.short}/unescape({ast.unparse(n.args[0])[:40]}) is applied to source text"
                    if inner:
                        ctx.bad(construct, f"unescape is applied to the result of {ast.unparse(inner[0].func)}: backslashes inside an expanded value are "
                                "eaten in this parser only (e.g. a Windows path from the environment)", f.loc(n))
                    else:
                        ctx.ok(construct, f.loc(n))
    if n_sites < 3:
        raise AnalysisError(f"only {n_sites} unescape sites")


# ----------------------------------------------------------------------------- added after the hold-out round
def r04_8(ctx):
    """R04.8 repeated `depends on` / `visible if` lines accumulate in both parsers: every store into a node's dep or
    visibility that is executed once per option line (inside a loop in parser 2, inside the property loop in parser 1)
    ANDs the new expression onto the slot's previous value - a plain assignment keeps only the last line."""
    repo = ctx.repo
    n_sites = 0
    targets = [(f"{P2}:Parser.parse_options", "loop"), (f"{P2}:Parser.parse_menu", "loop"), (f"{P2}:Parser.parse_comment", "loop"),
               (f"{CORE}:Kconfig._parse_props", "while")]
    for q, kind in targets:
        f = repo.func(q)
        ctx.analysed(q)
        for n in ast.walk(f.node):
            if not (isinstance(n, ast.Assign) and isinstance(n.targets[0], ast.Attribute) and n.targets[0].attr in ("dep", "visibility")):
                continue
            # inside a loop?
            p = repo.parent(n)
            in_loop = False
            while p is not None and p is not f.node:
                if isinstance(p, (ast.For, ast.While)):
                    in_loop = True
                p = repo.parent(p)
            if not in_loop:
                continue
            n_sites += 1
            slot = ast.unparse(n.targets[0])
            construct = f"{f.short}/`{slot}` accumulates over repeated option lines"
            v = n.value
            ok = isinstance(v, ast.Call) and ast.unparse(v.func).endswith("_make_and") and any(ast.unparse(a) == slot for a in v.args)
            (ctx.ok(construct, f.loc(n)) if ok else
             ctx.bad(construct, f"`{ast.unparse(n)}` overwrites the slot on every option line: with several `depends on` lines only the last one "
                     "survives (the other parser ANDs them)", f.loc(n)))
    if n_sites < 4:
        raise AnalysisError(f"only {n_sites} accumulating dep/visibility stores found")


def _list_options(repo) -> Set[str]:
    """keys of the grammar's per-entry option dictionary that hold a list (one element per option line)"""
    out: Set[str] = set()
    for f in repo.funcs_in("esp_kconfiglib.kconfig_grammar"):
        for n in ast.walk(f.node):
            if isinstance(n, ast.Dict) and len(n.keys) >= 6 and all(isinstance(k, ast.Constant) and isinstance(k.value, str) for k in n.keys):
                ks = {k.value for k in n.keys}
                if {"depends_on", "default", "select"} <= ks:
                    out |= {k.value for k, v in zip(n.keys, n.values) if isinstance(v, ast.List) and not v.elts}
    return out


def r04_8b(ctx):
    """R04.8b parser 2 consumes every line of a repeatable option: the grammar collects `depends on`, `visible if`, `default`,
    `select` ... lines into lists; nothing in the tree builder picks a fixed element (`opts["visible_if"][0]`) out of such a
    list - parser 1 applies every line (ANDing conditions, appending properties)."""
    repo = ctx.repo
    keys = _list_options(repo)
    if len(keys) < 8:
        raise AnchorError(f"kconfig_grammar: list-valued option keys not found ({sorted(keys)})")
    exempt = {"option": "parser 2 supports `option env=` only, once per entry (any further `option` line is a parser-2 syntax limitation, reported at parse time)"}
    n = 0
    for f in repo.funcs_in(P2):
        for x in ast.walk(f.node):
            if isinstance(x, ast.Subscript) and isinstance(x.slice, ast.Constant) and isinstance(x.slice.value, int) and isinstance(x.value, ast.Subscript) \
                    and isinstance(x.value.slice, ast.Constant) and x.value.slice.value in keys and repo.enclosing_func(x) is f:
                k = x.value.slice.value
                n += 1
                construct = f"{f.short}/every `{k}` line is used, not a fixed one"
                if k in exempt:
                    ctx.exempt(construct, exempt[k], f.loc(x))
                else:
                    ctx.bad(construct, f"`{ast.unparse(x)}` picks one line out of the list the grammar collected: an entry with several `{k.replace('_', ' ')}` lines "
                            "is built from one of them in parser 2 and from all of them in parser 1", f.loc(x))
    for k in sorted(keys):
        loops = [lp for f in repo.funcs_in(P2) for lp in ast.walk(f.node) if isinstance(lp, ast.For) and isinstance(lp.iter, ast.Subscript)
                 and isinstance(lp.iter.slice, ast.Constant) and lp.iter.slice.value == k]
        if loops:
            ctx.ok(f"Parser (v2)/`{k}` lines are iterated", "", nontrivial=False, loops=len(loops))


def r04_9(ctx):
    """R04.9 sibling details of the two front ends: `$(NAME)` is looked up as a macro before the environment in both parsers;
    parser 1 expands tabs over the whole help line (as parser 2's preprocess_file does)."""
    repo = ctx.repo
    k2 = repo.func(f"{P2}:Parser.kconfigize_expr")
    ctx.analysed(k2.qual)
    var_tests = [n for n in ast.walk(k2.node) if isinstance(n, ast.If) and "self.kconfig.variables" in ast.unparse(n.test)]
    env_tests = [n for n in ast.walk(k2.node) if isinstance(n, ast.If) and ast.unparse(n.test) == "expr in os.environ"]
    construct = "Parser.kconfigize_expr/$(NAME): macro before environment (as in parser 1)"
    ok = False
    if var_tests and env_tests:
        # the environment test of the $(..) arm is only reached when the macro lookup failed (elif chain or early return)
        fl2 = Flow(k2.node).run()
        vkey = ast.unparse(var_tests[0].test)
        for e in env_tests:
            gs = fl2.guards_at(e.test) or set()
            if any(k == vkey and not pol for k, pol in gs):
                ok = True
    (ctx.ok(construct, k2.loc(var_tests[0])) if ok else ctx.bad(construct, "the environment is consulted before the Kconfig macros: a macro that shares its name with an "
                                                                "environment variable expands differently in the two parsers", k2.loc()))
    f1 = repo.funcs.get(f"{CORE}:Kconfig._fn_val")
    if f1 is not None:
        ctx.analysed(f1.qual)
        src = [n for n in ast.walk(f1.node) if isinstance(n, ast.If)]
        vt = [n.lineno for n in src if "self.variables" in ast.unparse(n.test)]
        et = [n.lineno for n in ast.walk(f1.node) if isinstance(n, ast.Attribute) and ast.unparse(n) == "os.environ"]
        construct = "Kconfig._fn_val/$(NAME): macro before environment"
        (ctx.ok(construct, f1.loc()) if vt and et and min(vt) < min(et) else ctx.bad(construct, "lookup order changed in parser 1", f1.loc()))
    h = repo.func(f"{CORE}:Kconfig._parse_help")
    ctx.analysed(h.qual)
    exp = [n for n in ast.walk(h.node) if isinstance(n, ast.Call) and isinstance(n.func, ast.Attribute) and n.func.attr == "expandtabs"]
    construct = "Kconfig._parse_help/tabs expanded over the whole help line"
    whole = [e for e in exp if isinstance(e.func.value, ast.Name)]
    partial = [e for e in exp if not isinstance(e.func.value, ast.Name)]
    (ctx.bad(construct, f"`{ast.unparse(partial[0])}` expands tabs in a part of the line only: an inner tab stays in MenuNode.help under parser 1 while "
             "parser 2 replaces it by spaces", h.loc(partial[0])) if partial or not whole else ctx.ok(construct, h.loc(whole[0]), sites=len(whole)))


def r04_10(ctx):
    """R04.10 bookkeeping of the two front ends: (a) in parser 2 every push onto file_stack / location_stack has its pop at
    the same loop level (one `source` line may match several files); (b) the help-block look-ahead returns positions of the
    list it was given, not of the slice it searched; (c) type-dependent clean-up of an entry's defaults (legacy bool
    literals -> n) runs after the whole entry was read in both parsers - the `default` line may precede the type line."""
    from .common import slice_enumerate_offset, stack_balance
    repo = ctx.repo
    stack_balance(ctx, [f.qual for f in repo.funcs_in(P2) if f.cls == "Parser" and f.parent is None])
    slice_enumerate_offset(ctx, [f.qual for f in repo.funcs_in("esp_kconfiglib.kconfig_grammar") if f.parent is None])
    pp = repo.func(f"{CORE}:Kconfig._parse_props")
    ctx.analysed(pp.qual)
    calls = [n for n in ast.walk(pp.node) if isinstance(n, ast.Call) and ast.unparse(n.func).endswith("_sanitize_bool_literal_defaults")]
    construct = "Kconfig._parse_props/bool-literal defaults are sanitised once the whole entry was read"
    if not calls:
        ctx.bad(construct, "parser 1 no longer sanitises legacy bool literals (parser 2 does)", pp.loc())
    else:
        inside = [c for c in calls if any(isinstance(p, (ast.While, ast.For)) for p in _ancestors(repo, c, pp.node))]
        (ctx.bad(construct, "the clean-up runs inside the property loop, i.e. possibly before the `bool` line set the type it depends on: "
                 "`default true` written before the type line stays a symbol reference in parser 1 and becomes n in parser 2", pp.loc(inside[0]))
         if inside else ctx.ok(construct, pp.loc(calls[0])))
    p2 = [f for f in repo.funcs_in(P2) if any(isinstance(n, ast.Call) and ast.unparse(n.func).endswith("_sanitize_bool_literal_defaults") for n in ast.walk(f.node))]
    construct = "Parser (v2)/bool-literal defaults are sanitised after the type of the entry was set"
    if not p2:
        ctx.bad(construct, "parser 2 no longer sanitises legacy bool literals (parser 1 does)", "")
    else:
        f2 = p2[0]
        c2 = [n for n in ast.walk(f2.node) if isinstance(n, ast.Call) and ast.unparse(n.func).endswith("_sanitize_bool_literal_defaults")][0]
        def top_index(n):
            cur = n
            for p in _ancestors(repo, n, f2.node):
                cur = p
            return f2.node.body.index(cur) if cur in f2.node.body else -1
        st = [n for n in ast.walk(f2.node) if isinstance(n, ast.Call) and ast.unparse(n.func).endswith("_set_type")]
        ok2 = bool(st) and 0 <= top_index(st[0]) < top_index(c2)
        (ctx.ok(construct, f2.loc(c2)) if ok2 else ctx.bad(construct, "the clean-up does not follow the statement that sets the entry's type", f2.loc(c2)))


def _ancestors(repo, n, stop):
    p = repo.parent(n)
    while p is not None and p is not stop:
        yield p
        p = repo.parent(p)


def r04_11(ctx):
    """R04.11 parser 2 keeps no state from one line to the next that parser 1 does not keep: (a) nothing in the expression
    conversion is memoised over the macro table / environment (a macro may be redefined between two textually identical
    uses; parser 1 re-expands every line); (b) the line pre-processor returns every line with its trailing blanks removed,
    whatever path it takes (the option-block grammar positions itself by the preceding newline); (c) in the option-block
    loop a per-line local (the `if` condition of the line) is bound in the iteration that uses it."""
    from .common import loop_locals_bound_per_iteration, memo_purity
    repo = ctx.repo
    n = memo_purity(ctx, P2, (".variables", "os.environ"), "the second of two identical expressions keeps the macro value of the first")
    ctx.ok("Parser (v2)/memoised conversions examined", "", nontrivial=False, memo_sites=n)
    ric = [f for f in repo.funcs_in("esp_kconfiglib.kconfig_grammar") if f.name == "remove_inline_comments"]
    if not ric:
        raise AnchorError("kconfig_grammar: remove_inline_comments not found")
    f = ric[0]
    ctx.analysed(f.qual)
    from .common import expand_locals
    for i, r in enumerate(x for x in ast.walk(f.node) if isinstance(x, ast.Return)):
        construct = f"remove_inline_comments/return #{i + 1} hands back the line without trailing blanks"
        t = expand_locals(f.node, r.value) if r.value is not None else ""
        (ctx.ok(construct, f.loc(r)) if ".rstrip()" in t else
         ctx.bad(construct, f"`return {ast.unparse(r.value) if r.value else ''}` skips the rstrip() of the other path: a `config NAME   ` line keeps its blanks "
                 "and parser 2 reads an empty option block where parser 1 reads the entry", f.loc(r)))
    pi = repo.func("esp_kconfiglib.kconfig_grammar:KconfigOptionBlock.parseImpl")
    loop_locals_bound_per_iteration(ctx, pi.qual, names=None, why="An unconditional select / imply inherits the `if` of an earlier line in parser 2 only.")

def r04_12(ctx):
    """R04.12 both expression parsers nest the operators alike: `||` over `&&` over `!` over the relations over atoms - a
    relation is between two atoms and `!` negates the whole relation (`!A = B` is `!(A = B)`). In parser 2 this is the
    delegation chain of the recursive-descent methods of KconfigExpression; in parser 1 `_parse_factor` handles `!` by
    recursing into a factor and builds a relation from a symbol followed by a relation token."""
    repo = ctx.repo
    G = "esp_kconfiglib.kconfig_grammar"
    level = {}
    for name in ("_parse_or", "_parse_and", "_parse_cmp", "_parse_unary"):
        f = repo.func(f"{G}:KconfigExpression.{name}")
        ctx.analysed(f.qual)
        nxt = set()
        for c in ast.walk(f.node):
            if isinstance(c, ast.Call) and ast.unparse(c.func) == "self._parse_binary_op" and len(c.args) >= 4:
                nxt.add(ast.unparse(c.args[3]).replace("self.", ""))
            elif isinstance(c, ast.Call) and ast.unparse(c.func).startswith("self._parse_") and ast.unparse(c.func) not in ("self._parse_binary_op", f"self.{name}"):
                nxt.add(ast.unparse(c.func).replace("self.", ""))
        level[name] = nxt
    want = {"_parse_or": {"_parse_and"}, "_parse_and": {"_parse_unary"}, "_parse_unary": {"_parse_cmp"}, "_parse_cmp": {"_parse_atom"}}
    for name, w in want.items():
        construct = f"KconfigExpression.{name}/operands are parsed by {sorted(w)[0]}"
        (ctx.ok(construct, repo.func(f"{G}:KconfigExpression.{name}").loc()) if level[name] == w else
         ctx.bad(construct, f"operands are parsed by {sorted(level[name])}: the operator nesting differs from parser 1 (where `!` applies to a whole relation and a "
                 "relation is between two symbols) - e.g. `!A = B` becomes `(!A) = B`, which the evaluator cannot handle", repo.func(f"{G}:KconfigExpression.{name}").loc()))
    pf = repo.func(f"{CORE}:Kconfig._parse_factor")
    ctx.analysed(pf.qual)
    src = ast.unparse(pf.node)
    construct = "Kconfig._parse_factor/`!` negates a factor, a relation is symbol-relation-symbol"
    ok = "self._parse_factor()" in src and "_RELATIONS" in src and "self._expect_sym()" in src
    (ctx.ok(construct, pf.loc()) if ok else ctx.bad(construct, "parser 1's factor rule changed", pf.loc()))


def r04_13(ctx):
    """R04.13 the `if` that starts the condition of an option line is a keyword token outside quotes: the option-block grammar
    of parser 2 works on the whitespace-split line, where the word `if` may also sit inside a quoted default / prompt /
    value (`default "say if so"`); it is therefore never located with `tokens.index("if")` or `"if" in tokens`."""
    repo = ctx.repo
    G = "esp_kconfiglib.kconfig_grammar"
    n_ok = 0
    for f in repo.funcs_in(G):
        for x in ast.walk(f.node):
            if repo.enclosing_func(x) is not f:
                continue
            naive = None
            if isinstance(x, ast.Call) and isinstance(x.func, ast.Attribute) and x.func.attr == "index" and x.args and isinstance(x.args[0], ast.Constant) and x.args[0].value == "if":
                naive = x
            if isinstance(x, ast.Compare) and isinstance(x.left, ast.Constant) and x.left.value == "if" and len(x.ops) == 1 and isinstance(x.ops[0], (ast.In, ast.NotIn)):
                naive = x
            if naive is not None:
                ctx.bad(f"{f.short}/`if` keyword located outside quoted strings", f"`{ast.unparse(naive)}` also finds the word inside a quoted string: the line is cut "
                        "inside the string and rejected (or mis-read) by parser 2 only", f.loc(naive))
            if isinstance(x, ast.Call) and isinstance(x.func, ast.Name) and x.func.id == "index_of_if":
                n_ok += 1
    h = [f for f in repo.funcs_in(G) if f.name == "index_of_if"]
    construct = "KconfigOptionBlock/quote-aware search for the `if` keyword"
    if h and n_ok:
        tracks = any(isinstance(n, ast.Compare) and "quote" in ast.unparse(n) for n in ast.walk(h[0].node))
        (ctx.ok(construct, h[0].loc(), uses=n_ok) if tracks else ctx.bad(construct, "index_of_if no longer tracks quotes", h[0].loc()))
    else:
        ctx.ok(construct + " (no naive search found)", "", nontrivial=False)


def r04_14(ctx):
    """R04.14 the infix-to-prefix conversion of parser 2 uses every element of the operand/operator list: in each arm of
    Parser.infix_to_prefix the constant subscripts and slices applied to the list, evaluated for the lengths the arm admits,
    cover every position (a slice like `[2:-1:2]` next to `[-1]` silently drops the first operand of `A && B && C`; parser 1
    consumes token by token and cannot)."""
    repo = ctx.repo
    f = repo.func(f"{P2}:Parser.infix_to_prefix")
    ctx.analysed(f.qual)
    prm = [a.arg for a in f.node.args.args if a.arg != "self"][0]
    fl = Flow(f.node).run()
    n_arms = 0

    def admits(test_facts, n) -> bool:
        env = {"len": lambda x: n, prm: None}
        for k, pol in test_facts:
            if f"len({prm})" not in k:
                continue
            try:
                v = eval(compile(ast.parse(k.replace(f"len({prm})", str(n)), mode="eval"), "<guard>", "eval"), {"__builtins__": {}}, {})
            except Exception:
                continue
            if bool(v) != pol:
                return False
        return True

    for r in [n for n in ast.walk(f.node) if isinstance(n, ast.Return) and n.value is not None]:
        gs = fl.guards_at(r) or set()
        if not any(f"len({prm})" in k for k, _ in gs):
            continue
        # every subscript of the list that feeds this return: in the returned expression and in the statements of its block
        blk = None
        for parent in ast.walk(f.node):
            for fld in ("body", "orelse"):
                b = getattr(parent, fld, None)
                if isinstance(b, list) and any(x is r for x in b):
                    blk = b
        subs = [x for st in (blk or [r]) for x in ast.walk(st) if isinstance(x, ast.Subscript) and isinstance(x.value, ast.Name) and x.value.id == prm]
        n_arms += 1
        construct = f"Parser.infix_to_prefix/arm `{ast.unparse(r.value)[:50]}` uses every element of the list"
        lens = [n for n in range(1, 12) if admits(gs, n)]
        bad = None
        for n in lens:
            pos = list(range(n))
            used = set()
            try:
                for x in subs:
                    v = eval(compile(ast.Expression(body=ast.fix_missing_locations(ast.Subscript(value=ast.Name(id="L", ctx=ast.Load()), slice=x.slice, ctx=ast.Load()))),
                                     "<sub>", "eval"), {"__builtins__": {}}, {"L": pos})
                    used |= set(v) if isinstance(v, list) else {v}
            except Exception:
                bad = None
                used = set(pos)
            # operands sit at the even positions (the operators of a same-precedence chain are all alike, reading one is enough)
            need = {i for i in pos if i % 2 == 0} if n > 2 else set(pos)
            if not need <= used:
                bad = (n, sorted(need - used))
                break
        if bad:
            ctx.bad(construct, f"for a list of {bad[0]} elements the positions {bad[1]} are never read: the operand there is dropped from the "
                    "expression parser 2 builds (parser 1 keeps it)", f.loc(r))
        else:
            ctx.ok(construct, f.loc(r), lengths=lens)
    if n_arms < 3:
        raise AnalysisError(f"only {n_arms} length-guarded arms in infix_to_prefix")


def r04_15(ctx):
    """R04.15 both parsers resolve escapes alike: the shared unescape() drops the backslash in front of *any* character, as parser 1's
    _expand_str does (C02 R02.2)."""
    from . import c02
    from .common import delegate
    delegate(ctx, c02.r02_2, lambda c: c.startswith("unescape/"))


def r04_16(ctx):
    """R04.16 both parsers see the same entry boundaries: parser 1 takes the leading run of [A-Za-z0-9_$-] of a line as its keyword
    (`_command_match`), so `if(EXPR)`, `if!SYM`, `menu\"x\"` start an entry. The test by which parser 2's hand-written option block
    decides that a line starts a new entry - folded over the constant keyword tuple - classifies those first tokens as entry starts
    too, and does not take an option keyword (`default`, `depends`, `select`, ...) for one."""
    import re as _re
    from .c02 import compiled_pattern
    repo = ctx.repo
    GR = "esp_kconfiglib.kconfig_grammar"
    f = repo.func(f"{GR}:KconfigOptionBlock.parseImpl.<locals>.is_line_with_option")
    init = repo.func(f"{GR}:KconfigOptionBlock.__init__")
    ctx.analysed(f.qual, init.qual)
    kw = None
    for n in ast.walk(init.node):
        if isinstance(n, ast.Assign) and ast.unparse(n.targets[0]) == "self.entry_keywords" and isinstance(n.value, (ast.Tuple, ast.List, ast.Set)):
            kw = [e.value for e in n.value.elts if isinstance(e, ast.Constant)]
    if not kw:
        raise AnchorError("KconfigOptionBlock.entry_keywords is not a constant tuple")
    cm = repo.resolve_const(CORE, "_command_match")
    pat = compiled_pattern(repo, CORE, cm) if cm is not None else None
    if pat is None:
        raise AnchorError("parser 1's _command_match not found")
    tests = [x for n in ast.walk(f.node) if isinstance(n, (ast.If, ast.Return)) for x in ast.walk(n.test if isinstance(n, ast.If) else (n.value or ast.Constant(None)))
             if "entry_keywords" in ast.unparse(x) and isinstance(x, (ast.Call, ast.Compare))]
    # outermost predicate nodes only
    tests = [t for t in tests if not any(t is not o and any(y is t for y in ast.walk(o)) for o in tests)]
    if not tests:
        raise AnchorError("is_line_with_option: no test against entry_keywords")
    t = tests[0]
    subj = None
    if isinstance(t, ast.Call) and isinstance(t.func, ast.Attribute) and t.func.attr == "startswith" and "entry_keywords" in ast.unparse(t.args[0]):
        subj, pred = ast.unparse(t.func.value), (lambda w: any(w.startswith(k) for k in kw))
    elif isinstance(t, ast.Compare) and len(t.ops) == 1 and isinstance(t.ops[0], ast.In) and "entry_keywords" in ast.unparse(t.comparators[0]):
        subj, pred = ast.unparse(t.left), (lambda w: w in kw)
    elif isinstance(t, ast.Call) and isinstance(t.func, ast.Name) and t.func.id == "any":
        raise AnalysisError(f"is_line_with_option: keyword test `{ast.unparse(t)[:60]}` not understood")
    else:
        raise AnalysisError(f"is_line_with_option: keyword test `{ast.unparse(t)[:60]}` not understood")
    witnesses = ["if(A)", "if!A", 'menu"x"', "config", "endif", "default", "depends", "select", "bool", "prompt", "range", "help", "imply", "set", "visible", "option"]
    for w in witnesses:
        m = _re.match(pat, w)
        p1 = bool(m) and m.group(1) in kw
        p2 = pred(w)
        construct = f"KconfigOptionBlock/first token `{w}`: entry start for both parsers or for neither"
        if p1 == p2:
            ctx.ok(construct, f.loc(t), parser1=p1, parser2=p2)
        else:
            ctx.bad(construct, f"parser 1 reads the keyword `{m.group(1) if m else None}` ({'an' if p1 else 'no'} entry start), parser 2's test `{ast.unparse(t)[:50]}` on "
                    f"`{subj}` says {'entry start' if p2 else 'still inside the option block'}: one parser accepts a file the other rejects", f.loc(t))


def r04_17(ctx):
    """R04.17 a file that holds nothing but comments and blank lines is an empty file for both parsers: parser 2 hands a text to the
    pyparsing grammar (which demands at least one entry) only after the *preprocessed* text - comments already stripped - was found
    non-empty; a test of the raw file size lets a comment-only `Kconfig.projbuild` through to the grammar, which rejects it."""
    repo = ctx.repo
    GR = "esp_kconfiglib.kconfig_grammar"
    f = repo.func(f"{GR}:KconfigGrammar.__call__")
    ctx.analysed(f.qual)
    res = Resolver(f.node)
    fl = Flow(f.node, resolver=res).run()
    pre = [n for n in ast.walk(f.node) if isinstance(n, ast.Assign) and isinstance(n.value, ast.Call) and ast.unparse(n.value.func).endswith("preprocess_file")]
    if not pre:
        raise AnchorError("KconfigGrammar.__call__: no preprocess_file() result")
    var = ast.unparse(pre[0].targets[0])
    parses = [n for n in ast.walk(f.node) if isinstance(n, ast.Call) and isinstance(n.func, ast.Attribute) and n.func.attr in ("parse_string", "parseString")
              and n.args and ast.unparse(n.args[0]) == var]
    if not parses:
        raise AnchorError("KconfigGrammar.__call__: no parse_string(<preprocessed text>) call")
    for i, c in enumerate(parses):
        construct = f"KconfigGrammar.__call__/parse #{i + 1} only of a non-empty preprocessed text"
        gs = fl.guards_at(c) or set()
        nonempty = any(k in (var, f"not {var}") and (pol if k == var else not pol) for k, pol in gs) or any(k == f"{var} == ''" and not pol for k, pol in gs)
        nonblank = any(k == f"{var}.isspace()" and not pol for k, pol in gs) or any(k in (f"{var}.strip()", ) and pol for k, pol in gs)
        if nonempty and nonblank:
            ctx.ok(construct, f.loc(c))
        else:
            ctx.bad(construct, f"the grammar is applied to `{var}` under {sorted(gs)}: a text that is empty or blank after comment stripping reaches it "
                    "(parser 2 raises where parser 1 accepts)", f.loc(c))


def r04_18(ctx):
    """R04.18 (a) a relative `rsource` / `orsource` is resolved against the file it stands in, in both parsers: parser 2 keeps that file on
    its own stack (`self.file_stack[-1]`) - `Kconfig.filename`, which parser 1 updates while it descends, always names the top-level
    file under parser 2; (b) the hand-written option-block scanner of parser 2 accounts for a line's length only once: every update of
    its position counter in the line loop runs after the `already consumed by the help block` test failed (a blank line inside a help
    text is part of the help block; counting it again moves the end of the block into the next entry, which parser 2 then rejects)."""
    repo = ctx.repo
    f = repo.func(f"{P2}:Parser.parse_sourced")
    ctx.analysed(f.qual)
    from .common import expand_locals
    joins = [n for n in ast.walk(f.node) if isinstance(n, ast.Call) and ast.unparse(n.func) in ("join", "os.path.join") and n.args
             and "dirname(" in expand_locals(f.node, n.args[0])]
    if not joins:
        raise AnchorError("Parser.parse_sourced: no join(dirname(..), path) for relative sources")
    for j in joins:
        base = expand_locals(f.node, j.args[0])
        construct = "Parser.parse_sourced/a relative source is resolved against the file being parsed"
        (ctx.ok(construct, f.loc(j)) if "self.file_stack[-1]" in base else
         ctx.bad(construct, f"the base directory is `{base}`: under parser 2 that is not the file the `rsource` line stands in (parser 1 resolves it against "
                 "that file), so the two parsers include different files or one of them fails", f.loc(j)))
    g = repo.func("esp_kconfiglib.kconfig_grammar:KconfigOptionBlock.parseImpl")
    ctx.analysed(g.qual)
    loops = [n for n in ast.walk(g.node) if isinstance(n, ast.For) and "enumerate(lines" in ast.unparse(n.iter)]
    if not loops:
        raise AnchorError("KconfigOptionBlock.parseImpl: line loop not found")
    fl = Flow(g.node, resolver=Resolver(g.node)).run()
    bumps = [n for n in ast.walk(loops[0]) if isinstance(n, ast.AugAssign) and ast.unparse(n.target) == "current_loc" and repo.enclosing_func(n) is g]
    if not bumps:
        raise AnchorError("KconfigOptionBlock.parseImpl: no position accounting in the line loop")
    for i, b in enumerate(bumps):
        construct = f"KconfigOptionBlock.parseImpl/position update #{i + 1} only for lines the help block did not consume"
        gs = fl.guards_at(b) or set()
        ok = any("help_text_indices" in k and " in " in k and not p for k, p in gs)
        (ctx.ok(construct, g.loc(b)) if ok else
         ctx.bad(construct, f"`{ast.unparse(b)}` runs under {sorted(gs)}, i.e. also for a line the help block has already counted: the block's end position overshoots", g.loc(b)))


def r04_19(ctx):
    """R04.19 (a) an environment variable that is set to the empty string is set: parser 2's create_envvar() decides between
    expanding a reference and keeping `${NAME}` by a presence test (`name in os.environ`, `... is not None`), like parser 1's
    expandvars - a truthiness test on the looked-up value keeps the literal for `NAME=`; (b) parser 2 ends a help text where
    parser 1 does: every indentation comparison in KconfigHelpBlock.parseImpl that decides whether a line belongs to the text
    is `>= block_indent` (the indentation of the first help line; parser 1: `indent < len_` ends the text)."""
    repo = ctx.repo
    f = repo.func("esp_kconfiglib.kconfig_parser:Parser.create_envvar")
    ctx.analysed(f.qual)
    adds = [n for n in ast.walk(f.node) if isinstance(n, ast.Call) and ast.unparse(n.func).endswith("env_vars.add")]
    if not adds:
        raise AnchorError("create_envvar: env_vars.add not found")
    fl = Flow(f.node, resolver=Resolver(f.node)).run()
    gs = fl.guards_at(adds[0]) or set()
    construct = "Parser.create_envvar/a reference is expanded when the variable is present, empty or not"
    presence = [(k, p) for k, p in gs if (" in os.environ" in k and p and " not in " not in k) or (" not in os.environ" in k and not p) or (k.endswith(" is not None") and p) or (k.endswith(" is None") and not p)]
    truthy = [(k, p) for k, p in gs if (k, p) not in presence]
    (ctx.ok(construct, f.loc(adds[0])) if presence and not truthy else
     ctx.bad(construct, f"the expanding arm runs under {sorted(gs)}: a variable that is set to the empty string is kept as the literal `${{NAME}}`, parser 1 expands it to \"\"", f.loc(adds[0])))
    g = repo.func("esp_kconfiglib.kconfig_grammar:KconfigHelpBlock.parseImpl")
    ctx.analysed(g.qual)
    from .common import expand_locals

    def _is_indent(e):
        """an indentation of a line: the call itself or a local assigned from it; `block_indent` (the first help line) and the
        keyword's indent are the references it is compared with, not indentations under test"""
        if isinstance(e, ast.Name) and e.id in ("block_indent", "help_keyword_indent"):
            return False
        return "leading_whitespace_len(" in expand_locals(g.node, e, depth=2)
    cmps = [n for n in ast.walk(g.node) if isinstance(n, ast.Compare) and len(n.ops) == 1 and (_is_indent(n.left) != _is_indent(n.comparators[0]))]
    if len(cmps) < 2:
        raise AnchorError("KconfigHelpBlock.parseImpl: indentation comparisons not found")
    for i, c in enumerate(cmps):
        construct = f"KconfigHelpBlock.parseImpl/indentation test #{i + 1} compares with the first help line"
        other = c.comparators[0] if _is_indent(c.left) else c.left
        op = c.ops[0]
        mirrored = not _is_indent(c.left)
        ok = ast.unparse(other) == "block_indent" and isinstance(op, (ast.LtE if mirrored else ast.GtE, ast.Gt if mirrored else ast.Lt))
        (ctx.ok(construct, g.loc(c)) if ok else
         ctx.bad(construct, f"`{ast.unparse(c)}`: a line indented less than the first help line still counts as help text under parser 2 - the properties that follow "
                 "the help are swallowed, parser 1 ends the text there", g.loc(c)))


def rules():
    return [("R04.19", r04_19, 3), ("R04.18", r04_18, 3), ("R04.17", r04_17, 2), ("R04.16", r04_16, 12), ("R04.15", r04_15, 1), ("R04.14", r04_14, 3), ("R04.13", r04_13, 1), ("R04.12", r04_12, 5), ("R04.11", r04_11, 3), ("R04.10", r04_10, 4), ("R04.1", r04_1, 20), ("R04.2", r04_2, 25), ("R04.3", r04_3, 14), ("R04.4", r04_4, 8), ("R04.5", r04_5, 5),
            ("R04.6", r04_6, 3), ("R04.7", r04_7, 3), ("R04.8", r04_8, 4), ("R04.8b", r04_8b, 5), ("R04.9", r04_9, 2)]


