"""C20 - generated documentation omits only unreachable options and has no dangling links (necessary
structural conditions in esp_idf_kconfig/gen_kconfig_doc.py and kconfgen)."""
from __future__ import annotations

import ast
import itertools
import re
from typing import Dict, List, Optional, Set, Tuple

from ..flow import AnalysisError, Flow, Resolver
from ..foldcheck import Operand, check_binary_chain, eval_guard
from ..paths import ReadSetAnalysis
from ..repo import AnchorError

PROPERTY = "C20"
DOC = "esp_idf_kconfig.gen_kconfig_doc"
CORE = "esp_kconfiglib.core"
LEVEL_TEXT = (
    "Static analysis of the docs generator: the constant-folding rules of _minimize_expr are extracted per operator and "
    "checked against the two-point Kconfig algebra on abstract operands (soundness table, not execution); only a "
    "dependency folded to n hides an item; the target-constancy test consults every value source the evaluator "
    "consults (read-set comparison); every site that emits a :ref: is guarded by the predicate under which the "
    "anchor is written, and the anchor is written for every node that passes that predicate. Not decided: that every "
    "option that can be made visible is documented (reachability over assignments)."
)


def _rel(op: str):
    if op == "EQUAL":
        return lambda a, b: 2 if a == b else 0
    if op == "UNEQUAL":
        return lambda a, b: 2 if a != b else 0
    return None


def _arm_rules(stmts: List[ast.stmt], op: str):
    """ordered (guard, result, line) rules of one operator arm, written either as `if g: return r` statements or as an
    if/elif chain that assigns a result variable (`v = r`; `v = None` = no fold)"""
    def result_of(body):
        if len(body) == 1 and isinstance(body[0], ast.Return):
            return body[0].value
        if len(body) == 1 and isinstance(body[0], ast.Assign) and isinstance(body[0].targets[0], ast.Name):
            return body[0].value
        return "?"

    rules = []
    for st in stmts:
        if isinstance(st, ast.Expr) and isinstance(st.value, ast.Constant):
            continue
        if isinstance(st, (ast.Assign, ast.Pass)) and (isinstance(st, ast.Pass) or (isinstance(st.value, ast.Constant) and st.value.value is None)):
            continue
        if not isinstance(st, ast.If):
            raise AnalysisError(f"_minimize_expr/{op}: unrecognised statement at line {st.lineno}")
        cur: Optional[ast.If] = st
        while cur is not None:
            r = result_of(cur.body)
            if r == "?":
                raise AnalysisError(f"_minimize_expr/{op}: unrecognised arm body at line {cur.lineno}")
            if not (isinstance(r, ast.Constant) and r.value is None):
                rules.append((cur.test, r, cur.lineno))
            if len(cur.orelse) == 1 and isinstance(cur.orelse[0], ast.If):
                cur = cur.orelse[0]
            else:
                if cur.orelse:
                    r2 = result_of(cur.orelse)
                    if r2 == "?":
                        raise AnalysisError(f"_minimize_expr/{op}: unrecognised else body at line {cur.lineno}")
                    if not (isinstance(r2, ast.Constant) and r2.value is None):
                        rules.append((ast.Constant(True), r2, cur.lineno))
                cur = None
    return rules


def r20_1(ctx):
    """R20.1 folding rules are sound: for AND/OR/NOT and the relation arms of _minimize_expr, every (guard -> result) rule
    returns a value equal to the operator applied to the operands for every valuation of the free operands (relation
    operands range over the constants and free symbols; identical operands are the same object)."""
    repo = ctx.repo
    f = repo.func(f"{DOC}:_minimize_expr")
    ctx.analysed(f.qual)
    consts = {"y": "y", "n": "n"}
    # locate the operator chain: if expr[0] == kconfiglib.AND: ... elif ... OR ... EQUAL ... UNEQUAL ... else
    from .common import expand_locals
    chain = None
    for n in ast.walk(f.node):
        if isinstance(n, ast.If) and expand_locals(f.node, n.test).endswith("expr[0] == kconfiglib.AND"):
            chain = n
    if chain is None:
        raise AnchorError("_minimize_expr: operator chain not found")
    final = None
    par = repo.parent(chain)
    body = getattr(par, "orelse", []) if chain in getattr(par, "orelse", []) else getattr(par, "body", [])
    idx = body.index(chain)
    for st in body[idx + 1:]:
        if isinstance(st, ast.Return):
            final = st.value
    if final is None or not isinstance(final, ast.Tuple):
        raise AnchorError("_minimize_expr: final `return (expr[0], new_expr1, new_expr2)` not found")
    e1, e2 = ast.unparse(final.elts[1]), ast.unparse(final.elts[2])
    arms: Dict[str, List[ast.stmt]] = {}
    cur: Optional[ast.If] = chain
    else_body: List[ast.stmt] = []
    while cur is not None:
        t = expand_locals(f.node, cur.test)
        op = t.split("kconfiglib.")[-1]
        arms[op] = cur.body
        if len(cur.orelse) == 1 and isinstance(cur.orelse[0], ast.If):
            cur = cur.orelse[0]
        else:
            else_body = cur.orelse
            cur = None
    arms["ORDER"] = else_body
    for op in ("AND", "OR", "EQUAL", "UNEQUAL", "ORDER"):
        if op not in arms:
            ctx.bad(f"_minimize_expr/{op} arm", "arm not found", f.loc(chain))
            continue
        rules = _arm_rules(arms[op], op)
        rules.append((None, final, final.lineno))
        construct = f"_minimize_expr/{op} folding rules sound"
        if op in ("AND", "OR"):
            bad = check_binary_chain(rules, e1, e2, consts, op, min if op == "AND" else max)
        elif op in ("EQUAL", "UNEQUAL"):
            bad = check_binary_chain(rules, e1, e2, consts, op, _rel(op), kinds=["y", "n", "s1", "s2"])
        else:
            # <, <=, >, >=: any fold to a constant must hold for all valuations; only the vacuous type rule may fold
            bad = []
            for k1, k2 in itertools.product(["y", "n", "s1", "s2"], repeat=2):
                ops = {e1: Operand(k1), e2: Operand(k2)}
                for g, res, ln in rules[:-1]:
                    if eval_guard(g, ops, consts):
                        bad.append({"operands": (k1, k2), "valuation": {}, "rule_line": ln, "result": ast.unparse(res), "expected": "no fold", "got": "const", "op": op})
        if bad:
            b = bad[0]
            ctx.bad(construct, f"operands {b['operands']} valuation {b['valuation']}: the rule at line {b['rule_line']} returns {b['result']} "
                    f"(value {b['got']}) but {op} gives {b['expected']} - a condition is folded to a constant it does not have, so visible "
                    "options disappear from (or impossible ones appear in) the documentation", f"{f.module.relpath}:{b['rule_line']}")
        else:
            ctx.ok(construct, f"{f.module.relpath}:{arms[op][0].lineno if arms[op] else chain.lineno}", rules=len(rules))
    # NOT arm
    nots = [n for n in ast.walk(f.node) if isinstance(n, ast.If) and ast.unparse(n.test).endswith("expr[0] == kconfiglib.NOT")]
    construct = "_minimize_expr/NOT folding rules sound"
    if not nots:
        ctx.bad(construct, "NOT arm not found", f.loc())
    else:
        pairs = {}
        for st in nots[0].body:
            if isinstance(st, ast.If) and isinstance(st.body[0], ast.Return):
                pairs[ast.unparse(st.test)] = ast.unparse(st.body[0].value)
        fin = [st for st in nots[0].body if isinstance(st, ast.Return)]
        ok = pairs.get("new_expr is n") == "y" and pairs.get("new_expr is y") == "n" and len(pairs) == 2 and fin and \
            ast.unparse(fin[0].value) == "(kconfiglib.NOT, new_expr)"
        (ctx.ok(construct, f.loc(nots[0])) if ok else ctx.bad(construct, f"rules {pairs}", f.loc(nots[0])))
    # leaf folds
    construct = "_minimize_expr/bool leaf folded only when target-constant, to its own value"
    leaf = [n for n in f.node.body if isinstance(n, ast.If) and "_is_item_target_constant(expr)" in ast.unparse(n.test)]
    ok = bool(leaf) and "expr.orig_type == kconfiglib.BOOL" in ast.unparse(leaf[0].test) and \
        ast.unparse(leaf[0].body[0]) == "return y if kconfiglib.expr_value(expr) else n"
    (ctx.ok(construct, f.loc(leaf[0])) if ok else ctx.bad(construct, "leaf fold changed", f.loc()))
    construct = "_minimize_expr/comparison over target-constant operands folded by evaluation"
    cmpf = [n for n in ast.walk(f.node) if isinstance(n, ast.If) and "_COMPARISON_OPS" in ast.unparse(n.test)]
    ok = bool(cmpf) and "visibility._expr_is_target_constant(expr)" in ast.unparse(cmpf[0].test) and \
        ast.unparse(cmpf[0].body[0]) == "return y if kconfiglib.expr_value(expr) else n"
    (ctx.ok(construct, f.loc(cmpf[0])) if ok else ctx.bad(construct, "comparison fast path changed", f.loc()))
    # undefined reference folded to n is a truth-value fold; as a relation operand it changes the meaning
    construct = "_minimize_expr/relation operands are not folded as truth values"
    und = [n for n in f.node.body if isinstance(n, ast.If) and "_is_undefined_reference(expr)" in ast.unparse(n.test)]
    operand_calls = [n for n in ast.walk(f.node) if isinstance(n, ast.Assign) and ast.unparse(n.targets[0]) in (e1, e2)]
    fl = Flow(f.node).run()
    guarded_for_rel = all(any((k == "expr[0] in (kconfiglib.AND, kconfiglib.OR)" and p) or (k == "expr[0] in _COMPARISON_OPS" and not p)
                              for k, p in (fl.guards_at(a) or set())) for a in operand_calls)
    if und and operand_calls and not guarded_for_rel:
        ctx.bad(construct, "operands of =, !=, <, ... are minimised like conditions, so an undefined bare symbol on either side becomes the "
                "constant n: `MODE = fast` is shown (and evaluated for folding) as `MODE = n`", f.loc(operand_calls[0]))
    else:
        ctx.ok(construct, f.loc())


def r20_2(ctx):
    """R20.2 only n hides: _implies_invisibility hides exactly when the minimised dependency is the constant n; the
    constancy memo is written once per symbol with the computed value."""
    repo = ctx.repo
    f = repo.func(f"{DOC}:ConfigTargetVisibility._implies_invisibility")
    ctx.analysed(f.qual)
    r = [n for n in ast.walk(f.node) if isinstance(n, ast.Return)]
    construct = "ConfigTargetVisibility._implies_invisibility/hides iff the folded dependency is n"
    ok = bool(r) and ast.unparse(r[0].value) == "(_minimize_expr(item, self, self.kconfig) is self.kconfig.n, None)"
    (ctx.ok(construct, f.loc()) if ok else ctx.bad(construct, f"returns {ast.unparse(r[0].value) if r else None}", f.loc()))
    g = repo.func(f"{DOC}:ConfigTargetVisibility._is_item_target_constant")
    ctx.analysed(g.qual)
    st = [n for n in ast.walk(g.node) if isinstance(n, ast.Assign) and ast.unparse(n.targets[0]).startswith("self._constants_cache[")]
    construct = "ConfigTargetVisibility._is_item_target_constant/memo written once with the computed value"
    ok = len(st) == 1 and ast.unparse(st[0].targets[0]) == "self._constants_cache[item.name]" and ast.unparse(st[0].value) == "is_constant"
    (ctx.ok(construct, g.loc(st[0])) if ok else ctx.bad(construct, "memo handling changed", g.loc()))
    v = repo.func(f"{DOC}:ConfigTargetVisibility._visible")
    construct = "ConfigTargetVisibility._visible/a node is hidden only by its own folded dependency or a hidden parent"
    src = ast.unparse(v.node)
    parent_ok = "self._visible(node.parent) if node.parent else (True, None)" in src
    calls = [n for n in ast.walk(v.node) if isinstance(n, ast.Call) and ast.unparse(n.func) == "self._implies_invisibility"]
    if not calls:
        ctx.bad(construct, "the node's own dependency is no longer consulted (_implies_invisibility is not called)", v.loc())
    else:
        c0 = calls[0]
        par = repo.parent(c0)
        negated = None
        # (a) wrapped by a helper that returns (not t[0], t[1])
        if isinstance(par, ast.Call) and isinstance(par.func, ast.Name):
            h = [x for x in ast.walk(v.node) if isinstance(x, ast.FunctionDef) and x.name == par.func.id]
            if h and any(isinstance(r_, ast.Return) and isinstance(r_.value, ast.Tuple) and ast.unparse(r_.value.elts[0]).startswith("not ")
                         for r_ in ast.walk(h[0])):
                negated = True
        # (b) unpacked, first component negated into the visibility
        if negated is None and isinstance(par, ast.Assign) and isinstance(par.targets[0], ast.Tuple) and isinstance(par.targets[0].elts[0], ast.Name):
            first = par.targets[0].elts[0].id
            negs = [a for a in ast.walk(v.node) if isinstance(a, ast.Assign) and ast.unparse(a.value) == f"not {first}"]
            rets = {ast.unparse(x) for r_ in ast.walk(v.node) if isinstance(r_, ast.Return) and r_.value is not None for x in ast.walk(r_.value)
                    if isinstance(x, ast.Name)}
            if negs:
                negated = True
            elif first in rets or any(isinstance(a, ast.Assign) and isinstance(a.value, ast.Tuple) and first in {ast.unparse(e) for e in a.value.elts}
                                      for a in ast.walk(v.node)):
                negated = False
        if negated is None:
            raise AnalysisError("_visible: how the verdict of _implies_invisibility reaches the result is not recognised")
        gs = Flow(v.node).run().guards_at(c0) or set()
        if not parent_ok:
            ctx.bad(construct, "the parent's visibility is no longer consulted first", v.loc())
        elif not negated:
            ctx.bad(construct, "`implies invisibility` is used as the visibility without being negated", v.loc(c0))
        else:
            ctx.ok(construct, v.loc(c0), guards=sorted(map(str, gs)))


SOURCES = ("item.defaults", "item.rev_dep", "item.weak_rev_dep", "item.rev_values", "item.weak_rev_values")


def r20_4(ctx):
    """R20.4 the constancy test consults every value source the evaluator consults: Symbol.str_value/bool_value take values
    from defaults, select, imply, set and set default - each must be examined by _is_item_target_constant (conditions
    *and* values), otherwise a promptless symbol driven by a user option is folded to its current value."""
    repo = ctx.repo
    ev = ReadSetAnalysis(repo, CORE, "Symbol", ctx.depth, {"str_value", "bool_value", "visibility", "selection", "assignable"}, {"expr_value", "_sym_to_num"})
    for e in ("str_value", "bool_value"):
        ev.run(repo.func(f"{CORE}:Symbol.{e}"))
    need = {s.replace("item.", "") for s in SOURCES if any(p == s.replace("item.", "self.") or p.startswith(s.replace("item.", "self.") + "[")
                                                            for p in ev.components())}
    f = repo.func(f"{DOC}:ConfigTargetVisibility._is_item_target_constant")
    ctx.analysed(f.qual, *ev.functions)
    # which components reach _expr_is_target_constant (directly or through a loop variable over the source)
    examined: Dict[str, Set[str]] = {}
    for n in ast.walk(f.node):
        if isinstance(n, ast.Call) and ast.unparse(n.func) == "self._expr_is_target_constant":
            a = n.args[0]
            t = ast.unparse(a)
            if t.startswith("item."):
                examined.setdefault(t.split(".")[1], set()).add("whole")
            elif isinstance(a, ast.Name):
                # find the comprehension that binds it
                p = repo.parent(n)
                while p is not None and not isinstance(p, (ast.GeneratorExp, ast.ListComp)):
                    p = repo.parent(p)
                if p is not None:
                    for g in p.generators:
                        names = [x.id for x in ast.walk(g.target) if isinstance(x, ast.Name)]
                        if a.id in names:
                            idx = names.index(a.id)
                            for src in [x for x in ast.walk(g.iter) if isinstance(x, ast.Attribute) and ast.unparse(x.value) == "item"]:
                                examined.setdefault(src.attr, set()).add(f"[{idx}]")
    if len(need) < 5:
        raise AnalysisError(f"evaluator sources found: {sorted(need)}")
    for s in sorted(need):
        construct = f"ConfigTargetVisibility._is_item_target_constant/examines {s}"
        got = examined.get(s, set())
        want = {"whole"} if s in ("rev_dep", "weak_rev_dep") else {"[0]", "[1]"}
        if want <= got:
            ctx.ok(construct, f.loc(), components=sorted(got))
        else:
            ctx.bad(construct, f"the evaluator takes values from {s} (components {sorted(want)}) but the constancy test looks only at {sorted(got) or 'nothing'}: "
                    "a promptless symbol that mirrors or is driven by a user-settable option is treated as constant and its dependents are dropped "
                    "from the documentation", f.loc())


def r20_3(ctx):
    """R20.3 every cross-reference has an anchor: each site that emits :ref: text is guarded by the predicate under which
    write_menu_item writes the anchor, and the anchor is written for every node that passes that predicate (no further
    early exit before the anchor)."""
    repo = ctx.repo
    w = repo.func(f"{DOC}:write_menu_item")
    ctx.analysed(w.qual)
    fl = Flow(w.node, resolver=Resolver(w.node)).run()
    anchors = [n for n in ast.walk(w.node) if isinstance(n, ast.Call) and ast.unparse(n.func) == "f.write" and n.args
               and isinstance(n.args[0], ast.JoinedStr) and ast.unparse(n.args[0]).startswith("f'.. _{get_link_anchor(node)}:")
               and repo.enclosing_func(n) is w]
    construct = "write_menu_item/anchor written for every visible, non-excluded, non-member node"
    if not anchors:
        ctx.bad(construct, "the node's anchor is no longer written", w.loc())
    else:
        gs = fl.guards_at(anchors[0]) or set()
        allowed = {("is_choice_member(node) or not visibility.visible(node)", False), ("is_choice_member(node)", False),
                   ("visibility.visible(node)", True), ("node_is_menu(node) and node.prompt[0] in EXCLUDED_MENU_NAMES", False),
                   ("is_menu and node.prompt[0] in EXCLUDED_MENU_NAMES", False)}
        extra = sorted(g for g in gs if g not in allowed)
        if extra:
            ctx.bad(construct, f"the anchor is additionally guarded by {extra}: nodes that other items link to (visible(), _has_docs_anchor and the "
                    "Contains list do not know this condition) get no anchor", w.loc(anchors[0]))
        else:
            ctx.ok(construct, w.loc(anchors[0]), guards=sorted(map(str, gs)))
    # choice member anchors
    mem = [n for n in ast.walk(w.node) if isinstance(n, ast.Call) and ast.unparse(n.func) == "f.write" and n.args
           and "get_link_anchor(choice_node)" in ast.unparse(n.args[0])]
    construct = "write_menu_item/member anchors written under the choice entry"
    (ctx.ok(construct, w.loc(mem[0])) if mem else ctx.bad(construct, "choice members get no anchor", w.loc()))
    # emitters
    d = repo.func(f"{DOC}:write_menu_item.<locals>._doc_str")
    fd = Flow(d.node).run()
    refs = [n for n in ast.walk(d.node) if isinstance(n, ast.Return) and ":ref:" in ast.unparse(n.value)]
    construct = "_doc_str/:ref: only for symbols that get an anchor"
    ok = bool(refs) and all(("_has_docs_anchor(sc, visibility)", True) in (fd.guards_at(r) or set()) for r in refs)
    (ctx.ok(construct, d.loc(refs[0]) if refs else d.loc(), sites=len(refs)) if ok else ctx.bad(construct, "a :ref: is emitted without _has_docs_anchor()", d.loc()))
    b = repo.func(f"{DOC}:get_breadcrumbs")
    ctx.analysed(d.qual, b.qual)
    fb = Flow(b.node).run()
    refs = [n for n in ast.walk(b.node) if isinstance(n, ast.JoinedStr) and ":ref:" in ast.unparse(n)]
    construct = "get_breadcrumbs/:ref: only for ancestors whose anchor is written"
    if not refs:
        ctx.ok(construct + " (no :ref: emitted)", b.loc(), nontrivial=False)
    else:
        gs = fb.guards_at(refs[0]) or set()
        ok = any("EXCLUDED_MENU_NAMES" in k and not p for k, p in gs) and ("node.prompt", True) in gs
        (ctx.ok(construct, b.loc(refs[0]), guards=sorted(map(str, gs))) if ok else
         ctx.bad(construct, "every ancestor with a prompt is linked, including menus in EXCLUDED_MENU_NAMES, whose anchor is never written", b.loc(refs[0])))
    # Contains list
    cont = [n for n in ast.walk(w.node) if isinstance(n, ast.Call) and ast.unparse(n.func) == "child_list.append"]
    construct = "write_menu_item/Contains list links only written children"
    if not cont:
        ctx.bad(construct, "Contains list not found", w.loc())
    else:
        gs = fl.guards_at(cont[0]) or set()
        keys = {k for k, p in gs if p} | {"not " + k for k, p in gs if not p}
        need = {"visibility.visible(child)", "child.prompt", "not is_choice_member(child)", "not child.prompt[0] in EXCLUDED_MENU_NAMES"}
        miss = sorted(n for n in need if n not in keys)
        (ctx.bad(construct, f"missing guards {miss}", w.loc(cont[0])) if miss else ctx.ok(construct, w.loc(cont[0])))
    ad = repo.func("kconfgen.core:append_deprecated_doc")
    ctx.analysed(ad.qual)
    fa = Flow(ad.node).run()
    refs = [n for n in ast.walk(ad.node) if isinstance(n, ast.Constant) and isinstance(n.value, str) and ":ref:" in n.value and repo.enclosing_func(n) is ad]
    construct = "append_deprecated_doc/:ref: only for replacements that were written"
    ok = bool(refs) and any(k.startswith("option_was_written(") and p for k, p in (fa.guards_at(refs[0]) or set()))
    (ctx.ok(construct, ad.loc(refs[0]) if refs else ad.loc()) if ok else ctx.bad(construct, "deprecated list links options that are not in the document", ad.loc()))
    h = repo.func(f"{DOC}:_has_docs_anchor")
    s = repo.func(f"{DOC}:_sym_has_visible_prompted_node")
    ctx.analysed(h.qual, s.qual)
    construct = "_has_docs_anchor/true only if a prompted node (or its parent choice) is visible for the target"
    # every visibility question of the predicate is asked about the node that carries the anchor: the parent choice for a
    # choice member, the node itself otherwise, and only for nodes with a prompt; True is returned only on a positive answer
    from .common import expand_locals, facts_vs_formula
    from ..flow import canon_atom, decompose
    res = Resolver(s.node)
    fs = Flow(s.node, resolver=res).run()
    MEMBER = "node.parent is not None and type(node.parent.item) is kconfiglib.Choice"
    msgs = []
    asks = [n for n in ast.walk(s.node) if isinstance(n, ast.Call) and ast.unparse(n.func) == "visibility.visible" and n.args]
    if not asks:
        msgs.append("the predicate no longer asks the target visibility")
    for c in asks:
        gs = set(fs.guards_at(c) or ())
        if not any(k in ("node.prompt", "loop[*].prompt", "sym.nodes[*].prompt") and p for k, p in gs):
            msgs.append(f"`{ast.unparse(c)}` is asked for nodes without a prompt")
        cases = []
        stack = [(res.resolve(c.args[0]), set())]
        while stack:
            e, extra = stack.pop()
            if isinstance(e, ast.IfExp):
                stack.append((e.body, extra | {canon_atom(res, x, q) for x, q in decompose(e.test, True)}))
                stack.append((e.orelse, extra | {canon_atom(res, x, q) for x, q in decompose(e.test, False)}))
            else:
                cases.append((ast.unparse(e), extra))
        for tgt, extra in cases:
            facts = {(k.replace("sym.nodes[*]", "node").replace("loop[*]", "node"), p) for k, p in (gs | extra)}
            facts = {(k, p) for k, p in facts if "parent" in k}
            t = tgt.replace("sym.nodes[*]", "node").replace("loop[*]", "node")
            if t == "node.parent":
                if not facts_vs_formula(facts, MEMBER)[0]:
                    msgs.append("the parent's visibility is asked for a node that is not a choice member")
            elif t == "node":
                if not facts_vs_formula(facts, f"not ({MEMBER})")[0]:
                    msgs.append("a choice member's own node decides although its anchor is written under the parent choice")
            else:
                msgs.append(f"visibility asked for `{tgt}`")
    for r in [n for n in ast.walk(s.node) if isinstance(n, ast.Return) and n.value is not None]:
        v = ast.unparse(r.value)
        if v == "False":
            continue
        if v == "True":
            if not any(k.startswith("visibility.visible(") and p for k, p in (fs.guards_at(r) or set())):
                msgs.append("True is returned without a positive visibility answer")
        elif not v.startswith("visibility.visible("):
            msgs.append(f"returns `{v[:60]}`")
    if "_sym_has_visible_prompted_node(sym, visibility)" not in ast.unparse(h.node):
        msgs.append("_has_docs_anchor no longer defers to _sym_has_visible_prompted_node")
    (ctx.ok(construct, h.loc(), asks=len(asks)) if not msgs else ctx.bad(construct, "; ".join(sorted(set(msgs))), s.loc()))


def r20_5(ctx):
    """R20.5 (a) the per-item visibility memo is used only for named items defined exactly once (a definition's visibility also
    depends on its enclosing menu); (b) number literals - decimal, hex and float - are never taken for undefined symbols;
    (c) every member of a written choice gets its anchor, because _has_docs_anchor() promises one for every member of a
    visible choice."""
    repo = ctx.repo
    v = repo.func(f"{DOC}:ConfigTargetVisibility._visible")
    ctx.analysed(v.qual)
    sd = [n for n in ast.walk(v.node) if isinstance(n, ast.Assign) and ast.unparse(n.targets[0]) == "simple_def"]
    construct = "ConfigTargetVisibility._visible/memo only for named items with a single definition"
    fl = Flow(v.node).run()
    ok = bool(sd)
    for n in sd:
        t = ast.unparse(n.value)
        gs = fl.guards_at(n) or set()
        sym_arm = any("kconfiglib.Symbol" in k and p for k, p in gs)
        if sym_arm:
            ok = ok and "len(node.item.nodes) <= 1" in t and ("name_id is not None" in t or "node.item.name is not None" in t)
        else:
            ok = ok and t == "False"
    st = [n for n in ast.walk(v.node) if isinstance(n, ast.Assign) and ast.unparse(n.targets[0]).startswith("self.visibility[")]
    ok = ok and bool(st) and all(("simple_def", True) in (fl.guards_at(n) or set()) for n in st)
    (ctx.ok(construct, v.loc(sd[0]) if sd else v.loc()) if ok else
     ctx.bad(construct, "the verdict of one definition (or of one unnamed choice) is reused for others: an option defined again inside a visible menu is omitted, or "
             "written with a breadcrumb into a menu that is not", v.loc(sd[0]) if sd else v.loc()))
    # the key under which a verdict is remembered tells kinds apart: `config X`, `choice X` and `menu "X"` are three items
    construct = "ConfigTargetVisibility._visible/memo key tells a symbol, a named choice and a menu title apart"
    keys = [n for n in ast.walk(v.node) if isinstance(n, ast.Subscript) and ast.unparse(n.value) == "self.visibility"]
    from .common import expand_locals
    key_defs = [n for n in ast.walk(v.node) if isinstance(n, ast.Assign) and len(n.targets) == 1 and keys and ast.unparse(n.targets[0]) == ast.unparse(keys[0].slice)]
    sym_defs = [n for n in key_defs if any("kconfiglib.Symbol" in k and p for k, p in (fl.guards_at(n) or set()))]
    if not keys:
        raise AnchorError("ConfigTargetVisibility._visible: the memo is no longer used")
    okk = bool(sym_defs) and all(isinstance(n.value, ast.Tuple) and any("type(" in ast.unparse(e) for e in n.value.elts) for n in sym_defs)
    (ctx.ok(construct, v.loc(sym_defs[0])) if okk else
     ctx.bad(construct, "items are remembered under their bare name and every node is looked up under its name (menus: their title): a hidden `config X` hides the "
             "always-visible `choice X`, a hidden `config LWIP` hides `menu \"LWIP\"` with everything in it", v.loc(keys[0])))
    u = repo.func(f"{DOC}:_is_undefined_reference")
    ctx.analysed(u.qual)
    src = ast.unparse(u.node)
    construct = "_is_undefined_reference/decimal, hex and float literals are not undefined symbols"
    from .common import expand_locals

    def excludes(fn_name):
        # a call fn(<the symbol's name>) that makes the answer False: `... and not fn(name)` in the returned conjunction, or
        # `if fn(name) [or ...]: return False`
        for c in ast.walk(u.node):
            if not (isinstance(c, ast.Call) and ast.unparse(c.func).split(".")[-1] == fn_name and len(c.args) == 1
                    and expand_locals(u.node, c.args[0]) == "sym.name"):
                continue
            p_ = repo.parent(c)
            if isinstance(p_, ast.UnaryOp) and isinstance(p_.op, ast.Not):
                q = repo.parent(p_)
                while isinstance(q, ast.BoolOp) and isinstance(q.op, ast.And):
                    q = repo.parent(q)
                if isinstance(q, ast.Return):
                    return True
            else:
                q, child = p_, c
                while isinstance(q, ast.BoolOp) and isinstance(q.op, ast.Or):
                    q, child = repo.parent(q), q
                if isinstance(q, ast.If) and q.test is child and len(q.body) == 1 and isinstance(q.body[0], ast.Return) \
                        and isinstance(q.body[0].value, ast.Constant) and q.body[0].value.value is False:
                    return True
        return False
    ok = excludes("_looks_like_number") and excludes("is_float")
    (ctx.ok(construct, u.loc()) if ok else
     ctx.bad(construct, "the literal test no longer covers both _looks_like_number (decimal, 0x...) and is_float: such a literal in a relation is folded to n", u.loc()))
    w = repo.func(f"{DOC}:write_menu_item")
    fw = Flow(w.node).run()
    mem = [n for n in ast.walk(w.node) if isinstance(n, ast.Call) and ast.unparse(n.func) == "f.write" and n.args and "get_link_anchor(choice_node)" in ast.unparse(n.args[0])]
    construct = "write_menu_item/every member of a written choice gets its anchor"
    if not mem:
        ctx.bad(construct, "member anchors are not written", w.loc())
    else:
        loop = None
        p = repo.parent(mem[0])
        while p is not None and not isinstance(p, ast.While):
            p = repo.parent(p)
        loop = p
        gs = fw.guards_at(mem[0]) or set()
        extra = sorted(g for g in gs if "choice_node" in g[0] and g != ("choice_node", True))
        skips = [x for x in ast.walk(loop) if isinstance(x, (ast.Continue, ast.Break))] if loop is not None else []
        (ctx.bad(construct, f"members are skipped ({extra or 'continue/break in the loop'}) although _has_docs_anchor() reports an anchor for every member of a visible "
                 "choice: a :ref: to a skipped member dangles", w.loc(mem[0])) if extra or skips else ctx.ok(construct, w.loc(mem[0])))


def r20_6(ctx):
    """R20.6 the condition printed on a select / set row is the Kconfig condition minus the `depends on` of the symbol that
    *carries* the statement (those are ANDed into the statement's condition by _propagate_deps): rows of the documented
    symbol's own statements strip its own direct_dep, `forced by` / `set by` rows strip the *source's* direct_dep. Stripping
    another symbol's dependencies removes conjuncts that are genuinely part of the condition (the row claims the option
    is forced in configurations where nothing is forced)."""
    repo = ctx.repo
    f = repo.func(f"{DOC}:write_menu_item")
    ctx.analysed(f.qual)
    helpers = {n.name: n for n in ast.walk(f.node) if isinstance(n, ast.FunctionDef) and n is not f.node}
    n_rows = 0
    for lp in ast.walk(f.node):
        if not isinstance(lp, ast.For):
            continue
        it = ast.unparse(lp.iter)
        tgt = [t.id for t in lp.target.elts if isinstance(t, ast.Name)] if isinstance(lp.target, ast.Tuple) else []
        if not tgt:
            continue
        if "." in it and it.split(".")[1].split("(")[0] in ("selects", "sets", "implies", "weak_sets") and "(" not in it:
            owner = it.split(".")[0]
        elif ".get(" in it and ("selected_by" in it or "set_by" in it or "implied_by" in it):
            owner = tgt[0]
        else:
            continue
        calls = []
        for st in lp.body:
            for c in ast.walk(st):
                if isinstance(c, ast.Call) and isinstance(c.func, ast.Name):
                    if c.func.id == "_prepare_cond":
                        calls.append(c)
                    elif c.func.id in helpers:
                        calls += [x for x in ast.walk(helpers[c.func.id]) if isinstance(x, ast.Call) and isinstance(x.func, ast.Name) and x.func.id == "_prepare_cond"]
        if not calls:
            continue
        n_rows += 1
        construct = f"write_menu_item/rows over `{it[:40]}` strip the dependencies of the statement's owner"
        dd = [next((ast.unparse(k.value) for k in c.keywords if k.arg == "direct_deps"), None) for c in calls]
        want = f"{owner}.direct_dep"
        (ctx.ok(construct, f.loc(lp), owner=owner) if all(d == want for d in dd) else
         ctx.bad(construct, f"direct_deps={dd} where the statement belongs to `{owner}`: the printed condition loses conjuncts that are not implied by "
                 "`Symbol can be set when`", f.loc(calls[0])))
    if n_rows < 4:
        raise AnalysisError(f"only {n_rows} select/set row loops found in write_menu_item")


def r20_7(ctx):
    """R20.7 (a) only what is known to hold is struck from a displayed condition: _remove_deps_from_expr replaces by y the option's whole
    `depends on` expression (which holds wherever the row applies) or, at most, the operands of a conjunction of it - never the
    operands of a disjunction: from `A || B` neither A nor B follows, and a row `default 32 if A` would be shown unconditional and
    hide the rows below it although it does not apply when only B holds; (b) a link points where the anchor is written: the
    `Contains:` list takes the target of every child from get_link_anchor(child), the function that writes the child's anchor."""
    from .common import expand_locals
    repo = ctx.repo
    f = repo.func(f"{DOC}:_remove_deps_from_expr")
    ctx.analysed(f.qual)
    prm = [a.arg for a in f.node.args.args]
    if len(prm) < 3:
        raise AnchorError("_remove_deps_from_expr no longer takes (expr, deps, y)")
    deps = prm[1]
    fl = Flow(f.node, resolver=Resolver(f.node)).run()
    calls = [n for n in ast.walk(f.node) if isinstance(n, ast.Call) and isinstance(n.func, ast.Name) and n.func.id == f.node.name and len(n.args) >= 2]
    if not calls:
        raise AnchorError("_remove_deps_from_expr: no recursion")
    for i, c in enumerate(calls):
        construct = f"_remove_deps_from_expr/recursion #{i + 1} strikes only what the dependency implies"
        d = expand_locals(f.node, c.args[1])
        if d == deps:
            ctx.ok(construct, f.loc(c))
            continue
        gs = fl.guards_at(c) or set()
        conj = any(k.replace("kconfiglib.", "") == f"{deps}[0] == AND" and p for k, p in gs)
        if d.startswith(f"{deps}[") and conj:
            ctx.ok(construct, f.loc(c), operand_of="AND")
        else:
            ctx.bad(construct, f"the part `{d}` of the dependency is struck under {sorted(gs)}: unless the dependency is a conjunction that part need not hold where "
                    "the row applies (`depends on A || B`), and a condition is shown as always true that is not", f.loc(c))
    w = repo.func(f"{DOC}:write_menu_item")
    ctx.analysed(w.qual)
    cont = [n for n in ast.walk(w.node) if isinstance(n, ast.Call) and ast.unparse(n.func) == "child_list.append" and n.args]
    construct = "write_menu_item/Contains list links the anchor get_link_anchor(child) writes"
    if not cont:
        ctx.bad(construct, "Contains list not found", w.loc())
    else:
        a = cont[0].args[0]
        tgt = expand_locals(w.node, a.elts[-1]) if isinstance(a, ast.Tuple) and a.elts else expand_locals(w.node, a)
        (ctx.ok(construct, w.loc(cont[0])) if tgt == "get_link_anchor(child)" else
         ctx.bad(construct, f"the link target is `{tgt[:60]}`, not get_link_anchor(child): for some children the `:ref:` names an anchor that is never written", w.loc(cont[0])))


def r20_8(ctx):
    """R20.8 (a) a relation is rewritten only into an equivalent one: every table of gen_kconfig_doc that maps relation constants to relation
    constants is, entry for entry, the negation (`!(A < B)` is `A >= B`) or, entry for entry, the mirror image for swapped operands
    (`A < B` is `B > A`) - a table that mixes the two shows a condition with a different truth value; (b) a symbol is a docs-target
    constant by *prefix*: the name tests of the target folding, folded for `IDF_TARGET`, `IDF_TARGET_ESP32` (target) and
    `BOOTLOADER_SKIP_IDF_TARGET_CHECK` (an ordinary user option), tell them apart; (c) the deprecated-options list links a replacement
    only if it is not a choice option (those have no section of their own and, in a promptless definition, no anchor at all)."""
    from ..foldcheck import Unfoldable, fold_str_expr
    from .common import expand_locals, facts_imply
    repo = ctx.repo
    m = repo.module(DOC)
    RELS = {"EQUAL": lambda c: c == 0, "UNEQUAL": lambda c: c != 0, "LESS": lambda c: c < 0, "LESS_EQUAL": lambda c: c <= 0,
            "GREATER": lambda c: c > 0, "GREATER_EQUAL": lambda c: c >= 0}
    n_tab = 0
    for st in m.tree.body:
        v = st.value if isinstance(st, (ast.Assign, ast.AnnAssign)) else None
        if not isinstance(v, ast.Dict) or not v.keys:
            continue
        def rel(e):
            t = ast.unparse(e).split(".")[-1]
            return t if t in RELS else None
        if not all(k is not None and rel(k) and rel(x) for k, x in zip(v.keys, v.values)):
            continue
        n_tab += 1
        name = ast.unparse(st.targets[0] if isinstance(st, ast.Assign) else st.target)
        construct = f"{name}/relation table is a consistent negation or a consistent mirror"
        neg = all(all(RELS[rel(x)](c) == (not RELS[rel(k)](c)) for c in (-1, 0, 1)) for k, x in zip(v.keys, v.values))
        mir = all(all(RELS[rel(x)](-c) == RELS[rel(k)](c) for c in (-1, 0, 1)) for k, x in zip(v.keys, v.values))
        (ctx.ok(construct, f"{m.relpath}:{st.lineno}", kind="negation" if neg else "mirror") if neg or mir else
         ctx.bad(construct, "the table is neither the negation nor the operand swap of every relation it lists (e.g. it sends `<` to `>` and `=` to `!=`): a condition "
                 "rewritten through it is shown with another truth value for equal operands", f"{m.relpath}:{st.lineno}"))
    ctx.ok("gen_kconfig_doc/relation-to-relation tables examined", "", nontrivial=False, tables=n_tab)
    # (b)
    f = repo.func(f"{DOC}:ConfigTargetVisibility._is_item_target_constant")
    ctx.analysed(f.qual)
    tests = [n.test for n in ast.walk(f.node) if isinstance(n, ast.If) and "target_env_var" in ast.unparse(n.test) and "name" in ast.unparse(n.test)]
    if not tests:
        raise AnchorError("_is_item_target_constant: no name test against target_env_var")
    t = ast.parse(expand_locals(f.node, tests[0]), mode="eval").body
    subj = next((ast.unparse(x) for x in ast.walk(t) if isinstance(x, ast.Attribute) and x.attr == "name"), "item.name")
    for w, want in (("IDF_TARGET", True), ("IDF_TARGET_ESP32", True), ("BOOTLOADER_SKIP_IDF_TARGET_CHECK", False)):
        construct = f"ConfigTargetVisibility._is_item_target_constant/`{w}` is {'the target or derived from it' if want else 'an ordinary option'}"
        try:
            got = bool(fold_str_expr(t, {subj: w, "self.target_env_var": "IDF_TARGET"}))
        except Unfoldable as e:
            raise AnalysisError(f"_is_item_target_constant: name test `{ast.unparse(t)[:60]}` cannot be folded ({e})")
        (ctx.ok(construct, f.loc(tests[0])) if got == want else
         ctx.bad(construct, f"the name test `{ast.unparse(t)[:60]}` is {got}: " + ("the target symbol is not folded" if want else
                                                                               "a user option is folded to its current value and what depends on it is left out of the docs"), f.loc(tests[0])))
    # (c)
    ad = repo.func("kconfgen.core:append_deprecated_doc")
    ctx.analysed(ad.qual)
    fa = Flow(ad.node, resolver=Resolver(ad.node)).run()
    refs = [n for n in ast.walk(ad.node) if isinstance(n, ast.Constant) and isinstance(n.value, str) and ":ref:" in n.value and repo.enclosing_func(n) is ad]
    construct = "append_deprecated_doc/no :ref: to a choice option"
    if not refs:
        ctx.ok(construct, ad.loc(), nontrivial=False)
    else:
        gs = fa.guards_at(refs[0]) or set()
        ok = any(".choice is None" in k and p for k, p in gs) or any(".choice" in k and "or" in k and p for k, p in gs)
        (ctx.ok(construct, ad.loc(refs[0])) if ok else
         ctx.bad(construct, f"the link is written under {sorted(gs)}: a replacement that is a choice option has no section of its own, and one added by a promptless "
                 "definition of the choice has no anchor at all - the :ref: dangles", ad.loc(refs[0])))


def r20_9(ctx):
    """R20.9 (a) only a `select` pins an option: _is_item_target_constant() folds an option to y for its strong reverse dependency
    (`rev_dep`) alone - an `imply` (`weak_rev_dep`) changes a default the user can still override, and folding it hides every
    option that depends on the negation; (b) two conditions are the same when they are equal part by part in the same order:
    _conds_equal() never compares an operand of one side with a different position of the other - `A < B` and `B < A` are
    different rows of a default / range list."""
    repo = ctx.repo
    f = repo.func(f"{DOC}:ConfigTargetVisibility._is_item_target_constant")
    ctx.analysed(f.qual)
    # the test that pins an option although it has a reachable prompt: the `if` conditions of the function (the promptless arm
    # below them may look at everything that determines the value)
    weak = [n for t in ast.walk(f.node) if isinstance(t, ast.If) for n in ast.walk(t.test) if isinstance(n, ast.Attribute) and n.attr in ("weak_rev_dep", "weak_rev_values")]
    strong = [n for n in ast.walk(f.node) if isinstance(n, ast.Attribute) and n.attr == "rev_dep"]
    construct = "ConfigTargetVisibility._is_item_target_constant/an option is pinned on by `select` only"
    if not strong:
        raise AnchorError("_is_item_target_constant: rev_dep not consulted")
    (ctx.bad(construct, "an implied option is folded to y although the user can switch it off: everything under `depends on !OPTION` disappears from the documentation", f.loc(weak[0]))
     if weak else ctx.ok(construct, f.loc(strong[0])))
    g = repo.func(f"{DOC}:_conds_equal")
    ctx.analysed(g.qual)
    a, b = [x.arg for x in g.node.args.args][:2]
    construct = "_conds_equal/conditions are compared position by position"
    crossed = []
    for c in ast.walk(g.node):
        if isinstance(c, ast.Call) and ast.unparse(c.func) == "_conds_equal" and len(c.args) == 2:
            x, y = c.args
            if isinstance(x, ast.Subscript) and isinstance(y, ast.Subscript) and isinstance(x.slice, ast.Constant) and isinstance(y.slice, ast.Constant) \
                    and {ast.unparse(x.value), ast.unparse(y.value)} == {a, b} and x.slice.value != y.slice.value:
                crossed.append(c)
        if isinstance(c, ast.Call) and ast.unparse(c.func) in ("reversed", "sorted", "set", "frozenset") and any(ast.unparse(z) in (a, b) or ast.unparse(z).startswith((a + "[", b + "[")) for z in c.args):
            crossed.append(c)
    (ctx.bad(construct, f"`{ast.unparse(crossed[0])[:60]}` compares different positions: `HIGH < LOW` is dropped as a duplicate of `LOW < HIGH` and the documented default / range is "
             "not the one Kconfig uses", g.loc(crossed[0])) if crossed else ctx.ok(construct, g.loc()))


def r20_10(ctx):
    """R20.10 the documented "Symbol can be set when" condition is the prompt condition: write_menu_item() derives it from
    node.prompt[1], which after finalisation is `prompt's own if AND visible-if of the enclosing menus AND dependencies`;
    node.dep alone leaves the first two out and the documentation promises an option can be set where Kconfig hides it."""
    from .common import expand_locals
    repo = ctx.repo
    f = repo.func(f"{DOC}:write_menu_item")
    ctx.analysed(f.qual)
    construct = "write_menu_item/`can be set when` is computed from the prompt condition"
    sites = [n for n in ast.walk(f.node) if isinstance(n, ast.Assign) and len(n.targets) == 1 and isinstance(n.targets[0], ast.Name)
             and "can_be_set" in n.targets[0].id and isinstance(n.value, ast.Call)]
    if not sites:
        secs = [n for n in ast.walk(f.node) if isinstance(n, ast.Constant) and isinstance(n.value, str) and "can be set when" in n.value]
        if secs:
            ctx.ok(construct, f.loc(secs[0]), nontrivial=False, note="section present, condition not held in a can_be_set* local")
        else:
            ctx.ok(construct, f.loc(), nontrivial=False, note="no such section")
        return
    for s in sites:
        src = expand_locals(f.node, s.value)
        if "prompt[1]" in src:
            ctx.ok(construct, f.loc(s))
        elif re.search(r"\.dep\b", src) or "direct_dep" in src:
            ctx.bad(construct, f"`{src[:80]}`: the dependencies alone - the prompt's own `if` and the `visible if` of the enclosing menus are left out, "
                    "the documented condition holds where the option cannot be set", f.loc(s))
        else:
            ctx.ok(construct, f.loc(s), nontrivial=False, note="condition source not recognised")


def rules():
    return [("R20.10", r20_10, 1), ("R20.9", r20_9, 2), ("R20.8", r20_8, 5), ("R20.7", r20_7, 3), ("R20.6", r20_6, 4), ("R20.1", r20_1, 8), ("R20.2", r20_2, 3), ("R20.4", r20_4, 5), ("R20.3", r20_3, 7), ("R20.5", r20_5, 3)]
