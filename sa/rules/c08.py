"""C08 - inferred values stay inferred; user values stay user values (necessary structural conditions in
Kconfig._load_config and the default resolvers)."""
from __future__ import annotations

import ast
from typing import Dict, List, Optional, Set, Tuple

from ..flow import AnalysisError, Flow, Resolver
from ..pathenum import BRK, CONT, NORM, RET, Enumerator, Path
from ..repo import AnchorError

PROPERTY = "C08"
CORE = "esp_kconfiglib.core"
LEVEL_TEXT = (
    "Static analysis of Kconfig._load_config (bounded path enumeration of the per-line loop body with the flag "
    "value_is_default tracked): no path on which the flag is set reaches a user-value write or the deferred "
    "user-selection list; every path that parsed an entry ends with the flag cleared (the marker covers one entry); "
    "user-set entries and deferred choice selections are applied before any default-marked entry is resolved; the "
    "mismatch record dominates the policy dispatch in both resolvers, the kconfig arm writes nothing, the sdkconfig "
    "arm validates before it rewrites defaults; baseline writes are scoped to the main file. Not decided: equality of "
    "configurations with and without the marked entries after arbitrary later edits."
)

WRITE_CALLS = ("set_value_and_source", "set_value")


def _line_loop(fn: ast.FunctionDef) -> ast.For:
    for n in ast.walk(fn):
        if isinstance(n, ast.For) and "enumerate(f" in ast.unparse(n.iter):
            return n
    raise AnchorError("_load_config: per-line loop `for linenr, line in enumerate(f, 1)` not found")


def _enumerate_line_paths(loop: ast.For, start_flag: bool):
    def on_stmt(st, p: Path, loops):
        if isinstance(st, (ast.If, ast.For, ast.While, ast.Try, ast.With)):
            return
        for n in ast.walk(st):
            if isinstance(n, ast.Call):
                t = ast.unparse(n.func).split(".")[-1]
                if t in WRITE_CALLS:
                    p.events.append(("WRITE", st.lineno, p.flags.get("value_is_default")))
                if t == "append" and "choices_with_user_set_value" in ast.unparse(n.func):
                    p.events.append(("DEFER_USER", st.lineno, p.flags.get("value_is_default")))
                if t == "resolve_defaults":
                    p.events.append(("RESOLVE", st.lineno, None))
        if isinstance(st, ast.Assign) and any(ast.unparse(t) == "value_is_default" for t in st.targets) and ast.unparse(st.value) == "True":
            p.events.append(("MARKER", st.lineno, None))
        if isinstance(st, ast.Assign) and any(isinstance(t, ast.Subscript) and "symbols_with_default_values" in ast.unparse(t) for t in st.targets):
            p.events.append(("DEFER_DEFAULT", st.lineno, p.flags.get("value_is_default")))
        if isinstance(st, ast.Expr) and "choices_with_default_values.add" in ast.unparse(st):
            p.events.append(("DEFER_DEFAULT", st.lineno, p.flags.get("value_is_default")))

    return Enumerator(on_stmt, max_iter=1, max_paths=400000).run(loop.body, Path({"value_is_default": start_flag}))


def r08_1(ctx):
    """R08.1 default-marked entries never become user values: on no feasible path through the per-line loop body on which
    value_is_default is true is set_value / set_value_and_source called for the entry or the entry appended to the
    deferred user-selection list; and entries deferred as defaults are deferred only under the flag."""
    repo = ctx.repo
    f = repo.func(f"{CORE}:Kconfig._load_config")
    ctx.analysed(f.qual)
    loop = _line_loop(f.node)
    paths = _enumerate_line_paths(loop, True)
    bad_w: Dict[int, int] = {}
    bad_d: Dict[int, int] = {}
    n_w = 0
    for p, status in paths:
        for k, ln, flag in p.events:
            if k in ("WRITE", "DEFER_USER"):
                n_w += 1
                if flag is not False:
                    bad_w[ln] = bad_w.get(ln, 0) + 1
            if k == "DEFER_DEFAULT" and flag is not True:
                bad_d[ln] = bad_d.get(ln, 0) + 1
    # paths that start with the flag cleared: user entries must be written, not deferred as defaults
    paths_f = _enumerate_line_paths(loop, False)
    for p, status in paths_f:
        for k, ln, flag in p.events:
            if k == "DEFER_DEFAULT" and flag is not True:
                bad_d[ln] = bad_d.get(ln, 0) + 1
    base = f.module.relpath
    construct = "Kconfig._load_config/no user-value write under the default marker"
    if n_w == 0:
        raise AnalysisError("no value-write sites found in the line loop")
    if bad_w:
        ln = sorted(bad_w)[0]
        ctx.bad(construct, f"the write at line {ln} is reachable with value_is_default possibly true ({sum(bad_w.values())} paths): a "
                "default-marked entry pins a user value", f"{base}:{ln}")
    else:
        ctx.ok(construct, f.loc(loop), paths=len(paths), write_events=n_w)
    construct = "Kconfig._load_config/only marked entries are deferred as defaults"
    if bad_d:
        ln = sorted(bad_d)[0]
        ctx.bad(construct, f"the deferral at line {ln} is reachable without the marker: an unmarked (user) entry is treated as a default",
                f"{base}:{ln}")
    else:
        ctx.ok(construct, f.loc(loop), paths=len(paths) + len(paths_f))


def r08_2(ctx):
    """R08.2 the marker covers exactly one entry: every path through the loop body on which an assignment or `is not set`
    line was matched ends (continue or end of body) with value_is_default cleared, so the marker cannot leak to the
    following entry; the block delimiters clear it too."""
    repo = ctx.repo
    f = repo.func(f"{CORE}:Kconfig._load_config")
    loop = _line_loop(f.node)
    paths = _enumerate_line_paths(loop, True)
    leaks: Dict[int, int] = {}
    n_entry = 0
    for p, status in paths:
        if status not in (NORM, CONT):
            continue
        if any(e[0] == "MARKER" for e in p.events):
            continue
        matched = any(c == "match" and pol for c, pol, _, _ in p.conds) or any("DEP_OP" in c and pol for c, pol, _, _ in p.conds)
        if not matched:
            continue  # blank / comment / skipped-block lines are not entries
        n_entry += 1
        if p.flags.get("value_is_default") is not False:
            last = p.conds[-1][2] if p.conds else loop.lineno
            leaks[last] = leaks.get(last, 0) + 1
    construct = "Kconfig._load_config/marker cleared at the end of every entry"
    if n_entry < 10:
        raise AnalysisError(f"only {n_entry} entry paths found")
    if leaks:
        ln = sorted(leaks)[0]
        ctx.bad(construct, f"{sum(leaks.values())} entry paths leave the loop body with value_is_default still set (last test at line "
                f"{ln}): the `# default:` marker leaks to the next assignment, which is then loaded as a default", f"{f.module.relpath}:{ln}")
    else:
        ctx.ok(construct, f.loc(loop), entry_paths=n_entry)
    construct = "Kconfig._load_config/marker set only by the marker line"
    marks = [n for n in ast.walk(loop) if isinstance(n, ast.Assign) and any(ast.unparse(t) == "value_is_default" for t in n.targets)
             and ast.unparse(n.value) == "True"]
    fl = Flow(f.node, body=[loop]).run()
    ok = len(marks) == 1 and any("comment_default_value" in k and pol for k, pol in (fl.guards_at(marks[0]) or set()))
    (ctx.ok(construct, f.loc(marks[0])) if ok else ctx.bad(construct, f"{len(marks)} sites set value_is_default = True", f.loc(loop)))


def r08_3(ctx):
    """R08.3 a mismatch is reported for every policy: in Symbol.resolve_defaults and Choice.resolve_defaults the
    DefaultValuesArea record dominates the policy dispatch; the dispatch covers every DefaultsPolicy member (or raises);
    the kconfig arm neither injects nor sets; the sdkconfig arm injects through a validating helper."""
    repo = ctx.repo
    members = []
    pol = repo.cls("esp_kconfiglib.constants:DefaultsPolicy")
    for n in pol.body:
        if isinstance(n, ast.Assign) and isinstance(n.targets[0], ast.Name):
            members.append(n.targets[0].id)
    if len(members) < 3:
        raise AnchorError("DefaultsPolicy members not found")
    for q in (f"{CORE}:Symbol.resolve_defaults", f"{CORE}:Choice.resolve_defaults"):
        f = repo.func(q)
        ctx.analysed(q)

        def events(node):
            if isinstance(node, (ast.If, ast.For, ast.While, ast.Try, ast.With)):
                return []
            return ["record"] if any(isinstance(n, ast.Call) and ast.unparse(n.func).endswith("add_record") and
                                     "DefaultValuesArea" in ast.unparse(n) for n in ast.walk(node)) else []

        fl = Flow(f.node, events=events).run()
        tests = [n for n in ast.walk(f.node) if isinstance(n, ast.Compare) and "defaults_policy" in ast.unparse(n.left)
                 and "DefaultsPolicy." in ast.unparse(n.comparators[0])]
        if not tests:
            raise AnchorError(f"{f.short}: no policy dispatch")
        handled: Set[str] = set()
        n_unrec = 0
        for t in tests:
            handled.add(ast.unparse(t.comparators[0]).split(".")[-1])
            gs = fl.guards_at(t) or set()
            diffguard = any(("!=" in k or "==" in k and not p) and "_sdkconfig_value" in k for k, p in gs) or \
                any("len(diff) > 0" in k and p for k, p in gs)
            if not diffguard:
                continue  # arm not guarded by a detected difference (several-y arm of the choice resolver): outside the rule
            evs = fl.events_at(t) or set()
            if "record" not in evs:
                n_unrec += 1
        construct = f"{f.short}/mismatch record dominates the policy dispatch"
        if n_unrec:
            ctx.bad(construct, "a policy is applied to a detected default-value mismatch on a path that has not added the "
                    "DefaultValuesArea record: the report depends on the policy", f.loc(tests[0]))
        else:
            ctx.ok(construct, f.loc(tests[0]), policy_tests=len(tests))
        if f.cls == "Symbol":
            construct = f"{f.short}/dispatch covers every policy or raises"
            has_raise = any(isinstance(n, ast.Raise) and "KconfigError" in ast.unparse(n) for n in ast.walk(f.node))
            missing = [m for m in members if m not in handled]
            (ctx.ok(construct, f.loc(), handled=sorted(handled)) if not missing or has_raise else
             ctx.bad(construct, f"policies {missing} fall through silently", f.loc()))
        # arms
        for ifn in [n for n in ast.walk(f.node) if isinstance(n, ast.If)]:
            t = ast.unparse(ifn.test)
            if "defaults_policy == DefaultsPolicy.USE_KCONFIG" in t:
                construct = f"{f.short}/kconfig arm writes nothing"
                calls = [ast.unparse(c.func) for b in ifn.body for c in ast.walk(b) if isinstance(c, ast.Call)]
                badc = [c for c in calls if any(x in c for x in ("_inject_default_value", "set_value", "unset_value"))]
                (ctx.bad(construct, f"the kconfig policy calls {badc}", f.loc(ifn)) if badc else ctx.ok(construct, f.loc(ifn)))
            if "defaults_policy == DefaultsPolicy.USE_SDKCONFIG" in t:
                construct = f"{f.short}/sdkconfig arm injects the stored default (line {ifn.lineno - f.node.lineno})"
                calls = [ast.unparse(c.func) for b in ifn.body for c in ast.walk(b) if isinstance(c, ast.Call)]
                ok = any("_inject_default_value" in c for c in calls) and not any("set_value" in c for c in calls)
                construct = f"{f.short}/sdkconfig arm injects the stored default, never a user value"
                (ctx.ok(construct, f.loc(ifn)) if ok else ctx.bad(construct, f"calls {calls[:6]}", f.loc(ifn)))
    inj = repo.func(f"{CORE}:Symbol._inject_default_value")
    ctx.analysed(inj.qual)
    construct = "Symbol._inject_default_value/validates the stored value before rewriting defaults"
    first = [n for n in inj.node.body if not (isinstance(n, ast.Expr) and isinstance(n.value, ast.Constant))][0]
    ok = isinstance(first, ast.If) and "not self.value_is_valid(" in ast.unparse(first.test) and isinstance(first.body[-1], ast.Return) \
        and ast.unparse(first.body[-1].value) == "False"
    (ctx.ok(construct, inj.loc(first)) if ok else ctx.bad(construct, "defaults are rewritten from an unvalidated sdkconfig value", inj.loc()))
    construct = "Symbol.resolve_defaults/skips user-set, choice, absent and invisible symbols"
    r = repo.func(f"{CORE}:Symbol.resolve_defaults")
    flr = Flow(r.node, resolver=Resolver(r.node)).run()
    cmps = [n for n in r.node.body if isinstance(n, ast.If) and "self.str_value" in ast.unparse(n.test) and "_sdkconfig_value" in ast.unparse(n.test)]
    if not cmps:
        raise AnchorError("Symbol.resolve_defaults: comparison of the evaluated value with the stored one not found")
    gs = flr.guards_at(cmps[0].test) or set()
    want = {("self._user_value is None", True), ("self.choice", False), ("self._sdkconfig_value is None", False), ("self.resolve_vis() == 0", False)}
    miss = sorted(want - gs)
    (ctx.ok(construct, r.loc(cmps[0]), guards=sorted(gs)) if not miss else
     ctx.bad(construct, f"the comparison is reached without {miss} being established (guards there: {sorted(gs)})", r.loc(cmps[0])))


def r08_5(ctx):
    """R08.5 user entries first, defaults afterwards: in _load_config the loop that resolves default-marked symbols/choices
    runs after the per-line loop and after the deferred user choice selections were applied."""
    repo = ctx.repo
    f = repo.func(f"{CORE}:Kconfig._load_config")
    loop = _line_loop(f.node)
    marks: Dict[int, str] = {id(loop.iter): "lines"}
    res_calls = []
    for n in ast.walk(f.node):
        if isinstance(n, ast.For) and ast.unparse(n.iter) in ("choices_with_user_set_value", "choices_with_user_set_value.items()"):
            marks[id(n.iter)] = "choices_applied"
        if isinstance(n, ast.Call) and ast.unparse(n.func).endswith(".resolve_defaults") and repo.enclosing_func(n) is f:
            res_calls.append(n)
    if "choices_applied" not in marks.values() or not res_calls:
        raise AnchorError("_load_config: deferred-choice loop / resolve_defaults loops not found")

    def events(node):
        return [marks[id(node)]] if id(node) in marks else []

    fl = Flow(f.node, events=events, track_guards=False).run()
    for c in res_calls:
        st = repo.enclosing_stmt(c)
        p = repo.parent(st)
        site = p.iter if isinstance(p, ast.For) else st
        evs = fl.events_at(site) or set()
        construct = f"Kconfig._load_config/{ast.unparse(c.func)}() after all lines and deferred user selections"
        if {"lines", "choices_applied"} <= evs and not any(isinstance(x, ast.For) and x is loop for x in _ancestors(repo, c)):
            ctx.ok(construct, f.loc(c))
        else:
            ctx.bad(construct, f"default-marked entries are resolved before {sorted({'lines', 'choices_applied'} - evs)}: they are compared "
                    "against a configuration that does not yet contain the user's values", f.loc(c))
    # the deferred selections are applied through the user-value API
    ap = [n for n in ast.walk(f.node) if isinstance(n, ast.For) and ast.unparse(n.iter) == "choice_selections"]
    construct = "Kconfig._load_config/deferred choice entries applied in file order (last y wins)"
    ok = bool(ap) and any(isinstance(x, ast.Call) and ast.unparse(x.func).endswith("set_value_and_source") for x in ast.walk(ap[0])) \
        and not any(isinstance(x, (ast.Break, ast.Continue)) for x in ast.walk(ap[0]))
    (ctx.ok(construct, f.loc(ap[0])) if ok else ctx.bad(construct, "the deferred (sym, val) list is no longer applied entry by entry", f.loc()))


def _ancestors(repo, n):
    p = repo.parent(n)
    while p is not None:
        yield p
        p = repo.parent(p)


def r08_6(ctx):
    """R08.6 baseline writes are scoped to the main file: every store into _sdkconfig_value / _loaded_as_default in
    _load_config is guarded by is_main_sdkconfig (shared with C16 R16.2)."""
    repo = ctx.repo
    f = repo.func(f"{CORE}:Kconfig._load_config")
    fl = Flow(f.node).run()
    n_sites = 0
    for n in ast.walk(f.node):
        if isinstance(n, ast.Assign) and repo.enclosing_func(n) is f:
            for t in n.targets:
                if isinstance(t, ast.Attribute) and t.attr in ("_sdkconfig_value", "_loaded_as_default"):
                    n_sites += 1
                    gs = fl.guards_at(n) or set()
                    construct = f"Kconfig._load_config/store {ast.unparse(t)} (#{n_sites}) under is_main_sdkconfig"
                    if ("is_main_sdkconfig", True) in gs:
                        ctx.ok(construct, f.loc(n))
                    else:
                        ctx.bad(construct, "the baseline is moved while loading a file that is not the main sdkconfig", f.loc(n))
    if n_sites < 8:
        raise AnalysisError(f"only {n_sites} baseline stores found in _load_config")


def _only(ctx, before, pred):
    keep = [i for i in ctx.instances[before:] if pred(i.construct)]
    dropped = {i.construct for i in ctx.instances[before:]} - {i.construct for i in keep}
    ctx.instances[before:] = keep
    ctx.findings[:] = [f for f in ctx.findings if not (f.rule == ctx._rule and f.construct in dropped)]


def r08_7(ctx):
    """R08.7 default-marked entries are resolved dependencies-first: MenuNode.dependencies collects every component of the
    node's properties (defaults, ranges low/high/cond, select/imply conditions, prompt, dep) - a bound or condition missing
    from it is compared before the symbol it depends on has been restored, producing a spurious mismatch; and
    Symbol.resolve_defaults resolves its dependencies (and the visibility through resolve_vis) before it compares."""
    from .common import collected_components
    collected_components(ctx, [f"{CORE}:MenuNode.dependencies"], ("res.add", "res.update", "expr_items"),
                         "that symbol is not resolved before the options that depend on it")
    repo = ctx.repo
    f = repo.func(f"{CORE}:Symbol.resolve_defaults")
    ctx.analysed(f.qual)
    construct = "Symbol.resolve_defaults/visibility judged after the dependencies were resolved"
    flf = Flow(f.node, resolver=Resolver(f.node)).run()
    cmp0 = [n for n in f.node.body if isinstance(n, ast.If) and "self.str_value" in ast.unparse(n.test) and "_sdkconfig_value" in ast.unparse(n.test)]
    gs0 = (flf.guards_at(cmp0[0].test) or set()) if cmp0 else set()
    via = ("self.resolve_vis() == 0", False) in gs0
    plain = any(k.startswith("self.visibility") for k, _ in gs0)
    (ctx.ok(construct, f.loc(cmp0[0]) if cmp0 else f.loc()) if via and not plain else
     ctx.bad(construct, "the comparison is not reached through `resolve_vis() != 0` (or tests the plain visibility): an option depending on a "
             "default-marked bool that is restored later is judged invisible and its stored default is silently dropped", f.loc(cmp0[0]) if cmp0 else f.loc()))
    loops = [n for n in f.node.body if isinstance(n, ast.For) and ast.unparse(n.iter) == "self.dependencies"]
    cmpi = [n for n in f.node.body if isinstance(n, ast.If) and "self.str_value != str(self._sdkconfig_value)" in ast.unparse(n.test)]
    construct = "Symbol.resolve_defaults/dependencies resolved before the comparison"
    ok = bool(loops) and bool(cmpi) and loops[0].lineno < cmpi[0].lineno and any(
        isinstance(x, ast.Call) and ast.unparse(x.func).endswith(".resolve_defaults") for x in ast.walk(loops[0]))
    (ctx.ok(construct, f.loc(loops[0]) if loops else f.loc()) if ok else ctx.bad(construct, "the comparison no longer follows the recursive resolution of self.dependencies", f.loc()))


def r08_8(ctx):
    """R08.8 the marker written to the file is decided from the freshly evaluated value (C03 R03.6): config_string
    evaluates str_value before has_active_default_value() - otherwise a tool-written file carries a stale marker and
    reloading it differs from loading it without its default-marked entries."""
    from . import c03
    before = len(ctx.instances)
    c03.r03_6(ctx)
    _only(ctx, before, lambda c: c.startswith("Symbol.config_string/"))


def r08_9(ctx):
    """R08.9 keeping a stored default: (a) the stored text of a *string* option is taken over as a literal
    (_lookup_const_sym) - a lookup by name would turn `MODE="FAST"` into the value of an option called FAST; (b) a stored
    choice selection is taken over only if that member is still a visible option (it is collected under
    `resolve_vis() == 2`); (c) the report keeps every mismatch record it is handed (no filtering by earlier records: the
    same option may mismatch again on a later load with another stored value)."""
    repo = ctx.repo
    f = repo.func(f"{CORE}:Symbol._inject_default_value")
    ctx.analysed(f.qual)
    fl = Flow(f.node, resolver=Resolver(f.node)).run()
    construct = "Symbol._inject_default_value/a stored string is a literal, never a symbol reference"
    lookups = [n for n in ast.walk(f.node) if isinstance(n, ast.Call) and ast.unparse(n.func).endswith("._lookup_sym")]
    bad = [n for n in lookups if ("self.orig_type == STRING", False) not in (fl.guards_at(n) or set())]
    const = [n for n in ast.walk(f.node) if isinstance(n, ast.Call) and ast.unparse(n.func).endswith("._lookup_const_sym")
             and ("self.orig_type == STRING", True) in (fl.guards_at(n) or set())]
    if bad or not const:
        ctx.bad(construct, "the stored text of a string option can reach `_lookup_sym()` (lookup by *name*): a text that equals the name of a "
                "defined option is replaced by that option's value", f.loc((bad or lookups or [f.node])[0]))
    else:
        ctx.ok(construct, f.loc(const[0]))
    c = repo.func(f"{CORE}:Choice.resolve_defaults")
    ctx.analysed(c.qual)
    flc = Flow(c.node, resolver=Resolver(c.node)).run()
    construct = "Choice.resolve_defaults/a stored selection counts only while that member is visible"
    ys = [n for n in ast.walk(c.node) if isinstance(n, ast.Assign) and isinstance(n.targets[0], ast.Name) and n.targets[0].id == "y_syms_from_sdkconfig"]
    ok = False
    msg = "the list of stored selections is not built"
    for a in ys:
        if isinstance(a.value, ast.ListComp):
            conds = " and ".join(ast.unparse(i) for g in a.value.generators for i in g.ifs)
            ok = "_sdkconfig_value == 'y'" in conds.replace('"', "'") and "resolve_vis() == 2" in conds
            msg = f"collected under `{conds}`"
    for n in ast.walk(c.node):
        if isinstance(n, ast.Call) and ast.unparse(n.func) == "y_syms_from_sdkconfig.append":
            gs = flc.guards_at(n) or set()
            m = ast.unparse(n.args[0]) if n.args else "?"
            ok = (f"{m}.resolve_vis() == 2", True) in gs or (f"{m}.resolve_vis() == 0", False) in gs or (f"{m}.visibility == 2", True) in gs
            msg = f"appended under {sorted(gs)}"
    (ctx.ok(construct, c.loc(ys[0]) if ys else c.loc()) if ok else
     ctx.bad(construct, msg + ": an invisible member is injected as the choice's only default, the first visible member gets selected and the stale "
             "selection returns when the member becomes visible again", c.loc(ys[0]) if ys else c.loc()))
    ar = repo.func("esp_kconfiglib.report:DefaultValuesArea.add_record")
    ctx.analysed(ar.qual)
    fla = Flow(ar.node, resolver=Resolver(ar.node)).run()
    for i, n in enumerate(x for x in ast.walk(ar.node) if isinstance(x, ast.Call) and isinstance(x.func, ast.Attribute) and x.func.attr == "add"
                          and ast.unparse(x.func.value).startswith("self.changed_")):
        construct = f"DefaultValuesArea.add_record/{ast.unparse(n.func.value)} keeps every record"
        extra = sorted(k for k, p in (fla.guards_at(n) or set()) if "self.changed_" in k or "record" in k.replace("record_type", ""))
        (ctx.bad(construct, f"the record is added only under {extra}: a later mismatch of the same option (second load, other stored value) is dropped",
                 ar.loc(n)) if extra else ctx.ok(construct, ar.loc(n)))


def r08_10(ctx):
    """R08.10 `promptless` is decided over all definitions of an option in the loader (C02 R02.9b): an option whose prompt
    sits on its second definition is a prompted option - its default-marked entry is compared and kept like any other."""
    from . import c02
    from .common import delegate
    delegate(ctx, c02.r02_9, lambda c: "prompt tests quantify" in c)

def r08_11(ctx):
    """R08.11 (a) the `resolved` marks of the default resolution are cleared after *every* load, merging ones included
    (otherwise the default-marked entries of a second file are never compared); (b) a stored default that is taken over
    keeps the option's own dependencies as its condition (`_make_and` over node.dep of all definitions), so it stops
    providing a value when the option's `depends on` turns false after a later edit."""
    repo = ctx.repo
    f = repo.func(f"{CORE}:Kconfig._load_config")
    ctx.analysed(f.qual)
    fl = Flow(f.node, resolver=Resolver(f.node)).run()
    for coll in ("self.unique_defined_syms", "self.unique_choices"):
        construct = f"Kconfig._load_config/_defaults_resolved is cleared over {coll.split('.')[-1]} after every load"
        sites = [n for lp in ast.walk(f.node) if isinstance(lp, ast.For) and ast.unparse(lp.iter) == coll and isinstance(lp.target, ast.Name)
                 for n in ast.walk(lp) if isinstance(n, ast.Assign) and ast.unparse(n.targets[0]) == f"{lp.target.id}._defaults_resolved"
                 and isinstance(n.value, ast.Constant) and n.value.value is False]
        if not sites:
            ctx.bad(construct, "the marks are never cleared: only the first load of an instance resolves its default-marked entries", f.loc())
            continue
        cond = [sorted(g for g in (fl.guards_at(s_) or set()) if g[0] in ("replace", "is_main_sdkconfig")) for s_ in sites]
        (ctx.ok(construct, f.loc(sites[0])) if any(not c for c in cond) else
         ctx.bad(construct, f"cleared only under {cond[0]}: after a merging load the marks stay set and the next file's default-marked entries are not compared",
                 f.loc(sites[0])))
    inj = repo.func(f"{CORE}:Symbol._inject_default_value")
    ctx.analysed(inj.qual)
    from .common import expand_locals
    st = [n for n in ast.walk(inj.node) if isinstance(n, ast.Assign) and any(ast.unparse(t) == "self.defaults" for t in n.targets)]
    construct = "Symbol._inject_default_value/the injected default is conditioned on the option's own dependencies"
    if not st:
        raise AnchorError("_inject_default_value: store into self.defaults not found")
    v = st[0].value
    cond = None
    if isinstance(v, ast.List) and len(v.elts) == 1 and isinstance(v.elts[0], ast.Tuple) and len(v.elts[0].elts) == 2:
        cond = v.elts[0].elts[1]
    if cond is None:
        raise AnalysisError("_inject_default_value: shape of the injected defaults list not recognised")
    ok = False
    if isinstance(cond, ast.Name):
        folds = [n for n in ast.walk(inj.node) if isinstance(n, ast.Assign) and ast.unparse(n.targets[0]) == cond.id and "_make_and" in ast.unparse(n.value)
                 and ".dep" in ast.unparse(n.value)]
        loops = [lp for lp in ast.walk(inj.node) if isinstance(lp, ast.For) and ast.unparse(lp.iter) == "self.nodes" and any(x in folds for x in ast.walk(lp))]
        ok = bool(folds) and bool(loops)
    (ctx.ok(construct, inj.loc(st[0])) if ok else
     ctx.bad(construct, f"the condition is `{ast.unparse(cond)}`, not the conjunction of the definitions' dependencies: the stored value keeps being used (and "
             "written) after the option's `depends on` turned false", inj.loc(st[0])))

def r08_12(ctx):
    """R08.12 a replacing load starts from the file alone: whatever the file did not *set* is unset afterwards, decided on `_was_set`
    (C05 R05.7) - a default-marked entry is not a user value, so a user value the session still holds must not survive it."""
    from . import c05
    from .common import delegate
    delegate(ctx, c05.r05_7, lambda c: "replacing load" in c)


def r08_13(ctx):
    """R08.13 before an entry's stored default is compared, the stored defaults of *everything* its visibility and value can depend on
    are resolved: the walks of Symbol/Choice.resolve_vis() and resolve_defaults() that call resolve_defaults() on other items
    iterate `self.dependencies` (prompt conditions, `visible if`, defaults, ranges, selects ...) - a narrower collection such as
    the items of direct_dep misses a condition that only reaches the prompt, the entry is judged invisible with the *new* Kconfig
    default of that condition and its stored value is dropped without a record."""
    from .common import expand_locals
    repo = ctx.repo
    n = 0
    for q in (f"{CORE}:Symbol.resolve_vis", f"{CORE}:Choice.resolve_vis", f"{CORE}:Symbol.resolve_defaults", f"{CORE}:Choice.resolve_defaults"):
        f = repo.func(q)
        ctx.analysed(q)
        for lp in [x for x in ast.walk(f.node) if isinstance(x, ast.For) and isinstance(x.target, ast.Name)]:
            calls = [c for c in ast.walk(lp) if isinstance(c, ast.Call) and isinstance(c.func, ast.Attribute) and c.func.attr == "resolve_defaults"
                     and isinstance(c.func.value, ast.Name) and c.func.value.id == lp.target.id]
            if not calls:
                continue
            it = expand_locals(f.node, lp.iter)
            if it in ("self.syms",):
                continue  # members of a choice: not a dependency walk
            n += 1
            construct = f"{f.short}/dependency walk covers self.dependencies"
            (ctx.ok(construct, f.loc(lp)) if it == "self.dependencies" else
             ctx.bad(construct, f"the walk iterates `{it}`: items that reach the visibility only through a prompt condition or `visible if` keep their "
                     "unresolved (new Kconfig) default while this entry is judged", f.loc(lp)))
    if n < 4:
        raise AnalysisError(f"only {n} dependency walks found in resolve_vis / resolve_defaults")


def r08_14(ctx):
    """R08.14 the defaults policy belongs to the instance that was created under it: `Kconfig.defaults_policy` is a slot assigned in
    __init__ from KCONFIG_DEFAULTS_POLICY, not a property that reads it from an object shared between instances (KconfigReport is a
    process-wide singleton: a second Kconfig created under another policy would change what the first does with stored defaults)."""
    repo = ctx.repo
    init = repo.func(f"{CORE}:Kconfig.__init__")
    ctx.analysed(init.qual)
    construct = "Kconfig.defaults_policy/instance state set in __init__"
    stores = [n for n in ast.walk(init.node) if isinstance(n, ast.Assign) and any(ast.unparse(t) == "self.defaults_policy" for t in n.targets)]
    prop = repo.has_func(f"{CORE}:Kconfig.defaults_policy")
    slots = repo.slots(f"{CORE}:Kconfig")
    if prop:
        p = repo.func(f"{CORE}:Kconfig.defaults_policy")
        ctx.bad(construct, f"defaults_policy is computed (`{ast.unparse(p.node.body[-1])[:60]}`) instead of stored: the policy of one instance follows whatever "
                "another instance or a shared object was given", p.loc())
    elif not stores or (slots and "defaults_policy" not in slots):
        ctx.bad(construct, "__init__ no longer stores self.defaults_policy", init.loc())
    else:
        ctx.ok(construct, init.loc(stores[0]), stores=len(stores))


def r08_15(ctx):
    """R08.15 a value forced by `set` is not a user value: has_active_default_value() - which decides the `# default:` marker - is true
    for an option with an active `set` whether or not it also carries a user value (as a boolean function of its tests: with
    `_has_active_indirect_set` true, a type and no choice, the answer does not depend on `_user_value is None`). Otherwise the forced
    value is written unmarked, read back as a user value and survives the `set` being switched off."""
    from .common import AcceptCondition
    repo = ctx.repo
    f = repo.func(f"{CORE}:Symbol.has_active_default_value")
    ctx.analysed(f.qual)
    ac = AcceptCondition(f.node)
    construct = "Symbol.has_active_default_value/an active `set` makes the value a default whatever the user value"
    uv = [a for a in ac.atoms if a.replace(" ", "") in ("self._user_valueisNone",)]
    flag = [a for a in ac.atoms if a == "self._has_active_indirect_set"]
    if not uv or not flag:
        ctx.bad(construct, f"the predicate no longer reads {'_user_value is None' if not uv else '_has_active_indirect_set'} (atoms: {ac.atoms}): a value forced by `set` on an "
                "option that also has a user value is written without the marker", f.loc())
        return
    import itertools
    free = [a for a in ac.atoms if a not in uv + flag]
    for vals in itertools.product((True, False), repeat=len(free)):
        v = dict(zip(free, vals))
        v[flag[0]] = True
        try:
            a1, a2 = ac.accept({**v, uv[0]: True}), ac.accept({**v, uv[0]: False})
        except KeyError:
            continue
        if bool(a1) != bool(a2):
            ctx.bad(construct, f"with an active `set` (and {v}) the answer still depends on `{uv[0]}`", f.loc())
            return
    ctx.ok(construct, f.loc(), atoms=len(ac.atoms))


def r08_16(ctx):
    """R08.16 default-marked choice entries never replace the user's pick: Choice.resolve_defaults() restores the recorded
    selection after it user-set the members (C05 R05.8) - otherwise the member that is effective at the moment (a marked
    `CONFIG_A=y`) becomes the user's selection and is pinned."""
    from . import c05
    from .common import delegate
    delegate(ctx, c05.r05_8, lambda c: True)


def r08_17(ctx):
    """R08.17 a replacing load leaves no pick behind that the file did not make: in _load_config() the default-marked choices are
    resolved only after a selection that predates the load was dropped (`if replace and not choice._was_set:
    choice.unset_value()` before `choice.resolve_defaults()`) - resolve_defaults() takes any recorded selection for one the
    file made, user-sets every member and marks the choice as set, so the tail that unsets what the file did not set skips it
    and the old pick survives (fixed defect 5.64)."""
    repo = ctx.repo
    f = repo.func(f"{CORE}:Kconfig._load_config")
    ctx.analysed(f.qual)
    loops = [n for n in ast.walk(f.node) if isinstance(n, ast.For) and isinstance(n.target, ast.Name) and any(
        isinstance(c, ast.Call) and ast.unparse(c.func) == f"{n.target.id}.resolve_defaults" for c in ast.walk(n)) and "choice" in ast.unparse(n.iter)]
    if not loops:
        raise AnchorError("_load_config: the loop resolving default-marked choices was not found")
    lp = loops[0]
    v = lp.target.id
    simple = (ast.If, ast.For, ast.While, ast.With, ast.Try)
    construct = "Kconfig._load_config/a pick from before a replacing load is dropped before the marked choices are resolved"
    drops = [n for n in ast.walk(lp) if isinstance(n, ast.Call) and ast.unparse(n.func) == f"{v}.unset_value"]
    res = [n for n in ast.walk(lp) if isinstance(n, ast.Call) and ast.unparse(n.func) == f"{v}.resolve_defaults"]
    ok = False
    why = "no `unset_value()` of the choice in the loop"
    if drops:
        fl = Flow(f.node, resolver=Resolver(f.node), body=lp.body).run()
        gs = {(k, p) for k, p in (fl.guards_at(drops[0]) or set())}
        want = {("replace", True), (f"{v}._was_set", False)}
        alt = {("replace", True), (f"{lp.iter.id if isinstance(lp.iter, ast.Name) else ast.unparse(lp.iter)}[*]._was_set", False)}
        extra = gs - want - alt
        ok = (want <= gs or alt <= gs) and not extra and drops[0].lineno < res[0].lineno
        why = f"the drop runs under {sorted(gs)}" if not ok else ""
    (ctx.ok(construct, f.loc(drops[0])) if ok else
     ctx.bad(construct, f"{why}: after `B.set_value(y)` a replacing load of a file in which the choice is only default-marked keeps B - a fresh instance gives the default member",
             f.loc(res[0])))


def rules():
    return [("R08.17", r08_17, 1), ("R08.16", r08_16, 1), ("R08.15", r08_15, 1), ("R08.14", r08_14, 1), ("R08.13", r08_13, 4), ("R08.12", r08_12, 1), ("R08.11", r08_11, 3), ("R08.10", r08_10, 3), ("R08.9", r08_9, 5), ("R08.1", r08_1, 2), ("R08.2", r08_2, 2), ("R08.3", r08_3, 8), ("R08.5", r08_5, 3), ("R08.6", r08_6, 8), ("R08.7", r08_7, 6), ("R08.8", r08_8, 1)]
