"""C11 - a deprecated name behaves exactly like its replacement (necessary structural conditions)."""
from __future__ import annotations

import ast
from typing import Dict, List, Optional, Set, Tuple

from ..flow import AnalysisError, Flow, Resolver
from ..repo import AnchorError
from . import c07

PROPERTY = "C11"
CORE = "esp_kconfiglib.core"
LEVEL_TEXT = (
    "Static analysis of the deprecated-name handling in Kconfig._load_config and DeprecatedOptions: the two resolution "
    "sites (assignment lines, `is not set` lines) are sibling implementations and must test the same guard and perform "
    "the same steps (lookup, target defined, inversion from the alias's own flag, rebind symbol and name, clear the "
    "default flag); unknown-symbol reports come after resolution; the deprecated block is skipped unless requested and "
    "synthetic symbols exist only inside it; the rename tables keep `last mapping wins` consistently in all three "
    "tables. Not decided: equality of the resulting configurations, eval_string on deprecated names."
)


def _conjuncts(e: ast.AST) -> Set[str]:
    if isinstance(e, ast.BoolOp) and isinstance(e.op, ast.And):
        out: Set[str] = set()
        for v in e.values:
            out |= _conjuncts(v)
        return out
    return {ast.unparse(e)}


def _resolution_sites(fn: ast.FunctionDef) -> List[ast.If]:
    sites = []
    for n in ast.walk(fn):
        if isinstance(n, ast.If):
            c = _conjuncts(n.test)
            if "self._deprecated_options" in c and len(c) > 1 and any("get_new_option" in ast.unparse(s) for s in n.body):
                sites.append(n)
    return sorted(sites, key=lambda n: n.lineno)


def _steps(site: ast.If) -> Dict[str, object]:
    """Abstract steps of one resolution block."""
    out: Dict[str, object] = {"guard": frozenset(_conjuncts(site.test))}
    src = [ast.unparse(s) for s in site.body]
    out["lookup"] = any(s.replace(" ", "") == "new_name=self._deprecated_options.get_new_option(name)" for s in src)
    inner = [n for n in ast.walk(site) if isinstance(n, ast.If) and ast.unparse(n.test) == "new_sym and new_sym.nodes"]
    out["target_defined"] = bool(inner)
    gate = [n for n in ast.walk(site) if isinstance(n, ast.If) and ast.unparse(n.test) == "new_name"]
    out["name_found_gate"] = bool(gate)
    rebind: Set[str] = set()
    inv_subject = None
    if inner:
        for s in ast.walk(inner[0]):
            if isinstance(s, ast.Assign) and isinstance(s.targets[0], ast.Name):
                t, v = s.targets[0].id, ast.unparse(s.value)
                if (t, v) in (("sym", "new_sym"), ("name", "new_name"), ("value_is_default", "False")):
                    rebind.add(t)
            if isinstance(s, ast.Call) and ast.unparse(s.func).endswith("is_inversion") and s.args:
                inv_subject = ast.unparse(s.args[0])
        # the three rebinding statements are unconditional inside the inner block
        top = {ast.unparse(s.targets[0]) for s in inner[0].body if isinstance(s, ast.Assign)}
        out["rebind_unconditional"] = {"sym", "name", "value_is_default"} <= top
    out["rebind"] = frozenset(rebind)
    out["inversion_subject"] = inv_subject
    return out


def r11_1(ctx):
    """R11.1 the two deprecated-name resolution sites in _load_config agree: same guard (no *defined* symbol of that name,
    outside the deprecated block, rename tables loaded) and same steps (get_new_option, target defined, inversion looked
    up for the old name, rebind sym and name, clear value_is_default)."""
    repo = ctx.repo
    f = repo.func(f"{CORE}:Kconfig._load_config")
    ctx.analysed(f.qual)
    sites = _resolution_sites(f.node)
    if len(sites) != 2:
        raise AnchorError(f"_load_config: expected 2 deprecated-name resolution sites, found {len(sites)}")
    steps = [_steps(s) for s in sites]
    labels = ["assignment lines", "`is not set` lines"]
    want_guard = frozenset({"not sym or not sym.nodes", "not in_deprecated_block", "self._deprecated_options"})
    for s, st, lab in zip(sites, steps, labels):
        construct = f"Kconfig._load_config/resolution for {lab}: guard"
        if st["guard"] == want_guard:
            ctx.ok(construct, f.loc(s), guard=sorted(st["guard"]))
        else:
            ctx.bad(construct, f"guard is {sorted(st['guard'])}; a name that exists only as an undefined (node-less) symbol, or inside the "
                    f"deprecated block, is no longer (or wrongly) resolved - expected {sorted(want_guard)}", f.loc(s))
        construct = f"Kconfig._load_config/resolution for {lab}: steps"
        msgs = []
        if not st["lookup"]:
            msgs.append("new name not taken from get_new_option(name)")
        if not st["name_found_gate"] or not st["target_defined"]:
            msgs.append("target not checked to be a defined symbol")
        if st["rebind"] != frozenset({"sym", "name", "value_is_default"}) or not st.get("rebind_unconditional"):
            msgs.append(f"rebinding incomplete or conditional: {sorted(st['rebind'])}")
        if st["inversion_subject"] != "name":
            msgs.append(f"inversion looked up for `{st['inversion_subject']}` instead of the deprecated name")
        (ctx.bad(construct, "; ".join(msgs), f.loc(s)) if msgs else ctx.ok(construct, f.loc(s)))
    construct = "Kconfig._load_config/both resolution sites agree"
    diff = {k: (steps[0][k], steps[1][k]) for k in steps[0] if steps[0][k] != steps[1][k]}
    (ctx.bad(construct, f"the two sites differ in {diff}", f.loc(sites[1])) if diff else ctx.ok(construct, f.loc(sites[0])))
    # inversion semantics
    a, u = sites
    construct = "Kconfig._load_config/assignment through an inverted alias swaps y and n for bools only"
    inv = [n for n in ast.walk(a) if isinstance(n, ast.If) and "is_inversion(name)" in ast.unparse(n.test)]
    ok = bool(inv) and "new_sym.orig_type == BOOL" in _conjuncts(inv[0].test) and \
        any(isinstance(s, ast.Assign) and ast.unparse(s.targets[0]) == "val" and ast.unparse(s.value).replace('"', "'") == "'n' if val.startswith('y') else 'y'"
            for s in inv[0].body)
    (ctx.ok(construct, f.loc(inv[0])) if ok else ctx.bad(construct, "the y/n swap for inverted aliases changed", f.loc(a)))
    construct = "Kconfig._load_config/an inverted alias inverts only what the bool check accepts"
    conj = [c.replace('"', "'") for c in _conjuncts(inv[0].test)] if inv else []
    (ctx.ok(construct, f.loc(inv[0])) if any(c in ("val.startswith(('y', 'n'))", "val.startswith(('n', 'y'))", "val[0] in ('y', 'n')", "val[:1] in ('y', 'n')") for c in conj) else
     ctx.bad(construct, "any text that does not start with `y` is turned into `y` before the bool check sees it: `CONFIG_OLD=foo` sets the replacement to y "
             "while `CONFIG_NEW=foo` is rejected", f.loc(inv[0]) if inv else f.loc(a)))
    construct = "Kconfig._load_config/`not set` on an inverted alias means y"
    src_u = ast.unparse(u)
    uses = [n for n in ast.walk(f.node) if isinstance(n, ast.Assign) and ast.unparse(n.targets[0]) == "val" and "_deprecated_unset_val" in ast.unparse(n.value)]
    ok = "_deprecated_unset_val = 'y'" in src_u and bool(uses) and \
        ast.unparse(uses[0].value).replace('"', "'") == "_deprecated_unset_val if _deprecated_unset_val is not None else 'n'"
    if ok:
        sets = [n for n in ast.walk(u) if isinstance(n, ast.Assign) and ast.unparse(n.targets[0]) == "_deprecated_unset_val"]
        gs = Flow(f.node, body=[u]).run().guards_at(sets[0]) or set()
        ok = any(k in ("is_inv", "self._deprecated_options.is_inversion(name)") and p for k, p in gs)
    (ctx.ok(construct, f.loc(u)) if ok else ctx.bad(construct, "unset lines of inverted aliases no longer load as y", f.loc(u)))


def r11_2(ctx):
    """R11.2 unknown-symbol reports come after resolution: every call of _undef_assign in the line loop is preceded, in the
    same arm, by the deprecated-name resolution block, and is guarded by `not sym or not sym.nodes`."""
    repo = ctx.repo
    f = repo.func(f"{CORE}:Kconfig._load_config")
    sites = _resolution_sites(f.node)
    calls = [n for n in ast.walk(f.node) if isinstance(n, ast.Call) and ast.unparse(n.func) == "self._undef_assign"]
    if len(calls) < 2:
        raise AnchorError("_load_config: _undef_assign calls not found")
    fl = Flow(f.node).run()
    for i, c in enumerate(sorted(calls, key=lambda n: n.lineno)):
        construct = f"Kconfig._load_config/_undef_assign #{i + 1} after deprecated-name resolution"
        # the If that contains the call and the resolution block must be siblings, resolution first
        holder = repo.enclosing_stmt(c)
        par = repo.parent(holder)
        while par is not None and not any(s in getattr(par, "body", []) + getattr(par, "orelse", []) for s in sites):
            holder = par
            par = repo.parent(par)
        ok = False
        if par is not None:
            for fld in ("body", "orelse"):
                b = getattr(par, fld, [])
                sib = [s for s in sites if s in b]
                if sib and holder in b and b.index(sib[0]) < b.index(holder):
                    ok = True
        gs = fl.guards_at(c) or set()
        guarded = ("not sym or not sym.nodes", True) in gs
        if ok and guarded:
            ctx.ok(construct, f.loc(c))
        else:
            ctx.bad(construct, f"resolution precedes: {ok}; guarded by undefined-symbol test: {guarded} - a deprecated name is reported as an "
                    "unknown symbol", f.loc(c))


def r11_3(ctx):
    """R11.3 the deprecated block is skipped unless requested: the early `continue` under `in_deprecated_block and not
    load_deprecated` precedes every use of the line regexes; synthetic symbols are created only inside the block."""
    repo = ctx.repo
    f = repo.func(f"{CORE}:Kconfig._load_config")
    loop = None
    for n in ast.walk(f.node):
        if isinstance(n, ast.For) and "enumerate(f" in ast.unparse(n.iter):
            loop = n
    if loop is None:
        raise AnchorError("line loop not found")
    skip = [s for s in loop.body if isinstance(s, ast.If) and _conjuncts(s.test) == {"in_deprecated_block", "not load_deprecated"}
            and len(s.body) == 1 and isinstance(s.body[0], ast.Continue)]
    first_match = [s for s in loop.body if any(isinstance(x, ast.Call) and ast.unparse(x.func) in ("set_match", "unset_match", "self._set_match", "self._unset_match")
                                               for x in ast.walk(s))]
    construct = "Kconfig._load_config/deprecated block skipped before any line is parsed"
    ok = bool(skip) and bool(first_match) and loop.body.index(skip[0]) < loop.body.index(first_match[0])
    (ctx.ok(construct, f.loc(skip[0])) if ok else ctx.bad(construct, "lines of the deprecated block reach the assignment parser although "
                                                          "load_deprecated is off", f.loc(loop)))
    construct = "Kconfig._load_config/block delimiters toggle in_deprecated_block"
    src = ast.unparse(loop)
    fl = Flow(f.node, body=[loop]).run()
    on = [n for n in ast.walk(loop) if isinstance(n, ast.Assign) and ast.unparse(n.targets[0]) == "in_deprecated_block"]
    ok = False
    if len(on) == 2:
        g1 = fl.guards_at(on[0]) or set()
        g2 = fl.guards_at(on[1]) or set()
        ok = ast.unparse(on[0].value) == "True" and any("DEP_OP_BEGIN" in k and p for k, p in g1) and \
            ast.unparse(on[1].value) == "False" and any("DEP_OP_END" in k and p for k, p in g2)
    (ctx.ok(construct, f.loc(on[0])) if ok else ctx.bad(construct, "begin/end handling changed", f.loc(loop)))
    cr = repo.func(f"{CORE}:Kconfig._load_config.<locals>._create_new_deprecated_symbol")
    ctx.analysed(cr.qual)
    first = [n for n in cr.node.body if not (isinstance(n, ast.Expr) and isinstance(n.value, ast.Constant))][0]
    construct = "_create_new_deprecated_symbol/only inside the deprecated block"
    # the block test may sit in the helper (early return) or at every call site - one of them is enough
    inner = isinstance(first, ast.If) and ast.unparse(first.test) == "not in_deprecated_block" and isinstance(first.body[0], ast.Return)
    calls = [n for n in ast.walk(loop) if isinstance(n, ast.Call) and ast.unparse(n.func) == "_create_new_deprecated_symbol"]
    ok = True
    for c in calls:
        gs = fl.guards_at(c) or set()
        ok = ok and (inner or ("in_deprecated_block", True) in gs) and ("sym", False) in gs
    (ctx.ok(construct, cr.loc(first), call_sites=len(calls)) if ok and calls else
     ctx.bad(construct, "a synthetic deprecated symbol can be created outside the deprecated block / for an existing symbol", cr.loc()))
    construct = "_create_new_deprecated_symbol/synthetic symbol never enters the menu tree or unique_defined_syms"
    attrs = {n.attr for n in ast.walk(cr.node) if isinstance(n, ast.Attribute)}
    ok = not ({"defined_syms", "unique_defined_syms"} & attrs) and any(
        isinstance(n, ast.Assign) and ast.unparse(n.targets[0]).endswith("._is_deprecated") and ast.unparse(n.value) == "True" for n in ast.walk(cr.node))
    (ctx.ok(construct, cr.loc(), nontrivial=False) if ok else ctx.bad(construct, "synthetic symbols are registered as defined symbols", cr.loc()))


def r11_4(ctx):
    """R11.4 rename-table invariants (C07 R07.5): last mapping wins consistently in the forward table, the reverse table
    and the inversion list; lookups go through the tables (get_new_option, is_inversion, get_deprecated_option)."""
    c07.r07_5(ctx)
    repo = ctx.repo
    for name, expect in (("get_new_option", "self.r_dic.get(deprecated_option, None)"), ("is_inversion", "deprecated_option in self.inversions"),
                         ("get_deprecated_option", "self.rev_r_dic.get(new_option, [])")):
        f = repo.func(f"esp_kconfiglib.deprecated:DeprecatedOptions.{name}")
        ctx.analysed(f.qual)
        r = [n for n in ast.walk(f.node) if isinstance(n, ast.Return)]
        construct = f"DeprecatedOptions.{name}/plain table lookup"
        ok = bool(r) and ast.unparse(r[0].value) in (expect, expect.replace(", None)", ")"))
        (ctx.ok(construct, f.loc(), nontrivial=False) if ok else ctx.bad(construct, f"returns {ast.unparse(r[0].value) if r else None}", f.loc()))


def r11_5(ctx):
    """R11.5 the block delimiters are recognised before lines are skipped: in the line loop the begin/end marker handling
    precedes the `in_deprecated_block and not load_deprecated` skip - otherwise the end marker is never seen and everything
    after the block is ignored; the `is not set` inversion value is per line (re-initialised for every line)."""
    repo = ctx.repo
    f = repo.func(f"{CORE}:Kconfig._load_config")
    loop = [n for n in ast.walk(f.node) if isinstance(n, ast.For) and "enumerate(f" in ast.unparse(n.iter)][0]
    skip = [i for i, s in enumerate(loop.body) if isinstance(s, ast.If) and _conjuncts(s.test) == {"in_deprecated_block", "not load_deprecated"}]
    delim = [i for i, s in enumerate(loop.body) if isinstance(s, ast.If) and any(d in ast.unparse(s.test) for d in ("DEP_OP_BEGIN", "DEP_OP_END"))]
    construct = "Kconfig._load_config/block delimiters handled before the skip"
    ok = bool(skip) and bool(delim) and max(delim) < min(skip)
    (ctx.ok(construct, f.loc(loop.body[skip[0]])) if ok else
     ctx.bad(construct, "lines are skipped before the end-of-block marker can be recognised: once inside the deprecated block the rest of the file is ignored",
             f.loc(loop.body[skip[0]]) if skip else f.loc(loop)))
    init = [n for n in ast.walk(loop) if isinstance(n, ast.Assign) and ast.unparse(n.targets[0]) == "_deprecated_unset_val" and ast.unparse(n.value) == "None"]
    outside = [n for n in ast.walk(f.node) if isinstance(n, ast.Assign) and ast.unparse(n.targets[0]) == "_deprecated_unset_val" and not any(n is x for x in ast.walk(loop))]
    construct = "Kconfig._load_config/the inverted-alias value of a `not set` line does not outlive the line"
    uses = [n for n in ast.walk(loop) if isinstance(n, ast.Name) and n.id == "_deprecated_unset_val" and isinstance(n.ctx, ast.Load)]
    ok = bool(init) and not outside and all(init[0].lineno < u.lineno for u in uses)
    (ctx.ok(construct, f.loc(init[0]) if init else f.loc()) if ok else
     ctx.bad(construct, "_deprecated_unset_val is not reset for every line: after `# CONFIG_OLD is not set` on an inverted alias later plain `is not set` lines load as y",
             f.loc(outside[0]) if outside else f.loc(loop)))
    d = repo.func("esp_kconfiglib.deprecated:DeprecatedOptions._parse_replacements")
    construct = "DeprecatedOptions/old names are stored and looked up in one spelling"
    cased = [q for q in ("_parse_replacements", "get_new_option", "is_inversion", "get_deprecated_option")
             if any(isinstance(n, ast.Call) and isinstance(n.func, ast.Attribute) and n.func.attr in ("upper", "lower", "casefold")
                    for n in ast.walk(repo.func(f"esp_kconfiglib.deprecated:DeprecatedOptions.{q}").node))]
    ok = len(cased) in (0, 4) or set(cased) == {"_parse_replacements", "get_new_option", "is_inversion"}
    (ctx.ok(construct, d.loc(), nontrivial=False) if ok else
     ctx.bad(construct, f"case folding is applied in {cased} only: a lookup site that was missed compares the sdkconfig spelling with the folded table", d.loc()))


def r11_6(ctx):
    """R11.6 (a) the list of rename files reaches the rename-table parser as it was given - order and repetitions included:
    the tables are last-mapping-wins, so dropping a repeated file changes which mapping is last; (b) a line with a
    deprecated name, once resolved, continues exactly like a line with the new name: the resolution blocks contain no
    early exit of the line loop; (c) the synthetic symbol of a deprecated-block entry gets its type from the value as
    written (quotes included: `"y"` is a string)."""
    from .common import not_rebound
    repo = ctx.repo
    not_rebound(ctx, f"{CORE}:Kconfig.load_rename_files", ["path_rename_files"],
                "the rename tables are built from another list than the caller's (last mapping wins over the *given* order)")
    pr = repo.func("esp_kconfiglib.deprecated:DeprecatedOptions._parse_replacements")
    ctx.analysed(pr.qual)
    prm = [a.arg for a in pr.node.args.args if a.arg != "self"]
    loops = [n for n in ast.walk(pr.node) if isinstance(n, ast.For) and prm and ast.unparse(n.iter) in prm]
    construct = "DeprecatedOptions._parse_replacements/iterates the rename files in the given order, repetitions included"
    (ctx.ok(construct, pr.loc(loops[0])) if loops else ctx.bad(construct, f"no loop over the parameter(s) {prm} as given (filtered, sorted or de-duplicated)", pr.loc()))
    f = repo.func(f"{CORE}:Kconfig._load_config")
    ctx.analysed(f.qual)
    blocks = [n for n in ast.walk(f.node) if isinstance(n, ast.If) and isinstance(n.test, ast.Name) and n.test.id == "new_name"]
    if len(blocks) < 2:
        blocks = [n for n in ast.walk(f.node) if isinstance(n, ast.If) and "get_new_option(" in ast.unparse(n.test)] + blocks
    if len(blocks) < 2:
        raise AnchorError(f"_load_config: {len(blocks)} deprecated-name resolution blocks found, 2 expected")
    for i, b in enumerate(blocks):
        construct = f"Kconfig._load_config/resolution block #{i + 1} has no early exit of the line"
        ex = [x for st in b.body for x in ast.walk(st) if isinstance(x, (ast.Continue, ast.Break, ast.Return))]
        (ctx.bad(construct, f"`{type(ex[0]).__name__.lower()}` inside the resolution of a deprecated name: such a line is dropped where the same line "
                 "with the new name would be applied (the last line wins for new names, so it must for old ones)", f.loc(ex[0]))
         if ex else ctx.ok(construct, f.loc(b)))
    not_rebound(ctx, f"{CORE}:Kconfig._load_config.<locals>._create_new_deprecated_symbol", ["val", "name"],
                "the type of the synthetic symbol is inferred from the value as written in the file")


def r11_7(ctx):
    """R11.7 (a) a deprecated-block entry inherits the type of its replacement only when the replacement is a *defined* option
    (`new_sym.nodes`; a name that merely occurs in some expression has type UNKNOWN and would make the entry unassignable);
    (b) the configuration prefix is removed from the front of a name only (slicing after startswith - never
    str.replace(), which also removes the prefix text inside names such as CONFIG_ESP_MENUCONFIG_STYLE)."""
    repo = ctx.repo
    f = repo.func(f"{CORE}:Kconfig._load_config.<locals>._create_new_deprecated_symbol")
    ctx.analysed(f.qual)
    fl = Flow(f.node, resolver=Resolver(f.node)).run()
    uses = [n for n in ast.walk(f.node) if isinstance(n, ast.Attribute) and n.attr in ("orig_type", "type") and ast.unparse(n.value) == "new_sym" and isinstance(n.ctx, ast.Load)]
    construct = "_create_new_deprecated_symbol/type inherited only from a defined replacement"
    if not uses:
        ctx.ok(construct + " (no type inheritance)", f.loc(), nontrivial=False)
    else:
        bad = [u for u in uses if ("new_sym.nodes", True) not in (fl.guards_at(u) or set())]
        (ctx.bad(construct, f"`{ast.unparse(bad[0])}` is read without `new_sym.nodes`: a replacement that is only referenced (never defined) hands its UNKNOWN type "
                 "to the synthetic symbol, whose value is then rejected", f.loc(bad[0])) if bad else ctx.ok(construct, f.loc(uses[0])))
    g = repo.func("esp_kconfiglib.deprecated:DeprecatedOptions.remove_config_prefix")
    ctx.analysed(g.qual)
    rep = [n for n in ast.walk(g.node) if isinstance(n, ast.Call) and isinstance(n.func, ast.Attribute) and n.func.attr in ("replace", "lstrip", "strip", "removesuffix")
           and "config_prefix" in ast.unparse(n)]
    construct = "DeprecatedOptions.remove_config_prefix/only the leading prefix is removed"
    (ctx.bad(construct, f"`{ast.unparse(rep[0])}` removes the prefix text wherever it occurs: names containing it again (…_SDKCONFIG_…, …MENUCONFIG_…) are stored mangled "
             "and assignments through them are not resolved", g.loc(rep[0])) if rep else ctx.ok(construct, g.loc()))

def rules():
    return [("R11.7", r11_7, 2), ("R11.6", r11_6, 6), ("R11.1", r11_1, 7), ("R11.2", r11_2, 2), ("R11.3", r11_3, 4), ("R11.4", r11_4, 6), ("R11.5", r11_5, 3)]
