"""C11 - a deprecated name behaves exactly like its replacement (necessary structural conditions)."""
from __future__ import annotations

import ast
import re
from typing import Dict, List, Optional, Set, Tuple

from ..flow import AnalysisError, Flow, Resolver
from ..repo import AnchorError
from . import c07

PROPERTY = "C11"
CORE = "esp_kconfiglib.core"
LEVEL_TEXT = (
    "Static analysis of the deprecated-name handling in Kconfig._load_config and DeprecatedOptions: the two resolution "
    "sites (assignment lines, `is not set` lines) are sibling implementations and must test the same guard and perform "
    "the same steps (lookup, target defined, inversion from the alias's own flag, rebind symbol and name, clear the "
    "default flag); unknown-symbol reports come after resolution; the deprecated block is skipped unless requested and "
    "synthetic symbols exist only inside it; the rename tables keep `last mapping wins` consistently in all three "
    "tables. Not decided: equality of the resulting configurations, eval_string on deprecated names."
)


def _conjuncts(e: ast.AST) -> Set[str]:
    if isinstance(e, ast.BoolOp) and isinstance(e.op, ast.And):
        out: Set[str] = set()
        for v in e.values:
            out |= _conjuncts(v)
        return out
    return {ast.unparse(e)}


def _resolution_sites(fn: ast.FunctionDef) -> List[ast.If]:
    """the statements that start a deprecated-name resolution: the (outermost) `if` under which the new name is looked up"""
    sites = []
    for n in ast.walk(fn):
        if isinstance(n, ast.If):
            c = _conjuncts(n.test)
            if "self._deprecated_options" in c and len(c) > 1 and any("get_new_option" in ast.unparse(s) for s in n.body):
                sites.append(n)
    return sorted(sites, key=lambda n: n.lineno)


REQUIRED = "(not sym or not sym.nodes) and not in_deprecated_block and self._deprecated_options and new_name and new_sym and new_sym.nodes"
SUBJECTS = {"sym", "new_sym", "new_name", "name", "in_deprecated_block", "val", "value_is_default"}


def _rebinds(fn: ast.AST) -> List[ast.Assign]:
    return sorted([n for n in ast.walk(fn) if isinstance(n, ast.Assign) and len(n.targets) == 1 and ast.unparse(n.targets[0]) == "sym"
                   and ast.unparse(n.value) == "new_sym"], key=lambda n: n.lineno)


def _steps(f, fl, res, r: ast.Assign) -> Dict[str, object]:
    """what happens at one resolution site, read at the statement that rebinds `sym` to the replacement: the condition
    under which it runs (guards there, plus the guards of the assignments that can have made `new_sym` / `new_name`
    truthy), where the new name and symbol come from, and what is rebound together with it"""
    from .common import effective_guards, facts_vs_formula, reaching_assignments
    out: Dict[str, object] = {}
    eg = effective_guards(fl, res, f.node, r)
    rel = {(k, p) for k, p in eg if ({x.id for x in ast.walk(_pk(k)) if isinstance(x, ast.Name)} & SUBJECTS) or "_deprecated_options" in k}
    # the line's own match tests (`match`, `val`, ...) belong to the arm, not to the resolution: only facts over the
    # resolution's subjects are compared
    rel = {(k, p) for k, p in rel if not any(w in k for w in ("match", "_is_deprecated"))}
    imp, extra = facts_vs_formula(rel, REQUIRED)
    out["implies_required"] = imp
    out["extra_atoms"] = frozenset(f"{'' if p else 'not '}({k})" for k, p in extra)
    out["guard"] = frozenset(f"{'' if p else 'not '}({k})" for k, p in rel)
    nn = reaching_assignments(f.node, r, "new_name")
    out["lookup"] = bool(nn) and all("self._deprecated_options.get_new_option(name)" in ast.unparse(d.value) or
                                     (isinstance(d.value, ast.Constant) and d.value.value is None) for d in nn) and \
        any("get_new_option(name)" in ast.unparse(d.value) for d in nn)
    ns = reaching_assignments(f.node, r, "new_sym")
    out["target_lookup"] = bool(ns) and all("get_sym(new_name)" in ast.unparse(d.value) or "self.syms.get(new_name)" in ast.unparse(d.value)
                                            or (isinstance(d.value, ast.Constant) and d.value.value is None) for d in ns)
    # siblings of the rebinding statement
    par = None
    for n in ast.walk(f.node):
        for fld in ("body", "orelse"):
            b = getattr(n, fld, None)
            if isinstance(b, list) and any(x is r for x in b):
                par = b
    top = {ast.unparse(s.targets[0]): ast.unparse(s.value) for s in (par or []) if isinstance(s, ast.Assign) and len(s.targets) == 1}
    out["rebind"] = frozenset(t for t, v in top.items() if (t, v) in (("sym", "new_sym"), ("name", "new_name"), ("value_is_default", "False")))
    inv = [c for s in (par or []) for c in ast.walk(s) if isinstance(c, ast.Call) and ast.unparse(c.func).endswith("is_inversion") and c.args]
    out["inversion_subject"] = ast.unparse(inv[0].args[0]) if inv else None
    # the inversion must be looked up before `name` is rebound
    nm = [s for s in (par or []) if isinstance(s, ast.Assign) and ast.unparse(s.targets[0]) == "name"]
    out["inversion_before_rebind"] = all(c.lineno < nm[0].lineno for c in inv) if inv and nm else True
    out["_block"] = par
    return out


def _pk(k: str) -> ast.AST:
    from .common import parse_key
    return parse_key(k)


def r11_1(ctx):
    """R11.1 the two deprecated-name resolution sites in _load_config agree: each rebinds sym/name/value_is_default exactly
    when there is no *defined* symbol of that name, the line is outside the deprecated block, the rename tables are loaded
    and the looked-up replacement is a defined symbol - whatever the nesting of the tests; the new name comes from
    get_new_option(name), the inversion is looked up for the old name."""
    repo = ctx.repo
    f = repo.func(f"{CORE}:Kconfig._load_config")
    ctx.analysed(f.qual)
    res = Resolver(f.node)
    fl = Flow(f.node, resolver=res).run()
    rb = _rebinds(f.node)
    if len(rb) != 2:
        raise AnchorError(f"_load_config: expected 2 deprecated-name resolution sites (`sym = new_sym`), found {len(rb)}")
    steps = [_steps(f, fl, res, r) for r in rb]
    labels = ["assignment lines", "`is not set` lines"]
    for r, st, lab in zip(rb, steps, labels):
        construct = f"Kconfig._load_config/resolution for {lab}: guard"
        if st["implies_required"] and not st["extra_atoms"]:
            ctx.ok(construct, f.loc(r), guard=sorted(st["guard"]))
        else:
            ctx.bad(construct, f"the replacement is taken under {sorted(st['guard'])}: "
                    + ("a name that exists only as an undefined (node-less) symbol, or inside the deprecated block, or whose replacement is not a "
                       "defined option is (wrongly) resolved" if not st["implies_required"] else
                       f"the resolution additionally depends on {sorted(st['extra_atoms'])} - the deprecated name no longer behaves like the new one"),
                    f.loc(r))
        construct = f"Kconfig._load_config/resolution for {lab}: steps"
        msgs = []
        if not st["lookup"]:
            msgs.append("new name not taken from get_new_option(name)")
        if not st["target_lookup"]:
            msgs.append("replacement symbol not looked up under the new name")
        if st["rebind"] != frozenset({"sym", "name", "value_is_default"}):
            msgs.append(f"rebinding incomplete or conditional: {sorted(st['rebind'])}")
        if st["inversion_subject"] != "name" or not st["inversion_before_rebind"]:
            msgs.append(f"inversion looked up for `{st['inversion_subject']}`{'' if st['inversion_before_rebind'] else ' after name was rebound'} instead of the deprecated name")
        (ctx.bad(construct, "; ".join(msgs), f.loc(r)) if msgs else ctx.ok(construct, f.loc(r)))
    construct = "Kconfig._load_config/both resolution sites agree"
    keys = ("implies_required", "extra_atoms", "lookup", "target_lookup", "rebind", "inversion_subject")
    diff = {k: (steps[0][k], steps[1][k]) for k in keys if steps[0][k] != steps[1][k]}
    (ctx.bad(construct, f"the two sites differ in {diff}", f.loc(rb[1])) if diff else ctx.ok(construct, f.loc(rb[0])))
    # inversion semantics
    a_blk, u_blk = steps[0]["_block"] or [], steps[1]["_block"] or []
    construct = "Kconfig._load_config/assignment through an inverted alias swaps y and n for bools only"
    from .common import expand_locals

    def _expanded_if(n: ast.If) -> ast.If:
        """the `if` with explaining variables of its test read through (`is_inv = ...is_inversion(name)`), and `sym` read as
        `new_sym` when the test stands behind `sym = new_sym` in the resolution block"""
        t = expand_locals(f.node, n.test, depth=2)
        if any(isinstance(a, ast.Assign) and ast.unparse(a.targets[0]) == "sym" and ast.unparse(a.value) == "new_sym" and a.lineno < n.lineno for s_ in a_blk for a in ast.walk(s_)):
            t = re.sub(r"\bsym\.orig_type\b", "new_sym.orig_type", t)
        m = ast.If(test=ast.parse(t, mode="eval").body, body=n.body, orelse=n.orelse)
        return ast.copy_location(m, n)
    inv = [_expanded_if(n) for s in a_blk for n in ast.walk(s) if isinstance(n, ast.If)]
    inv = [n for n in inv if "is_inversion(name)" in ast.unparse(n.test)]
    ok = bool(inv) and "new_sym.orig_type == BOOL" in _conjuncts(inv[0].test) and \
        any(isinstance(s, ast.Assign) and ast.unparse(s.targets[0]) == "val" and ast.unparse(s.value).replace('"', "'") == "'n' if val.startswith('y') else 'y'"
            for s in inv[0].body)
    (ctx.ok(construct, f.loc(inv[0])) if ok else ctx.bad(construct, "the y/n swap for inverted aliases changed", f.loc(rb[0])))
    construct = "Kconfig._load_config/an inverted alias inverts only what the bool check accepts"
    conj = [c.replace('"', "'") for c in _conjuncts(inv[0].test)] if inv else []
    (ctx.ok(construct, f.loc(inv[0])) if any(c in ("val.startswith(('y', 'n'))", "val.startswith(('n', 'y'))", "val[0] in ('y', 'n')", "val[:1] in ('y', 'n')") for c in conj) else
     ctx.bad(construct, "any text that does not start with `y` is turned into `y` before the bool check sees it: `CONFIG_OLD=foo` sets the replacement to y "
             "while `CONFIG_NEW=foo` is rejected", f.loc(inv[0]) if inv else f.loc(rb[0])))
    construct = "Kconfig._load_config/`not set` on an inverted alias means y"
    uses = [n for n in ast.walk(f.node) if isinstance(n, ast.Assign) and ast.unparse(n.targets[0]) == "val" and "_deprecated_unset_val" in ast.unparse(n.value)]
    sets = [n for s in u_blk for n in ast.walk(s) if isinstance(n, ast.Assign) and ast.unparse(n.targets[0]) == "_deprecated_unset_val"
            and ast.unparse(n.value).replace('"', "'") == "'y'"]
    ok = bool(sets) and bool(uses) and \
        ast.unparse(uses[0].value).replace('"', "'") == "_deprecated_unset_val if _deprecated_unset_val is not None else 'n'"
    if ok:
        gs = fl.guards_at(sets[0]) or set()
        ok = any(k in ("is_inv", "self._deprecated_options.is_inversion(name)") and p for k, p in gs) or any(
            p and k.isidentifier() and any(isinstance(a, ast.Assign) and ast.unparse(a.targets[0]) == k and ast.unparse(a.value) == "self._deprecated_options.is_inversion(name)"
                                            for a in ast.walk(f.node)) for k, p in gs)
    (ctx.ok(construct, f.loc(rb[1])) if ok else ctx.bad(construct, "unset lines of inverted aliases no longer load as y", f.loc(rb[1])))


def r11_2(ctx):
    """R11.2 unknown-symbol reports come after resolution: every call of _undef_assign in the line loop comes, in its arm,
    after the statement that rebinds `sym` to the replacement (so a resolved name is never reported), and is guarded by
    the undefined-symbol test on the (possibly rebound) `sym`."""
    from .common import facts_vs_formula
    repo = ctx.repo
    f = repo.func(f"{CORE}:Kconfig._load_config")
    rb = _rebinds(f.node)
    calls = [n for n in ast.walk(f.node) if isinstance(n, ast.Call) and ast.unparse(n.func) == "self._undef_assign"]
    if len(calls) < 2 or len(rb) < 2:
        raise AnchorError("_load_config: _undef_assign calls / resolution sites not found")
    marks = {id(r): "resolved" for r in rb}

    def ev(st):
        return ["resolved"] if id(st) in marks else []
    # may-analysis: the rebind statement lies on some path to the report, i.e. it is not placed after it
    fl_may = Flow(f.node, events=ev, track_guards=False, must=False).run()
    fl = Flow(f.node, resolver=Resolver(f.node)).run()
    for i, c in enumerate(sorted(calls, key=lambda n: n.lineno)):
        construct = f"Kconfig._load_config/_undef_assign #{i + 1} after deprecated-name resolution"
        st = repo.enclosing_stmt(c)
        evs = fl_may.events_at(st) or set()
        ok = "resolved" in evs
        gs = fl.guards_at(c) or set()
        rel = {(k, p) for k, p in gs if {x.id for x in ast.walk(_pk(k)) if isinstance(x, ast.Name)} == {"sym"}}
        imp, _ = facts_vs_formula(rel, "not sym or not sym.nodes") if rel else (False, set())
        if ok and imp:
            ctx.ok(construct, f.loc(c))
        else:
            ctx.bad(construct, f"resolution precedes: {ok}; guarded by undefined-symbol test: {imp} - a deprecated name is reported as an "
                    "unknown symbol", f.loc(c))


def r11_3(ctx):
    """R11.3 the deprecated block is skipped unless requested: the early `continue` under `in_deprecated_block and not
    load_deprecated` precedes every use of the line regexes; synthetic symbols are created only inside the block."""
    repo = ctx.repo
    f = repo.func(f"{CORE}:Kconfig._load_config")
    loop = None
    for n in ast.walk(f.node):
        if isinstance(n, ast.For) and "enumerate(f" in ast.unparse(n.iter):
            loop = n
    if loop is None:
        raise AnchorError("line loop not found")
    skip = [s for s in loop.body if isinstance(s, ast.If) and _conjuncts(s.test) == {"in_deprecated_block", "not load_deprecated"}
            and len(s.body) == 1 and isinstance(s.body[0], ast.Continue)]
    first_match = [s for s in loop.body if any(isinstance(x, ast.Call) and ast.unparse(x.func) in ("set_match", "unset_match", "self._set_match", "self._unset_match")
                                               for x in ast.walk(s))]
    construct = "Kconfig._load_config/deprecated block skipped before any line is parsed"
    ok = bool(skip) and bool(first_match) and loop.body.index(skip[0]) < loop.body.index(first_match[0])
    (ctx.ok(construct, f.loc(skip[0])) if ok else ctx.bad(construct, "lines of the deprecated block reach the assignment parser although "
                                                          "load_deprecated is off", f.loc(loop)))
    construct = "Kconfig._load_config/block delimiters toggle in_deprecated_block"
    src = ast.unparse(loop)
    fl = Flow(f.node, body=[loop]).run()
    on = [n for n in ast.walk(loop) if isinstance(n, ast.Assign) and ast.unparse(n.targets[0]) == "in_deprecated_block"]
    ok = False
    if len(on) == 2:
        g1 = fl.guards_at(on[0]) or set()
        g2 = fl.guards_at(on[1]) or set()
        # the markers are recognised whatever blanks surround them (hand-edited or re-indented files): the comparison is made
        # on the stripped line
        ok = ast.unparse(on[0].value) == "True" and any("DEP_OP_BEGIN" in k and ".strip()" in k and p for k, p in g1) and \
            ast.unparse(on[1].value) == "False" and any("DEP_OP_END" in k and ".strip()" in k and p for k, p in g2)
    (ctx.ok(construct, f.loc(on[0])) if ok else ctx.bad(construct, "begin/end handling changed", f.loc(loop)))
    cr = repo.func(f"{CORE}:Kconfig._load_config.<locals>._create_new_deprecated_symbol")
    ctx.analysed(cr.qual)
    first = [n for n in cr.node.body if not (isinstance(n, ast.Expr) and isinstance(n.value, ast.Constant))][0]
    construct = "_create_new_deprecated_symbol/only inside the deprecated block"
    # the block test may sit in the helper (early return) or at every call site - one of them is enough
    inner = isinstance(first, ast.If) and ast.unparse(first.test) == "not in_deprecated_block" and isinstance(first.body[0], ast.Return)
    calls = [n for n in ast.walk(loop) if isinstance(n, ast.Call) and ast.unparse(n.func) == "_create_new_deprecated_symbol"]
    ok = True
    for c in calls:
        gs = fl.guards_at(c) or set()
        ok = ok and (inner or ("in_deprecated_block", True) in gs) and ("sym", False) in gs
    (ctx.ok(construct, cr.loc(first), call_sites=len(calls)) if ok and calls else
     ctx.bad(construct, "a synthetic deprecated symbol can be created outside the deprecated block / for an existing symbol", cr.loc()))
    construct = "_create_new_deprecated_symbol/synthetic symbol never enters the menu tree or unique_defined_syms"
    attrs = {n.attr for n in ast.walk(cr.node) if isinstance(n, ast.Attribute)}
    ok = not ({"defined_syms", "unique_defined_syms"} & attrs) and any(
        isinstance(n, ast.Assign) and ast.unparse(n.targets[0]).endswith("._is_deprecated") and ast.unparse(n.value) == "True" for n in ast.walk(cr.node))
    (ctx.ok(construct, cr.loc(), nontrivial=False) if ok else ctx.bad(construct, "synthetic symbols are registered as defined symbols", cr.loc()))


def r11_4(ctx):
    """R11.4 rename-table invariants (C07 R07.5): last mapping wins consistently in the forward table, the reverse table
    and the inversion list; lookups go through the tables (get_new_option, is_inversion, get_deprecated_option)."""
    c07.r07_5(ctx)
    repo = ctx.repo
    for name, expect in (("get_new_option", "self.r_dic.get(deprecated_option, None)"), ("is_inversion", "deprecated_option in self.inversions"),
                         ("get_deprecated_option", "self.rev_r_dic.get(new_option, [])")):
        f = repo.func(f"esp_kconfiglib.deprecated:DeprecatedOptions.{name}")
        ctx.analysed(f.qual)
        r = [n for n in ast.walk(f.node) if isinstance(n, ast.Return)]
        construct = f"DeprecatedOptions.{name}/plain table lookup"
        ok = bool(r) and ast.unparse(r[0].value) in (expect, expect.replace(", None)", ")"))
        if not ok and ".get(" in expect:
            # the same lookup spelled `if k in T: return T[k]` + `return <default>`
            tbl, key, dflt = expect.split(".get(")[0], expect.split(".get(")[1].split(",")[0].strip(), expect.rsplit(",", 1)[1].strip(" )")
            flk = Flow(f.node, resolver=Resolver(f.node)).run()
            hit = [x for x in r if ast.unparse(x.value) == f"{tbl}[{key}]" and (f"{key} in {tbl}", True) in (flk.guards_at(x) or set())]
            miss = [x for x in r if ast.unparse(x.value) == dflt]
            ok = len(r) == 2 and len(hit) == 1 and len(miss) == 1
        (ctx.ok(construct, f.loc(), nontrivial=False) if ok else ctx.bad(construct, f"returns {ast.unparse(r[0].value) if r else None}", f.loc()))


def r11_5(ctx):
    """R11.5 the block delimiters are recognised before lines are skipped: in the line loop the begin/end marker handling
    precedes the `in_deprecated_block and not load_deprecated` skip - otherwise the end marker is never seen and everything
    after the block is ignored; the `is not set` inversion value is per line (re-initialised for every line)."""
    repo = ctx.repo
    f = repo.func(f"{CORE}:Kconfig._load_config")
    loop = [n for n in ast.walk(f.node) if isinstance(n, ast.For) and "enumerate(f" in ast.unparse(n.iter)][0]
    skip = [i for i, s in enumerate(loop.body) if isinstance(s, ast.If) and _conjuncts(s.test) == {"in_deprecated_block", "not load_deprecated"}]
    delim = [i for i, s in enumerate(loop.body) if isinstance(s, ast.If) and any(d in ast.unparse(s.test) for d in ("DEP_OP_BEGIN", "DEP_OP_END"))]
    construct = "Kconfig._load_config/block delimiters handled before the skip"
    ok = bool(skip) and bool(delim) and max(delim) < min(skip)
    (ctx.ok(construct, f.loc(loop.body[skip[0]])) if ok else
     ctx.bad(construct, "lines are skipped before the end-of-block marker can be recognised: once inside the deprecated block the rest of the file is ignored",
             f.loc(loop.body[skip[0]]) if skip else f.loc(loop)))
    init = [n for n in ast.walk(loop) if isinstance(n, ast.Assign) and ast.unparse(n.targets[0]) == "_deprecated_unset_val" and ast.unparse(n.value) == "None"]
    outside = [n for n in ast.walk(f.node) if isinstance(n, ast.Assign) and ast.unparse(n.targets[0]) == "_deprecated_unset_val" and not any(n is x for x in ast.walk(loop))]
    construct = "Kconfig._load_config/the inverted-alias value of a `not set` line does not outlive the line"
    uses = [n for n in ast.walk(loop) if isinstance(n, ast.Name) and n.id == "_deprecated_unset_val" and isinstance(n.ctx, ast.Load)]
    ok = bool(init) and not outside and all(init[0].lineno < u.lineno for u in uses)
    (ctx.ok(construct, f.loc(init[0]) if init else f.loc()) if ok else
     ctx.bad(construct, "_deprecated_unset_val is not reset for every line: after `# CONFIG_OLD is not set` on an inverted alias later plain `is not set` lines load as y",
             f.loc(outside[0]) if outside else f.loc(loop)))
    d = repo.func("esp_kconfiglib.deprecated:DeprecatedOptions._parse_replacements")
    construct = "DeprecatedOptions/old names are stored and looked up in one spelling"
    cased = [q for q in ("_parse_replacements", "get_new_option", "is_inversion", "get_deprecated_option")
             if any(isinstance(n, ast.Call) and isinstance(n.func, ast.Attribute) and n.func.attr in ("upper", "lower", "casefold")
                    for n in ast.walk(repo.func(f"esp_kconfiglib.deprecated:DeprecatedOptions.{q}").node))]
    ok = len(cased) in (0, 4) or set(cased) == {"_parse_replacements", "get_new_option", "is_inversion"}
    (ctx.ok(construct, d.loc(), nontrivial=False) if ok else
     ctx.bad(construct, f"case folding is applied in {cased} only: a lookup site that was missed compares the sdkconfig spelling with the folded table", d.loc()))


def r11_6(ctx):
    """R11.6 (a) the list of rename files reaches the rename-table parser as it was given - order and repetitions included:
    the tables are last-mapping-wins, so dropping a repeated file changes which mapping is last; (b) a line with a
    deprecated name, once resolved, continues exactly like a line with the new name: the resolution blocks contain no
    early exit of the line loop; (c) the synthetic symbol of a deprecated-block entry gets its type from the value as
    written (quotes included: `"y"` is a string)."""
    from .common import not_rebound
    repo = ctx.repo
    not_rebound(ctx, f"{CORE}:Kconfig.load_rename_files", ["path_rename_files"],
                "the rename tables are built from another list than the caller's (last mapping wins over the *given* order)")
    pr = repo.func("esp_kconfiglib.deprecated:DeprecatedOptions._parse_replacements")
    ctx.analysed(pr.qual)
    prm = [a.arg for a in pr.node.args.args if a.arg != "self"]
    loops = [n for n in ast.walk(pr.node) if isinstance(n, ast.For) and prm and ast.unparse(n.iter) in prm]
    construct = "DeprecatedOptions._parse_replacements/iterates the rename files in the given order, repetitions included"
    (ctx.ok(construct, pr.loc(loops[0])) if loops else ctx.bad(construct, f"no loop over the parameter(s) {prm} as given (filtered, sorted or de-duplicated)", pr.loc()))
    f = repo.func(f"{CORE}:Kconfig._load_config")
    ctx.analysed(f.qual)
    # the statements of a resolution: from the lookup of the new name to the rebinding of `sym`, with everything nested
    rb = _rebinds(f.node)
    lookups = sorted([n for n in ast.walk(f.node) if isinstance(n, ast.Assign) and "get_new_option(" in ast.unparse(n.value)], key=lambda n: n.lineno)
    if len(rb) < 2 or len(lookups) < 2:
        raise AnchorError(f"_load_config: {len(rb)} deprecated-name resolution blocks found, 2 expected")
    fl6 = Flow(f.node, resolver=Resolver(f.node)).run()
    exits = [x for x in ast.walk(f.node) if isinstance(x, (ast.Continue, ast.Break, ast.Return))]
    for i, (lk, r) in enumerate(zip(lookups, rb)):
        construct = f"Kconfig._load_config/resolution block #{i + 1} has no early exit of the line"
        # an exit that is taken only once a replacement was looked up (its guards mention new_name / new_sym) between this
        # site's lookup and the next site
        hi = lookups[i + 1].lineno if i + 1 < len(lookups) else 10 ** 9
        ex = [x for x in exits if lk.lineno <= x.lineno < hi and any(
            {"new_name", "new_sym"} & {y.id for y in ast.walk(_pk(k)) if isinstance(y, ast.Name)} for k, _ in (fl6.guards_at(x) or set()))]
        b = lk
        (ctx.bad(construct, f"`{type(ex[0]).__name__.lower()}` inside the resolution of a deprecated name: such a line is dropped where the same line "
                 "with the new name would be applied (the last line wins for new names, so it must for old ones)", f.loc(ex[0]))
         if ex else ctx.ok(construct, f.loc(b)))
    not_rebound(ctx, f"{CORE}:Kconfig._load_config.<locals>._create_new_deprecated_symbol", ["val", "name"],
                "the type of the synthetic symbol is inferred from the value as written in the file")


def r11_7(ctx):
    """R11.7 (a) a deprecated-block entry inherits the type of its replacement only when the replacement is a *defined* option
    (`new_sym.nodes`; a name that merely occurs in some expression has type UNKNOWN and would make the entry unassignable);
    (b) the configuration prefix is removed from the front of a name only (slicing after startswith - never
    str.replace(), which also removes the prefix text inside names such as CONFIG_ESP_MENUCONFIG_STYLE)."""
    repo = ctx.repo
    f = repo.func(f"{CORE}:Kconfig._load_config.<locals>._create_new_deprecated_symbol")
    ctx.analysed(f.qual)
    fl = Flow(f.node, resolver=Resolver(f.node)).run()
    uses = [n for n in ast.walk(f.node) if isinstance(n, ast.Attribute) and n.attr in ("orig_type", "type") and ast.unparse(n.value) == "new_sym" and isinstance(n.ctx, ast.Load)]
    construct = "_create_new_deprecated_symbol/type inherited only from a defined replacement"
    if not uses:
        ctx.ok(construct + " (no type inheritance)", f.loc(), nontrivial=False)
    else:
        bad = [u for u in uses if ("new_sym.nodes", True) not in (fl.guards_at(u) or set())]
        (ctx.bad(construct, f"`{ast.unparse(bad[0])}` is read without `new_sym.nodes`: a replacement that is only referenced (never defined) hands its UNKNOWN type "
                 "to the synthetic symbol, whose value is then rejected", f.loc(bad[0])) if bad else ctx.ok(construct, f.loc(uses[0])))
    g = repo.func("esp_kconfiglib.deprecated:DeprecatedOptions.remove_config_prefix")
    ctx.analysed(g.qual)
    rep = [n for n in ast.walk(g.node) if isinstance(n, ast.Call) and isinstance(n.func, ast.Attribute) and n.func.attr in ("replace", "lstrip", "strip", "removesuffix")
           and "config_prefix" in ast.unparse(n)]
    construct = "DeprecatedOptions.remove_config_prefix/only the leading prefix is removed"
    (ctx.bad(construct, f"`{ast.unparse(rep[0])}` removes the prefix text wherever it occurs: names containing it again (…_SDKCONFIG_…, …MENUCONFIG_…) are stored mangled "
             "and assignments through them are not resolved", g.loc(rep[0])) if rep else ctx.ok(construct, g.loc()))

def r11_8(ctx):
    """R11.8 the deprecated block the tool writes can be read back: an alias of a number option without a value is written as
    `CONFIG_OLD=`, so the value of a block entry can be empty - _create_new_deprecated_symbol never takes `val[0]` / `val[-1]`
    of it unguarded (slices are fine). IndexError there made load_config(load_deprecated=True) fail on the tool's own file
    (fixed defect 5.48)."""
    from .common import index_of_text_guarded
    index_of_text_guarded(ctx, f"{CORE}:Kconfig._load_config.<locals>._create_new_deprecated_symbol", ["val"], "the tool's own sdkconfig cannot be loaded with load_deprecated")
    ctx.ok("_create_new_deprecated_symbol/constant subscripts of the entry's value examined", "", nontrivial=False)


def r11_9(ctx):
    """R11.9 a deprecated string entry is read the way it was written: the alias lines of the deprecated block are written through
    _escape() (C07 R07.10b), so wherever _create_new_deprecated_symbol cuts the quotes off a block value (`val[1:-1]`) the result goes
    through unescape() - otherwise the synthetic symbol of an alias differs from its replacement for every value with a quote or a
    backslash (fixed defect 5.49)."""
    repo = ctx.repo
    f = repo.func(f"{CORE}:Kconfig._load_config.<locals>._create_new_deprecated_symbol")
    ctx.analysed(f.qual)
    cuts = [n for n in ast.walk(f.node) if isinstance(n, ast.Subscript) and isinstance(n.slice, ast.Slice) and ast.unparse(n.slice) == "1:-1"
            and isinstance(n.ctx, ast.Load)]
    construct = "_create_new_deprecated_symbol/a quoted block value is unescaped"
    if not cuts:
        calls = [n for n in ast.walk(f.node) if isinstance(n, ast.Call) and ast.unparse(n.func) in ("unescape", "_conf_string_match")]
        (ctx.ok(construct, f.loc(calls[0])) if calls else ctx.bad(construct, "the quotes of a block value are no longer removed / the value is not unescaped", f.loc()))
        return
    for c in cuts:
        par = repo.parent(c)
        ok = isinstance(par, ast.Call) and ast.unparse(par.func) == "unescape"
        (ctx.ok(construct, f.loc(c)) if ok else
         ctx.bad(construct, f"`{ast.unparse(c)}` is used without unescape(): the escapes _escape() wrote stay in the synthetic symbol's value", f.loc(c)))


def r11_10(ctx):
    """R11.10 `load_deprecated=True` means what it says for every file: Kconfig.load_config() hands its arguments on to _load_config()
    unchanged - the deprecated block of an alternate sdkconfig (`is_main_sdkconfig=False`) is loaded like that of the main one."""
    repo = ctx.repo
    f = repo.func(f"{CORE}:Kconfig.load_config")
    ctx.analysed(f.qual)
    params = [a.arg for a in f.node.args.args if a.arg != "self"] + [a.arg for a in f.node.args.kwonlyargs]
    calls = [n for n in ast.walk(f.node) if isinstance(n, ast.Call) and ast.unparse(n.func) == "self._load_config"]
    if not calls:
        raise AnchorError("load_config no longer calls _load_config")
    for i, c in enumerate(calls):
        construct = f"Kconfig.load_config/_load_config() call #{i + 1} gets the caller's arguments as they are"
        args = list(c.args) + [k.value for k in c.keywords]
        changed = [ast.unparse(a) for a in args if not isinstance(a, (ast.Name, ast.Constant)) and any(isinstance(x, ast.Name) and x.id in params for x in ast.walk(a))]
        (ctx.bad(construct, f"`{changed[0]}` is computed from the arguments: the request of the caller (e.g. load_deprecated) holds for some files only", f.loc(c))
         if changed else ctx.ok(construct, f.loc(c)))


def r11_11(ctx):
    """R11.11 (a) a `# CONFIG_OLD is not set` line is recognised for every name the writer can emit: the unset reader regex matches the
    line shape whatever characters the name has (C02 R02.1 line shapes) - deprecated names may be lower case; (b) the `# default:`
    marker of a skipped deprecated block does not leak to the entry after it: the marker is cleared at every entry and at the block
    delimiters (C08 R08.2)."""
    from . import c02, c08
    from .common import delegate
    delegate(ctx, c02.r02_1, lambda c: 'line shape' in c or 'normalisation' in c)
    delegate(ctx, c08.r08_2, lambda c: True)


def rules():
    return [("R11.11", r11_11, 4), ("R11.10", r11_10, 1), ("R11.9", r11_9, 1), ("R11.8", r11_8, 1), ("R11.7", r11_7, 2), ("R11.6", r11_6, 6), ("R11.1", r11_1, 7), ("R11.2", r11_2, 2), ("R11.3", r11_3, 4), ("R11.4", r11_4, 6), ("R11.5", r11_5, 3)]
