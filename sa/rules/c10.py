"""C10 - a minimal configuration reconstructs the full configuration (necessary structural conditions)."""
from __future__ import annotations

import ast
from typing import Dict, List, Optional, Set, Tuple

from ..flow import AnalysisError, Flow, Resolver
from ..paths import ReadSetAnalysis
from ..repo import AnchorError
from . import c02

PROPERTY = "C10"
CORE = "esp_kconfiglib.core"
LEVEL_TEXT = (
    "Static analysis of the minimal-config writer: the default oracle Symbol._str_default must consult every non-user "
    "value source the evaluators consult (read-set comparison) and use the evaluators' first-active-default rule; "
    "both writer variants emit exactly config_string of the symbols accepted by the one predicate "
    "_is_min_config_sym, each symbol once; the =n normaliser maps onto the reader's set shape. Completeness of the "
    "minimal file in general is not decided."
)
DYN_ATTRS = {"str_value", "bool_value", "visibility", "selection", "assignable"}
DYN_FUNCS = {"expr_value", "_sym_to_num"}
# self.rev_values (`set`) is deliberately absent: a forced value is reproduced by the `set` itself on reload whatever the
# minimal file says, so the oracle need not know it; every *overridable* source must be consulted.
SOURCE_ROOTS = ("self.defaults", "self.rev_dep", "self.weak_rev_dep", "self.weak_rev_values")


def r10_1(ctx):
    """R10.1 the default oracle consults the evaluator's sources: every non-user source component that Symbol.str_value /
    bool_value read (defaults, select, imply, set, set default) is also read by Symbol._str_default, otherwise a user
    value equal to the plain default is omitted although another source overrides that default on reload."""
    repo = ctx.repo
    ev = ReadSetAnalysis(repo, CORE, "Symbol", ctx.depth, DYN_ATTRS, DYN_FUNCS)
    for e in ("str_value", "bool_value"):
        ev.run(repo.func(f"{CORE}:Symbol.{e}"))
    sd = ReadSetAnalysis(repo, CORE, "Symbol", ctx.depth, DYN_ATTRS, DYN_FUNCS)
    sd.run(repo.func(f"{CORE}:Symbol._str_default"))
    ctx.analysed(*ev.functions, *sd.functions)
    need = sorted({r for p in ev.components() for r in SOURCE_ROOTS if p == r or p.startswith(r + "[") or p.startswith(r + ".")})
    have = {r for p in sd.components() for r in SOURCE_ROOTS if p == r or p.startswith(r + "[") or p.startswith(r + ".")}
    if len(need) < 4:
        raise AnalysisError(f"evaluators read only {need}")
    for r in need:
        construct = f"Symbol._str_default/consults {r}"
        if r in have:
            ctx.ok(construct, repo.func(f"{CORE}:Symbol._str_default").loc())
        else:
            ctx.bad(construct, f"str_value/bool_value take values from {r} but _str_default never looks at it: with an active "
                    f"`{'set default' if 'weak' in r else 'set'}` a user value equal to the plain default is dropped from the minimal "
                    "file and the reload yields the other source's value", repo.func(f"{CORE}:Symbol._str_default").loc())


def r10_1b(ctx):
    """R10.1b _str_default uses the evaluators' default rule: the first default whose *condition* holds decides (whatever its
    value), bool defaults are met with the condition, and select/imply are joined in; choice members get no defaults."""
    repo = ctx.repo
    f = repo.func(f"{CORE}:Symbol._str_default")
    ctx.analysed(f.qual)
    res = Resolver(f.node)
    fl = Flow(f.node, resolver=res).run()
    loops = [n for n in ast.walk(f.node) if isinstance(n, ast.For) and ast.unparse(n.iter) == "self.defaults"]
    if len(loops) < 2:
        raise AnchorError("_str_default: expected a bool and a non-bool loop over self.defaults")
    for lp in loops:
        tv = [t.id for t in lp.target.elts] if isinstance(lp.target, ast.Tuple) else []
        ifs = [s for s in lp.body if isinstance(s, ast.If)]
        kind = "bool" if any(isinstance(x, ast.Call) and ast.unparse(x.func) == "min" for x in ast.walk(lp)) else "non-bool"
        construct = f"Symbol._str_default/{kind} defaults: first default whose condition holds decides"
        msgs = []
        if len(tv) != 2 or len(ifs) != 1 or ifs[0].orelse:
            msgs.append("loop body shape changed")
        else:
            default, cond = tv
            t = ifs[0].test
            # the test is the condition only: `cond_val` (= expr_value(cond)) or `expr_value(cond)`
            test_src = ast.unparse(t)
            cv = [s for s in lp.body if isinstance(s, ast.Assign) and ast.unparse(s.value) == f"expr_value({cond})"]
            cond_names = {f"expr_value({cond})"} | {ast.unparse(s.targets[0]) for s in cv}
            if test_src not in cond_names:
                msgs.append(f"the arm is taken under `{test_src}` instead of the default's condition alone")
            last = ifs[0].body[-1]
            if not isinstance(last, (ast.Break, ast.Return)):
                msgs.append("the loop does not stop at the first active default")
            if kind == "bool":
                asg = [s for s in ifs[0].body if isinstance(s, ast.Assign)]
                if not asg or ast.unparse(asg[0].value).replace(" ", "") not in (
                        f"min(expr_value({default}),{ast.unparse(cv[0].targets[0]) if cv else ''})".replace(" ", ""),
                        f"min(expr_value({default}),expr_value({cond}))"):
                    msgs.append("bool default is not min(value, condition)")
            else:
                if not (isinstance(last, ast.Return) and ast.unparse(last.value) == f"{default}.str_value"):
                    msgs.append("non-bool default is not the default symbol's str_value")
        (ctx.bad(construct, "; ".join(msgs), f.loc(lp)) if msgs else ctx.ok(construct, f.loc(lp)))
    mx = [n for n in ast.walk(f.node) if isinstance(n, ast.Call) and ast.unparse(n.func) == "max"]
    construct = "Symbol._str_default/select and imply joined into the bool default"
    ok = bool(mx) and {"expr_value(self.rev_dep)", "expr_value(self.weak_rev_dep)"} <= {ast.unparse(a) for a in mx[0].args}
    if ok:
        gs = fl.guards_at(mx[0]) or set()
        ok = ("self.choice", False) in gs
    (ctx.ok(construct, f.loc(mx[0])) if ok else ctx.bad(construct, "max(rev_dep, weak_rev_dep, val) under `not self.choice` not found", f.loc()))


ALLOWED_EMIT_GUARDS = ("labels", "_is_min_config_sym", "_visited", "is Symbol", "conf_string", "config_string", "after_end_comment", "entry[1]", "1")


def r10_2(ctx):
    """R10.2 labelled and unlabelled variants agree: both emit exactly `config_string` of the symbols accepted by the single
    predicate _is_min_config_sym, in definition order, each symbol once; no other condition filters entries."""
    repo = ctx.repo
    plain = repo.func(f"{CORE}:Kconfig._min_config_contents")
    lab = repo.func(f"{CORE}:Kconfig._min_config_contents_with_labels")
    ctx.analysed(plain.qual, lab.qual)
    for f in (plain, lab):
        res = Resolver(f.node)
        fl = Flow(f.node, resolver=res).run()
        # `add(x)` (the bound `chunks.append`) or `<list>.append(x)` directly
        adds = [n for n in ast.walk(f.node) if isinstance(n, ast.Call) and n.args
                and (ast.unparse(n.func) == "add" or (isinstance(n.func, ast.Attribute) and n.func.attr == "append"))
                and ("config_string" in res.text(n.args[0]) or "conf_string" in ast.unparse(n.args[0]))]
        construct = f"{f.short}/emits config_string of exactly the _is_min_config_sym symbols"
        if not adds:
            ctx.bad(construct, "no emission of config_string", f.loc())
            continue
        gs = fl.guards_at(adds[0]) or set()
        has_pred = any("_is_min_config_sym" in k and pol for k, pol in gs) or any("not self._is_min_config_sym" in k and not pol for k, pol in gs)
        extra = sorted(g for g in gs if not any(a in g[0] for a in ALLOWED_EMIT_GUARDS))
        if has_pred and not extra:
            ctx.ok(construct, f.loc(adds[0]), guards=sorted(map(str, gs)))
        else:
            ctx.bad(construct, f"predicate guard present: {has_pred}; additional filters: {extra} - the two variants (and the full "
                    "configuration) no longer agree on which assignments are written", f.loc(adds[0]))
    construct = "Kconfig._min_config_contents/iterates unique_defined_syms in order"
    lp = [n for n in ast.walk(plain.node) if isinstance(n, ast.For)]
    ok = len(lp) == 1 and ast.unparse(lp[0].iter) == "self.unique_defined_syms" and not any(isinstance(x, ast.Break) for x in ast.walk(lp[0]))
    (ctx.ok(construct, plain.loc(lp[0])) if ok else ctx.bad(construct, "loop over self.unique_defined_syms changed", plain.loc()))
    construct = "Kconfig._min_config_contents/labels flag only selects the walk"
    ifs = [n for n in plain.node.body if isinstance(n, ast.If) and ast.unparse(n.test) == "labels"]
    ok = bool(ifs) and isinstance(ifs[0].body[-1], ast.Return) and "_min_config_contents_with_labels" in ast.unparse(ifs[0].body[-1])
    (ctx.ok(construct, plain.loc(), nontrivial=False) if ok else ctx.bad(construct, "labels dispatch changed", plain.loc()))


def r10_2b(ctx):
    """R10.2b the labelled walk resets and uses the visited marks like the sdkconfig walk (C02 R02.5)."""
    before = len(ctx.instances)
    c02.r02_5(ctx)
    keep = [i for i in ctx.instances[before:] if "_min_config_contents_with_labels" in i.construct]
    dropped = {i.construct for i in ctx.instances[before:] if "_min_config_contents_with_labels" not in i.construct}
    ctx.instances[before:] = keep
    ctx.findings[:] = [f for f in ctx.findings if not (f.rule == ctx._rule and f.construct in dropped)]


def r10_3(ctx):
    """R10.3 the =n normalisation rewrites only lines of the unset shape into the set shape the reader accepts, and
    kconfgen's savedefconfig goes through Kconfig.write_min_config (C02 R02.1)."""
    before = len(ctx.instances)
    c02.r02_1(ctx)
    keep = [i for i in ctx.instances[before:] if "write_min_config" in i.construct]
    dropped = {i.construct for i in ctx.instances[before:] if "write_min_config" not in i.construct}
    ctx.instances[before:] = keep
    ctx.findings[:] = [f for f in ctx.findings if not (f.rule == ctx._rule and f.construct in dropped)]
    repo = ctx.repo
    f = repo.func("kconfgen.core:write_min_config")
    construct = "kconfgen.write_min_config/delegates to Kconfig.write_min_config"
    ok = any(isinstance(n, ast.Call) and ast.unparse(n.func) == "config.write_min_config" for n in ast.walk(f.node))
    (ctx.ok(construct, f.loc(), nontrivial=False) if ok else ctx.bad(construct, "no call of config.write_min_config", f.loc()))


def r10_4(ctx):
    """R10.4 _is_min_config_sym compares the computed value with the default oracle and nothing else decides omission: as
    a boolean function of its atomic tests (whatever the spelling: guard clauses, one expression, arms per kind of symbol)
    it keeps a symbol exactly when none of (not a choice member and visibility <= select), (value == _str_default()),
    (choice member that is the bool-y default selection) holds."""
    from .common import AcceptCondition
    repo = ctx.repo
    f = repo.func(f"{CORE}:Kconfig._is_min_config_sym")
    ctx.analysed(f.qual)
    sym = f.node.args.args[1].arg
    construct = "Kconfig._is_min_config_sym/omission tests"
    ac = AcceptCondition(f.node)
    A = {"choice": f"{sym}.choice", "pinned": f"{sym}.visibility <= expr_value({sym}.rev_dep)",
         "dflt": f"{sym}.str_value == {sym}._str_default()", "sel": f"{sym}.choice._selection_from_defaults() is {sym}",
         "bool": f"{sym}.orig_type == BOOL", "y": f"{sym}.bool_value == 2"}
    alt = {f"{sym}.visibility > expr_value({sym}.rev_dep)": ("pinned", False), f"{sym}.orig_type is BOOL": ("bool", True),
           f"{sym}.bool_value": ("y", True), f"{sym}.bool_value != 0": ("y", True)}
    unknown = [a for a in ac.atoms if a not in A.values() and a not in alt]
    missing = [k for k, a in A.items() if a not in ac.atoms and not any(v[0] == k and t in ac.atoms for t, v in alt.items())]
    if unknown or missing:
        ctx.bad(construct, f"the omission decision reads {unknown or 'nothing new'} and no longer reads {[A[k] for k in missing] or 'everything it did'}: "
                "what the minimal configuration leaves out is no longer `unchanged default, pinned by select, or the default pick of a choice`", f.loc())
        return
    import itertools
    keys = list(A)
    for vals in itertools.product((True, False), repeat=len(keys)):
        w = dict(zip(keys, vals))
        if not w["choice"] and w["sel"]:
            continue  # `sym.choice._selection_from_defaults()` is not evaluated for a plain symbol
        v = {A[k]: w[k] for k in keys if A[k] in ac.atoms}
        for t, (k, pos) in alt.items():
            if t in ac.atoms:
                v[t] = w[k] if pos else (not w[k])
        spec = not ((not w["choice"] and w["pinned"]) or w["dflt"] or (w["choice"] and w["sel"] and w["bool"] and w["y"]))
        try:
            got = bool(ac.accept(v))
        except KeyError:
            continue
        if got != spec:
            ctx.bad(construct, f"with {w} the symbol is {'kept' if got else 'left out'} although it should be {'kept' if spec else 'left out'}", f.loc())
            return
    ctx.ok(construct, f.loc(), atoms=ac.atoms)


RECORD_TEXT_FUNCS = ("Kconfig.write_min_config", "Kconfig._min_config_contents", "Kconfig._min_config_contents_with_labels",
                     "Kconfig.write_config", "Kconfig._config_contents", "Kconfig._write_if_changed", "Kconfig._contents_eq")


def r10_5(ctx):
    """R10.5 emitted config text is cut into records on the newline only: no function that post-processes the emitted
    text applies str.splitlines() (it also cuts on \x0b \x0c \x1c-\x1e \x85 U+2028/9, which `escape()` leaves inside
    string values: the record after the cut is dropped or mangled and the reloaded value differs); the =n normaliser
    splits on the newline and joins with it."""
    repo = ctx.repo
    for short in RECORD_TEXT_FUNCS:
        try:
            f = repo.func(f"{CORE}:{short}")
        except AnchorError:
            continue
        ctx.analysed(f.qual)
        bad = [n for n in ast.walk(f.node) if isinstance(n, ast.Call) and isinstance(n.func, ast.Attribute) and n.func.attr == "splitlines"]
        construct = f"{short}/record text is not cut with str.splitlines()"
        if bad:
            ctx.bad(construct, f"`{ast.unparse(bad[0])[:60]}` cuts string values containing form feed / U+2028 etc. into two records", f.loc(bad[0]))
        else:
            ctx.ok(construct, f.loc(), nontrivial=False)
    f = repo.func(f"{CORE}:Kconfig.write_min_config")
    splits = [n for n in ast.walk(f.node) if isinstance(n, ast.Call) and isinstance(n.func, ast.Attribute) and n.func.attr == "split"]
    joins = [n for n in ast.walk(f.node) if isinstance(n, ast.Call) and isinstance(n.func, ast.Attribute) and n.func.attr == "join"]
    construct = "Kconfig.write_min_config/normaliser splits and joins on the newline"
    if any(isinstance(n.func.value, ast.Constant) for n in joins) or splits:
        seps = [ast.unparse(n.args[0]) if n.args else "<whitespace>" for n in splits] + [ast.unparse(n.func.value) for n in joins if isinstance(n.func.value, ast.Constant)]
        if all(x in ("'\\n'",) for x in seps):
            ctx.ok(construct, f.loc(), separators=seps)
        else:
            ctx.bad(construct, f"separators {seps}: records are cut or re-joined on something other than the newline", f.loc())


def r10_6(ctx):
    """R10.6 the minimal file on disk is the minimal file just computed, and it reloads to the values it names: (a) the
    writer skips the write only when the existing file is identical as a whole (C13 R13.1b: a prefix comparison keeps a
    stale, longer file whose extra lines bring back options that are at their defaults now); (b) string values are always
    written through the full escape chain the loader undoes (C02 R02.2 / R02.9a)."""
    from . import c13
    from .common import delegate
    delegate(ctx, c13.r13_1b, lambda c: True)
    delegate(ctx, c02.r02_2, lambda c: "config_string" in c or "_escape" in c or "escape" in c.lower())
    delegate(ctx, c02.r02_9, lambda c: c.startswith("_escape/"))


def r10_7(ctx):
    """R10.7 nothing that composes the minimal file cuts config text with str.splitlines() (module-wide over the library and
    kconfgen, header helpers in esp_kconfiglib.constants included): it drops the line end together with the pragma and the
    next assignment is glued onto the header line."""
    from .common import no_splitlines
    mods = [m for m in ("esp_kconfiglib.constants", "esp_kconfiglib.core", "esp_kconfiglib.deprecated", "kconfgen.core", "esp_menuconfig.model", "esp_menuconfig.app")
            if m in ctx.repo.modules]
    no_splitlines(ctx, mods, "a record loses its line end or is cut in two")
    ctx.ok("minimal-config composition/modules examined for str.splitlines()", "", nontrivial=False, modules=mods)

def r10_8(ctx):
    """R10.8 a user value never carries the default marker in the minimal file: the marker predicate decides `promptless` over all
    definitions of the symbol (C02 R02.9b) - a marked user value is reloaded as a default and lost."""
    from . import c02
    from .common import delegate
    delegate(ctx, c02.r02_9, lambda c: "prompt tests quantify over all definitions" in c)


def r10_9(ctx):
    """R10.9 every assignment of the minimal file is stored: Symbol.set_value records the user value whatever the option currently
    evaluates to (C03 R03.9) - an assignment that happens to match the value of the moment is otherwise dropped and a later line
    of the same file changes the default it relied on."""
    from . import c03
    from .common import delegate
    delegate(ctx, c03.r03_9, lambda c: "Symbol.set_value/store self._user_value" in c or "Symbol.set_value/store self._was_set" in c)


def r10_10(ctx):
    """R10.10 loading stores every assignment of the file and judges it afterwards: Kconfig.set_value_and_source() - through which
    load_config() applies each line - hands the value to set_value() without consulting ranges, visibility or current values
    (C03 R03.9 for the setter itself). A range that becomes active only through a later line of the same minimal file would
    otherwise reject a number that is valid in the complete configuration."""
    from .common import EVALUATED, expand_locals, parse_key
    repo = ctx.repo
    f = repo.func(f"{CORE}:Kconfig.set_value_and_source")
    ctx.analysed(f.qual)
    fl = Flow(f.node, resolver=Resolver(f.node)).run()
    calls = [n for n in ast.walk(f.node) if isinstance(n, ast.Call) and isinstance(n.func, ast.Attribute) and n.func.attr == "set_value"]
    if not calls:
        raise AnchorError("set_value_and_source no longer calls set_value()")
    construct = "Kconfig.set_value_and_source/the value reaches set_value() whatever the configuration of the moment"
    dep = []
    for k, p in sorted(fl.guards_at(calls[0]) or set()):
        full = expand_locals(f.node, parse_key(k))
        if any(t in full for t in EVALUATED) or ".ranges" in full:
            dep.append(f"{'' if p else 'not '}({full[:70]})")
    loops = [n for n in ast.walk(f.node) if isinstance(n, (ast.For, ast.While)) and any(t in ast.unparse(n) for t in ("expr_value(", ".ranges", ".visibility"))]
    if dep or loops:
        ctx.bad(construct, f"the assignment is judged against the current configuration first ({dep or 'a loop over ' + ast.unparse(loops[0].iter)[:40]}): whether a line "
                "of the file is applied depends on the lines that were read before it", f.loc(loops[0] if loops else calls[0]))
    else:
        ctx.ok(construct, f.loc(calls[0]))


def r10_11(ctx):
    """R10.11 the loader stores what the writer wrote: between the line regex and the store, the value text is rewritten only in the ways the
    writer undoes (C16 R16.11) - cutting at ` #` also cuts inside a quoted string, and the minimal file's assignment is lost."""
    from . import c16
    from .common import delegate
    delegate(ctx, c16.r16_11, lambda c: True)


def r10_12(ctx):
    """R10.12 kconfgen adds a header to the minimal configuration and nothing else: write_min_config() of kconfgen hands the text
    to Kconfig.write_min_config() and does not open the file again - a clean-up pass over the written body (dropping lines by a
    name prefix) removes assignments the reload needs."""
    repo = ctx.repo
    f = repo.func("kconfgen.core:write_min_config")
    ctx.analysed(f.qual)
    calls = [n for n in ast.walk(f.node) if isinstance(n, ast.Call) and ast.unparse(n.func).endswith(".write_min_config")]
    if not calls:
        raise AnchorError("kconfgen write_min_config: the call of Kconfig.write_min_config was not found")
    construct = "kconfgen.write_min_config/the body written by Kconfig.write_min_config is left alone"
    again = [n for n in ast.walk(f.node) if isinstance(n, ast.Call) and ast.unparse(n.func) in ("open", "os.open", "io.open", "os.replace", "os.rename", "shutil.copyfile", "shutil.move")]
    (ctx.bad(construct, f"`{ast.unparse(again[0])[:60]}`: the file is processed again after it was written - every line this pass drops or changes is an assignment the "
             "minimal configuration no longer carries", f.loc(again[0])) if again else ctx.ok(construct, f.loc(calls[0])))


def r10_13(ctx):
    """R10.13 a value the minimal file carries is accepted when it is read back: the float validity test accepts the spelling
    the normaliser produces (C02 R02.11: `0.00001` is stored as `1e-05`; a test without exponent notation drops that
    assignment on reload and the option falls back to its default)."""
    from . import c02
    from .common import delegate
    delegate(ctx, c02.r02_11, lambda c: c.startswith("is_float/"))


def rules():
    return [("R10.13", r10_13, 1), ("R10.12", r10_12, 1), ("R10.11", r10_11, 5), ("R10.10", r10_10, 1), ("R10.9", r10_9, 2), ("R10.8", r10_8, 1), ("R10.7", r10_7, 1), ("R10.6", r10_6, 3), ("R10.1", r10_1, 4), ("R10.1b", r10_1b, 3), ("R10.2", r10_2, 4), ("R10.2b", r10_2b, 2), ("R10.3", r10_3, 2),
            ("R10.4", r10_4, 1), ("R10.5", r10_5, 5)]
