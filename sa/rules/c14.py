"""C14 - the config server's incremental replies keep a client exactly in sync (necessary structural
conditions)."""
from __future__ import annotations

import ast
from typing import Dict, List, Optional, Set, Tuple

from ..flow import AnalysisError, Flow, Resolver
from ..repo import AnchorError
from . import c03

PROPERTY = "C14"
KS = "kconfserver.core"
CORE = "esp_kconfiglib.core"
LEVEL_TEXT = (
    "Static analysis of kconfserver/core.py and the library state it reports: (snapshot discipline) in every iteration "
    "of the request loop each reply channel is diff(before, after) of two snapshots taken by the same getter that builds "
    "the initial message, before and after handle_request, within the same iteration; (key-set stability) diff only "
    "reports keys of the new snapshot, so each getter's key set must not depend on the configuration unless the "
    "property gives absent keys a meaning; save goes through the common writer; the library's incremental "
    "evaluation is sound (registered edges, invalidating writes - the rules of C03). Not decided: equality with a "
    "restarted server over whole histories, handle_set multi-pass semantics, reset semantics."
)

CHANNELS = {"values": "kconfgen.get_json_values", "ranges": "get_ranges", "visible": "get_visible", "defaults": "get_sym_default_value_dict"}


def r14_1(ctx):
    """R14.1 snapshot discipline: for each channel the `before` snapshot is taken by the channel's getter in the same
    iteration and dominates handle_request, the `after` snapshot follows it, and the reply's channel is diff(before,
    after) of that pair; the initial message uses the same getters."""
    repo = ctx.repo
    f = repo.func(f"{KS}:run_server")
    ctx.analysed(f.qual)
    loops = [n for n in ast.walk(f.node) if isinstance(n, ast.While)]
    if not loops:
        raise AnchorError("run_server: request loop not found")
    loop = loops[0]
    getter_of: Dict[int, Tuple[str, str]] = {}
    for n in ast.walk(loop):
        if isinstance(n, ast.Assign) and isinstance(n.targets[0], ast.Name) and isinstance(n.value, ast.Call):
            g = ast.unparse(n.value.func)
            if g in CHANNELS.values() and [ast.unparse(a) for a in n.value.args] == ["config"]:
                getter_of[id(n)] = (n.targets[0].id, g)
    handle = [n for n in ast.walk(loop) if isinstance(n, ast.Call) and ast.unparse(n.func) == "handle_request"]
    if not handle:
        raise AnchorError("run_server: handle_request call not found")
    hstmt = repo.enclosing_stmt(handle[0])

    def events(node):
        out = []
        if id(node) in getter_of:
            v, g = getter_of[id(node)]
            out.append(f"snap:{v}:{g}")
        if node is hstmt:
            out.append("handled")
        return out

    fl = Flow(f.node, events=events, body=loop.body).run()

    def cond_dom(var: str, site) -> Set[str]:
        """getters whose assignment to var is taken under guards that all hold at `site` as well (same-condition dominance:
        e.g. both under `req['version'] >= 3`)."""
        out = set()
        gs_site = fl.guards_at(site) or set()
        for n in ast.walk(loop):
            if id(n) in getter_of and getter_of[id(n)][0] == var:
                g = fl.guards_at(n)
                if g is not None and g <= gs_site and n.lineno < site.lineno:
                    out.add(getter_of[id(n)][1])
        return out

    diffs = [n for n in ast.walk(loop) if isinstance(n, ast.Call) and ast.unparse(n.func) == "diff" and len(n.args) == 2]
    seen_getters: Set[str] = set()
    for d in diffs:
        b, a = ast.unparse(d.args[0]), ast.unparse(d.args[1])
        st = repo.enclosing_stmt(d)
        target = ast.unparse(st.targets[0]) if isinstance(st, ast.Assign) else "?"
        construct = f"run_server/{target} = diff({b}, {a})"
        evs = fl.events_at(st) or set()
        gb = {e.split(":")[2] for e in evs if e.startswith(f"snap:{b}:")} or cond_dom(b, st)
        ga = {e.split(":")[2] for e in evs if e.startswith(f"snap:{a}:")} or cond_dom(a, st)
        h_evs = fl.events_at(hstmt) or set()
        msgs = []
        if not gb:
            msgs.append(f"`{b}` is not assigned from a getter on every path of this iteration (a snapshot carried over from an earlier "
                        "request misses changes of partly applied requests)")
        if not ga:
            msgs.append(f"`{a}` is not assigned from a getter in this iteration")
        if gb and ga and gb != ga:
            msgs.append(f"before comes from {sorted(gb)} but after from {sorted(ga)}")
        if gb and not any(e.startswith(f"snap:{b}:") for e in h_evs) and not cond_dom(b, hstmt) and \
                not all(n.lineno < hstmt.lineno for n in ast.walk(loop) if id(n) in getter_of and getter_of[id(n)][0] == b):
            msgs.append(f"`{b}` is not taken before handle_request")
        if ga:
            a_asg = [n for n in ast.walk(loop) if id(n) in getter_of and getter_of[id(n)][0] == a]
            if not all("handled" in (fl.events_at(x) or set()) for x in a_asg):
                msgs.append(f"`{a}` can be taken before handle_request")
        if "handled" not in evs:
            msgs.append("diff computed on a path that did not handle the request")
        seen_getters |= gb & ga
        (ctx.bad(construct, "; ".join(msgs), f.loc(d)) if msgs else ctx.ok(construct, f.loc(d), getter=sorted(gb)))
    for ch, g in CHANNELS.items():
        construct = f"run_server/channel `{ch}` is diffed and initialised from {g}"
        init_ok = any(isinstance(n, ast.Call) and ast.unparse(n.func) == g and n.lineno < loop.lineno for n in ast.walk(f.node))
        if g in seen_getters and init_ok:
            ctx.ok(construct, f.loc(loop))
        else:
            ctx.bad(construct, f"diffed: {g in seen_getters}; used for the initial message: {init_ok}", f.loc(loop))
    # the reply carries the diffs
    resp = [n for n in ast.walk(loop) if isinstance(n, ast.Dict) and any(isinstance(k, ast.Constant) and k.value == "values" for k in n.keys)]
    construct = "run_server/replies carry values, ranges and visible diffs (v2+) and defaults (v3)"
    ok = False
    for r in resp:
        m = {k.value: ast.unparse(v) for k, v in zip(r.keys, r.values) if isinstance(k, ast.Constant)}
        if m.get("values") == "values_diff" and m.get("ranges") == "ranges_diff" and m.get("visible") == "visible_diff":
            ok = True
    d3 = any(isinstance(n, ast.Assign) and ast.unparse(n.targets[0]).replace('"', "'") == "response['defaults']" and ast.unparse(n.value) == "defaults_diff"
             for n in ast.walk(loop))
    (ctx.ok(construct, f.loc(loop)) if ok and d3 else ctx.bad(construct, "reply no longer built from the four diffs", f.loc(loop)))
    df = repo.func(f"{KS}:diff")
    construct = "diff/items of `after` whose value differs from `before` (absent counts as different)"
    comp = [n for n in ast.walk(df.node) if isinstance(n, (ast.GeneratorExp, ast.DictComp))]
    ok = False
    if comp:
        c = comp[0]
        if isinstance(c, ast.DictComp):
            # `{k: v for ..}` is `dict((k, v) for ..)`
            c = ast.GeneratorExp(elt=ast.Tuple(elts=[c.key, c.value], ctx=ast.Load()), generators=c.generators)
        g = c.generators[0]
        cond = ast.unparse(g.ifs[0]) if len(g.ifs) == 1 else ""
        kv = [t.id for t in g.target.elts] if isinstance(g.target, ast.Tuple) and all(isinstance(t, ast.Name) for t in g.target.elts) else ["?", "?"]
        k_, v_ = kv[0], kv[1]
        explicit = cond in (f"{k_} not in before or before[{k_}] != {v_}", f"before[{k_}] != {v_} or {k_} not in before") or \
            cond.startswith(f"{k_} not in before or ")
        ok = ast.unparse(g.iter) == "after.items()" and explicit and ast.unparse(c.elt) == f"({k_}, {v_})"
        if ast.unparse(g.iter) == "after.items()" and (cond.replace(", None", "") == f"before.get({k_}) != {v_}"):
            ctx.bad(construct, "`before.get(k, None) != v` takes an absent key for the value None: an option that becomes present with the value null "
                    "(a number without any value) is never reported, while a fresh server's initial message lists it", df.loc())
            return
    (ctx.ok(construct, df.loc()) if ok else ctx.bad(construct, "diff() changed shape", df.loc()))


def _parents(repo, n, stop):
    p = repo.parent(n)
    while p is not None and p is not stop:
        yield p
        p = repo.parent(p)


def r14_2(ctx):
    """R14.2 key-set stability: diff reports only keys of the new snapshot, so a getter whose key set depends on the
    configuration can never withdraw a key. visible/defaults insert unconditionally; values is exempt by the property's
    own clause (a missing option is invisible) provided _write_to_conf is never lowered below `vis != 0`; ranges is not."""
    repo = ctx.repo
    for ch, q, subj in (("visible", f"{KS}:get_visible.<locals>.handle_node", "result"), ("defaults", f"{KS}:get_sym_default_value_dict", "defaults"),
                        ("ranges", f"{KS}:get_ranges.<locals>.handle_node", "ranges_dict"),
                        ("values", "kconfgen.core:get_json_values.<locals>.write_node", "config_dict")):
        # the function that fills the snapshot: the named per-node helper, or - when it was inlined into its caller's
        # loop - the enclosing getter itself
        cands = [q] + ([q.rsplit(".<locals>.", 1)[0]] if ".<locals>." in q else [])
        f = None
        for cq in cands:
            if repo.has_func(cq):
                g_ = repo.func(cq)
                if any(isinstance(n, ast.Assign) and isinstance(n.targets[0], ast.Subscript) and ast.unparse(n.targets[0].value) == subj
                       and repo.enclosing_func(n) is g_ for n in ast.walk(g_.node)):
                    f = g_
                    break
        if f is None:
            raise AnchorError(f"{q}: no function storing into {subj} found")
        ctx.analysed(f.qual)
        res = Resolver(f.node)
        fl = Flow(f.node, resolver=res).run()
        stores = [n for n in ast.walk(f.node) if isinstance(n, ast.Assign) and isinstance(n.targets[0], ast.Subscript)
                  and ast.unparse(n.targets[0].value) == subj and repo.enclosing_func(n) is f]
        construct = f"snapshot getter of channel `{ch}`/key set does not depend on the configuration"
        # the key is present iff one of the stores runs: OR over the stores' guard sets. It must cover every item of the right
        # type (for `values`: every item with a non-empty config_string - the property gives the other ones a meaning).
        import itertools
        gsets = []
        for st_ in stores:
            g = fl.guards_at(st_) or set()
            gsets.append({(k, pol) for k, pol in g if not (("isinstance" in k or "type(" in k) and pol)})
        in_try = any(isinstance(p, ast.Try) and any(h.type is not None and "AttributeError" in ast.unparse(h.type) for h in p.handlers)
                     for p in _parents(repo, stores[0], f.node))
        def leaves(e):
            if isinstance(e, ast.BoolOp):
                return set().union(*[leaves(x) for x in e.values])
            if isinstance(e, ast.UnaryOp) and isinstance(e.op, ast.Not):
                return leaves(e.operand)
            return {ast.unparse(e)}

        def ev_key(e, v):
            if isinstance(e, ast.BoolOp):
                vals_ = [ev_key(x, v) for x in e.values]
                return all(vals_) if isinstance(e.op, ast.And) else any(vals_)
            if isinstance(e, ast.UnaryOp) and isinstance(e.op, ast.Not):
                return not ev_key(e.operand, v)
            return v[ast.unparse(e)]

        parsed = {}
        for g in gsets:
            for k, _ in g:
                from .common import parse_key
                parsed[k] = parse_key(k)
        atoms = sorted(set().union(*[leaves(e) for e in parsed.values()])) if parsed else []
        missing = []
        if len(atoms) > 12:
            raise AnalysisError(f"{f.short}: {len(atoms)} conditions around the stores into {subj}")
        allowed = [k for k in atoms if ch == "values" and "config_string" in k]
        for vals in itertools.product((True, False), repeat=len(atoms)):
            v = dict(zip(atoms, vals))
            if any(not v[k] for k in allowed):
                continue  # config_string empty: the documented meaning of an absent key
            if not any(all(ev_key(parsed[k], v) == pol for k, pol in g) for g in gsets):
                missing.append(sorted((k, val) for k, val in v.items() if k not in allowed))
                break
        gs = fl.guards_at(stores[0]) or set()
        cond = sorted(g for g in gs if "isinstance" not in g[0])
        if missing:
            ctx.bad(construct, f"no key is inserted on the path(s) taken under {missing[:2]}: when that condition holds the key silently disappears "
                    "from the snapshot, diff() cannot report it and the client keeps the stale entry", f.loc(stores[0]))
        elif ch == "values" and any("config_string" in k for k, _ in cond):
            ctx.exempt(construct, "a key is present iff config_string is non-empty; the property itself gives absent options a meaning "
                       "(\"every option missing from that state is reported invisible\") - checked below: _write_to_conf is not lowered",
                       f.loc(stores[0]))
        else:
            ctx.ok(construct, f.loc(stores[0]))
    # _write_to_conf: initialised from visibility, afterwards only raised
    for q in (f"{CORE}:Symbol.str_value", f"{CORE}:Symbol.bool_value"):
        f = repo.func(q)
        ctx.analysed(q)
        k = 0
        from .c01 import vis_var
        vv = vis_var(f.node)
        for n in ast.walk(f.node):
            if isinstance(n, ast.Assign) and any(ast.unparse(t) == "self._write_to_conf" for t in n.targets):
                v = ast.unparse(n.value)
                if v in (f"{vv} != 0", "True") or (isinstance(n.value, ast.Name)):
                    continue
                k += 1
                construct = f"{f.short}/_write_to_conf lowered #{k} (`{v}`)"
                ctx.bad(construct, "a visible option can be dropped from `values` while `visible` reports it: the client's state and a "
                        "fresh server's disagree with the documented meaning of a missing key", f.loc(n))
        ctx.ok(f"{f.short}/_write_to_conf starts at `vis != 0`", f.loc(), nontrivial=False)


def r14_3(ctx):
    """R14.3 save writes what is reported: the save request goes through kconfgen.write_config -> Kconfig.write_config, whose
    contents come from config_string of every symbol (the same source get_json_values uses)."""
    repo = ctx.repo
    hr = repo.func(f"{KS}:handle_request")
    kw = repo.func("kconfgen.core:write_config")
    gj = repo.func("kconfgen.core:get_json_values.<locals>.write_node")
    ctx.analysed(hr.qual, kw.qual, gj.qual)
    construct = "handle_request/save -> kconfgen.write_config -> Kconfig.write_config"
    ok = any(isinstance(n, ast.Call) and ast.unparse(n.func) == "kconfgen.write_config" and ast.unparse(n.args[0]) == "config" for n in ast.walk(hr.node)) \
        and any(isinstance(n, ast.Call) and ast.unparse(n.func) == "config.write_config" for n in ast.walk(kw.node))
    (ctx.ok(construct, hr.loc()) if ok else ctx.bad(construct, "the save path no longer uses the common sdkconfig writer", hr.loc()))
    construct = "get_json_values/presence and value from config_string and str_value of the same symbol"
    src = ast.unparse(gj.node)
    ok = "sym.config_string" in src and "sym.str_value" in src and "_user_value" not in src
    (ctx.ok(construct, gj.loc()) if ok else ctx.bad(construct, "values no longer derive from the computed value", gj.loc()))
    construct = "handle_request/load replaces the configuration through Kconfig.load_config"
    ok = any(isinstance(n, ast.Call) and ast.unparse(n.func) == "config.load_config" for n in ast.walk(hr.node))
    (ctx.ok(construct, hr.loc(), nontrivial=False) if ok else ctx.bad(construct, "load path changed", hr.loc()))


def r14_4(ctx):
    """R14.4 the reported state is incrementally sound: every evaluator read is a registered invalidation edge and
    _depend_on reaches every operand (C03 R03.1/R03.5) - a missing edge leaves a stale value in the live server that a
    fresh server does not have."""
    c03.r03_1(ctx)
    c03.r03_5(ctx)


def r14_5(ctx):
    """R14.5 every request-driven mutation invalidates (C03 R03.2): set, reset and load change user values only through
    writers that are followed by a recursive invalidation."""
    c03.r03_2(ctx)
    repo = ctx.repo
    hs = repo.func(f"{KS}:handle_set")
    hreset = repo.func(f"{KS}:handle_reset")
    construct = "handle_set/values applied through Symbol.set_value only"
    bad = [n for n in ast.walk(hs.node) if isinstance(n, ast.Attribute) and n.attr in ("_user_value", "_user_selection") and isinstance(n.ctx, ast.Store)]
    (ctx.bad(construct, "a user value is written directly", hs.loc(bad[0])) if bad else ctx.ok(construct, hs.loc(), nontrivial=False))
    construct = "handle_reset/resets through _restore_default"
    ok = sum(1 for n in ast.walk(hreset.node) if isinstance(n, ast.Attribute) and n.attr == "_restore_default") >= 3
    (ctx.ok(construct, hreset.loc(), nontrivial=False) if ok else ctx.bad(construct, "reset no longer goes through kconfiglib._restore_default", hreset.loc()))


def r14_6(ctx):
    """R14.6 (a) the `defaults` channel reads has_active_default_value(), whose flag is refreshed only by evaluating the
    values: every get_sym_default_value_dict(config) in run_server follows a kconfgen.get_json_values(config) taken after
    the request was handled; (b) a request is applied in the order load, set, reset and only then save - what is saved is
    what the reply describes; (c) a replacing load clears a choice's pick (Choice.unset_value clears it whenever there is a
    pick), so the client state after `load` equals a fresh server's."""
    repo = ctx.repo
    f = repo.func(f"{KS}:run_server")
    ctx.analysed(f.qual)
    loop = [n for n in ast.walk(f.node) if isinstance(n, ast.While)][0]
    handle = [n for n in ast.walk(loop) if isinstance(n, ast.Call) and ast.unparse(n.func) == "handle_request"][0]
    hst = repo.enclosing_stmt(handle)

    def events(node):
        if isinstance(node, (ast.If, ast.For, ast.While, ast.Try, ast.With)):
            return []
        out = []
        for x in ast.walk(node):
            if isinstance(x, ast.Call) and ast.unparse(x.func) == "kconfgen.get_json_values":
                out.append("evaluated")
        return out

    def kills(node):
        return ["evaluated"] if node is hst else []

    fl = Flow(f.node, events=events, kills=kills, track_guards=False, body=loop.body).run()
    fl0 = Flow(f.node, events=events, track_guards=False).run()
    n = 0
    for c in [x for x in ast.walk(f.node) if isinstance(x, ast.Call) and ast.unparse(x.func) == "get_sym_default_value_dict"]:
        n += 1
        inside = any(c is y for y in ast.walk(loop))
        st = repo.enclosing_stmt(c)
        evs = (fl if inside else fl0).events_at(st) or set()
        construct = f"run_server/defaults snapshot #{n} taken after the values were evaluated"
        (ctx.ok(construct, f.loc(c)) if "evaluated" in evs else
         ctx.bad(construct, "get_sym_default_value_dict(config) runs before get_json_values(config) has re-evaluated the symbols (after the request): the "
                 "`defaults` diff is computed from the flags of the previous evaluation and the client is never told the corrected value", f.loc(c)))
    if n < 3:
        raise AnalysisError(f"only {n} defaults snapshots found")
    h = repo.func(f"{KS}:handle_request")
    ctx.analysed(h.qual)
    order = []
    for s in h.node.body:
        if isinstance(s, ast.If) and isinstance(s.test, ast.Compare) and isinstance(s.test.left, ast.Constant) and ast.unparse(s.test.comparators[0]) == "req":
            order.append(s.test.left.value)
    order = [k for k in order if k in ("load", "set", "reset", "save")]
    construct = "handle_request/parts applied in the order load, set, reset, save"
    (ctx.ok(construct, h.loc(), order=order) if order == ["load", "set", "reset", "save"] else
     ctx.bad(construct, f"order is {order}: a request that combines them saves a configuration other than the one its reply describes", h.loc()))
    from . import c05
    before = len(ctx.instances)
    c05.r05_6(ctx)
    keep = [i for i in ctx.instances[before:] if i.construct.startswith("Choice.unset_value/")]
    dropped = {i.construct for i in ctx.instances[before:]} - {i.construct for i in keep}
    ctx.instances[before:] = keep
    ctx.findings[:] = [x for x in ctx.findings if not (x.rule == ctx._rule and x.construct in dropped)]


def r14_7(ctx):
    """R14.7 protocol version 1 folds visibility into the values channel: the reply overwrites the value of every option
    that *became invisible* with null - so it must equally restore the value of every option that *became visible*, even
    when the value itself did not change (the values snapshots are then equal and diff() reports nothing)."""
    repo = ctx.repo
    f = repo.func(f"{KS}:run_server")
    ctx.analysed(f.qual)
    arms = [n for n in ast.walk(f.node) if isinstance(n, ast.If) and ast.unparse(n.test).replace('"', "'") == "req['version'] == 1"]
    if not arms:
        raise AnchorError("run_server: no `req['version'] == 1` arm")
    arm = arms[0]
    nulls = [n for st in arm.body for n in ast.walk(st) if isinstance(n, ast.Assign) and ast.unparse(n.targets[0]).startswith("values_diff[")
             and isinstance(n.value, ast.Constant) and n.value.value is None]
    restores = [n for st in arm.body for n in ast.walk(st) if isinstance(n, ast.Assign) and ast.unparse(n.targets[0]).startswith("values_diff[")
                and ast.unparse(n.value).startswith("after[")]
    construct = "run_server/v1: values nulled on becoming invisible are restored on becoming visible"
    if not nulls:
        ctx.ok(construct + " (v1 no longer nulls invisible items)", f.loc(arm), nontrivial=False)
    elif restores:
        ctx.ok(construct, f.loc(restores[0]))
    else:
        ctx.bad(construct, "the v1 reply sets `values[k] = null` for options that turned invisible but never re-sends the value when they turn visible "
                "again with an unchanged value: the client keeps null for a visible option", f.loc(nulls[0]))


def r14_8(ctx):
    """R14.8 what `save` writes is what a fresh server reads back as the reported state: (a) the save is skipped only when
    the file is identical as a whole (C13 R13.1b: a prefix comparison answers `saved` and leaves the old file); (b) string
    values are written through the full escape chain the loader undoes (C02 R02.2 / R02.9a); (c) the side results that
    decide what is written (`_has_active_indirect_set`) are recomputed by every evaluation (C03 R03.7) - a flag left over
    from an earlier request makes the live server report and save a value a fresh server does not compute."""
    from . import c02, c13
    from .common import delegate
    delegate(ctx, c13.r13_1b, lambda c: True)
    delegate(ctx, c02.r02_2, lambda c: "_escape" in c or "unescape" in c or "config_string" in c)
    delegate(ctx, c02.r02_9, lambda c: c.startswith("_escape/"))
    delegate(ctx, c03.r03_7, lambda c: True)


def r14_9(ctx):
    """R14.9 the `ranges` channel reports the range the evaluator uses - the first range whose condition holds: the range
    search of get_ranges() stops at the first active entry (a fresh server evaluates the same tree to the same range)."""
    from .common import first_match_loops
    n = first_match_loops(ctx, ["kconfserver.core:get_ranges.<locals>.get_active_range"], "the client is told another range than the one that clamps the value")
    if n < 1:
        raise AnalysisError("range search of get_ranges not found")


def r14_10(ctx):
    """R14.10 what `save` writes is what a fresh server reads: the deferred assignments to choice members are applied for every choice
    when the saved file is loaded (C05 R05.9) - otherwise the `defaults` channel of a fresh server differs from the running one."""
    from . import c05
    from .common import delegate
    delegate(ctx, c05.r05_9, lambda c: "deferred member assignments" in c)


def r14_11(ctx):
    """R14.11 `save: null` writes where the client was told the configuration lives: in run_server() the remembered file name is
    updated from a load/save request independently of whether *another* part of the same request reported an error - the reply
    tells the client that the load happened, and a fresh server on that file is what the client is compared with."""
    from .common import parse_key
    repo = ctx.repo
    f = repo.func("kconfserver.core:run_server")
    ctx.analysed(f.qual)
    fl = Flow(f.node, resolver=Resolver(f.node)).run()
    prm = [a.arg for a in f.node.args.args]
    path_param = prm[1] if len(prm) > 1 else "sdkconfig"
    stores = [n for n in ast.walk(f.node) if isinstance(n, ast.Assign) and len(n.targets) == 1 and ast.unparse(n.targets[0]) == path_param
              and repo.enclosing_func(n) is f]
    if len(stores) < 1:
        raise AnalysisError(f"no update of the remembered path `{path_param}` in run_server")
    for i, st in enumerate(stores):
        construct = f"run_server/update #{i + 1} of the remembered file name does not depend on the request's error list"
        dep = sorted(k for k, p in (fl.guards_at(st) or set()) if "error" in {x.id for x in ast.walk(parse_key(k)) if isinstance(x, ast.Name)})
        src = ast.unparse(st.value)
        (ctx.bad(construct, f"`{ast.unparse(st)}` runs only under {dep}: an error in an unrelated part of the request makes the server forget the file it just "
                 "loaded / saved, and `save: null` goes to the previous file", f.loc(st)) if dep or not src.startswith("req[") else ctx.ok(construct, f.loc(st)))


def r14_12(ctx):
    """R14.12 a value the client was told is a value the saved file carries: the string branch of Symbol.str_value takes the user value
    only under the visibility (C01 R01.1) - a hidden option that keeps its user value is reported with it and saved without it."""
    from . import c01
    from .common import delegate
    delegate(ctx, c01.r01_1, lambda c: 'Symbol.str_value' in c)


def r14_13(ctx):
    """R14.13 a `load` request replaces the configuration like a start on that file: handle_request() calls
    config.load_config(<file>) with the defaults `replace=True, is_main_sdkconfig=True` - loaded as a secondary file the
    default-marked entries are compared with the stale baseline of the start-up file and the old values are injected, so the
    client no longer holds what a fresh server on that file reports."""
    repo = ctx.repo
    f = repo.func(f"{KS}:handle_request")
    ctx.analysed(f.qual)
    loads = [n for n in ast.walk(f.node) if isinstance(n, ast.Call) and ast.unparse(n.func).endswith(".load_config")]
    if not loads:
        raise AnchorError("handle_request: load_config call not found")
    construct = "handle_request/`load` is a replacing load of the main configuration file"
    bad = [k for k in loads[0].keywords if k.arg in ("replace", "is_main_sdkconfig") and not (isinstance(k.value, ast.Constant) and k.value.value is True)]
    pos = len(loads[0].args) > 1
    (ctx.bad(construct, f"`{ast.unparse(loads[0])[:80]}`: the file is merged / loaded as a secondary file - stale baselines and user values of the previous "
             "configuration survive", f.loc(loads[0])) if bad or pos else ctx.ok(construct, f.loc(loads[0])))


def r14_14(ctx):
    """R14.14 after a `load` the server holds what the file says: whatever the replacing load did not *set* is unset (C03 R03.10,
    decided on `_was_set`) - an option the file records as a default only would otherwise keep the user value of the previous
    configuration, and a fresh server on that file reports the default."""
    from . import c03
    from .common import delegate
    delegate(ctx, c03.r03_10, lambda c: "replacing load" in c)


def r14_15(ctx):
    """R14.15 the client gets the protocol it asked for: every command-line option of kconfserver's main() is read, and `version`
    reaches the run_server() call - the initial message is the state every later difference is applied to, and its form
    (null values for invisible options in version 1, no `defaults` channel before version 3) depends on the version
    (fixed defect 5.61: the option was parsed, range-checked and dropped)."""
    repo = ctx.repo
    f = repo.func(f"{KS}:main")
    ctx.analysed(f.qual)
    params = [a.arg for a in f.node.args.args]
    body_names = {x.id for st in f.node.body for x in ast.walk(st) if isinstance(x, ast.Name) and isinstance(x.ctx, ast.Load)}
    for p in params:
        construct = f"kconfserver.main/option `{p}` is used"
        (ctx.ok(construct, f.loc(), nontrivial=False) if p in body_names else ctx.bad(construct, "the option is accepted on the command line and ignored", f.loc()))
    calls = [n for n in ast.walk(f.node) if isinstance(n, ast.Call) and ast.unparse(n.func) == "run_server"]
    if not calls:
        raise AnchorError("kconfserver main: run_server call not found")
    construct = "kconfserver.main/the protocol version reaches run_server()"
    ok = any(isinstance(x, ast.Name) and x.id == "version" for a in list(calls[0].args) + [k.value for k in calls[0].keywords] for x in ast.walk(a))
    (ctx.ok(construct, f.loc(calls[0])) if ok else
     ctx.bad(construct, "run_server() is started with its default version: a version 1 / 2 client receives an initial message in the newest format", f.loc(calls[0])))


def rules():
    return [("R14.15", r14_15, 2), ("R14.14", r14_14, 1), ("R14.13", r14_13, 1), ("R14.12", r14_12, 3), ("R14.11", r14_11, 2), ("R14.10", r14_10, 1), ("R14.9", r14_9, 1), ("R14.1", r14_1, 9), ("R14.2", r14_2, 5), ("R14.3", r14_3, 3), ("R14.4", r14_4, 20), ("R14.5", r14_5, 10), ("R14.6", r14_6, 5), ("R14.7", r14_7, 1), ("R14.8", r14_8, 6)]
