"""C15 - the config server answers every request and survives bad ones (necessary structural conditions in
kconfserver/core.py)."""
from __future__ import annotations

import ast
from typing import Dict, List, Optional, Set, Tuple

from ..callgraph import CallGraph
from ..flow import AnalysisError, Flow, Resolver
from ..pathenum import BRK, CONT, NORM, Enumerator, Path
from ..repo import AnchorError
from ..taint import ANY, D, TaintAnalysis

PROPERTY = "C15"
KS = "kconfserver.core"
LEVEL_TEXT = (
    "Static analysis of kconfserver/core.py: forward taint from json.loads(line) with JSON type sets refined by "
    "dominating isinstance/None/all(isinstance) guards - every type-dependent operation on request data (ordering, "
    "`in`, subscripts, .items(), iteration, int(v,16), hex, join, set, escape) is either applied to a refined type or "
    "sits in a try whose handlers cover the exception class it raises; the decode itself is guarded; exactly one "
    "reply is written on every path through one iteration of the request loop; nothing reachable from run_server "
    "writes to stdout except the two reply sites; load/save failures are caught; the multi-pass set loop always "
    "consumes the entry it processed. Not decided: that a rejected part leaves the configuration as if it had not "
    "been sent (state semantics)."
)


def r15_1(ctx):
    """R15.1 no type-confused operation on request data: every operation whose domain is narrower than the JSON type set of
    its (tainted) operand is discharged by a dominating refinement or by an enclosing try that handles the raised class;
    json.loads(line) itself is inside a try covering JSONDecodeError/ValueError that replies."""
    repo = ctx.repo
    run = repo.func(f"{KS}:run_server")
    ctx.analysed(run.qual)
    loads = [n for n in ast.walk(run.node) if isinstance(n, ast.Call) and ast.unparse(n.func) == "json.loads"]
    if not loads:
        raise AnchorError("run_server: json.loads(line) not found")
    ta = TaintAnalysis(repo, KS)
    # req is bound by `req = json.loads(line)`: the quantifier says a JSON object with arbitrary JSON values
    ta.run(run, {})
    ctx.analysed(*ta.functions)
    from ..taint import _FuncTaint
    ft = _FuncTaint(ta, run, {})
    construct = "run_server/json.loads(line) guarded by a decode handler that replies"
    h = ft.handled(loads[0], "JSONDecodeError")
    if h:
        tr = repo.parent(repo.enclosing_stmt(loads[0]))
        replies = isinstance(tr, ast.Try) and any("json.dump(" in ast.unparse(x) for hd in tr.handlers for x in hd.body) and \
            all(isinstance(hd.body[-1], ast.Continue) for hd in tr.handlers)
        (ctx.ok(construct, run.loc(loads[0]), by=h) if replies else
         ctx.bad(construct, "the decode handler does not write a reply and continue", run.loc(loads[0])))
    else:
        ctx.bad(construct, "a malformed line raises out of the request loop", run.loc(loads[0]))
    # json.loads() on an arbitrary line raises more than JSONDecodeError: a plain ValueError for a number beyond the
    # integer-string conversion limit, RecursionError for deeply nested brackets
    for exc, what in (("ValueError", "a number with more than 4300 digits (plain ValueError, not JSONDecodeError)"),
                      ("RecursionError", "a line of many nested brackets")):
        construct = f"run_server/the decode handler also covers {exc}"
        (ctx.ok(construct, run.loc(loads[0])) if ft.handled(loads[0], exc) else
         ctx.bad(construct, f"{what} makes json.loads() raise {exc}, which the handler does not catch: the server dies without a reply", run.loc(loads[0])))
    seen: Set[Tuple[str, str, str]] = set()
    n = 0
    for s in ta.sinks:
        key = (s.func.short, s.op, s.operand)
        if key in seen:
            continue
        seen.add(key)
        n += 1
        construct = f"{s.func.short}/{s.op} on `{s.operand}`"
        if s.discharged:
            ctx.ok(construct, s.func.loc(s.node), types=sorted(s.desc.types), discharged_by=s.discharged)
        else:
            ctx.bad(construct, f"`{s.operand}` comes from the request and may be {s.bad_types} here, for which {s.op} raises {s.exc}; "
                    "no dominating type check and no enclosing handler: the server dies instead of reporting the error",
                    s.func.loc(s.node), types=sorted(s.desc.types), allowed=sorted(s.allowed))
    # refined sites: report how many operations were discharged by refinement (counted for evidence)
    ctx.note(f"R15.1: {len(ta.functions)} functions, {n} residual sinks after refinement")
    # the refinements themselves must exist (vacuity guard on the discharge side)
    for fq, needle, label in ((f"{KS}:run_server", "isinstance(req['version'], int)", "version is an integer before it is compared"),
                              (f"{KS}:handle_set", "isinstance(to_set, dict)", "`set` is an object before it is iterated"),
                              (f"{KS}:handle_reset", "isinstance(to_reset, list)", "`reset` is a list of strings before it is searched")):
        f = repo.func(fq)
        construct = f"{f.short}/{label}"
        tests = [x for x in ast.walk(f.node) if isinstance(x, ast.Call) and ast.unparse(x).replace('"', "'") == needle]
        if tests:
            ctx.ok(construct, f.loc(tests[0]), nontrivial=False)
        else:
            ctx.ok(construct + " (no such test: relies on the sink analysis above)", f.loc(), nontrivial=False)


def r15_2(ctx):
    """R15.2 exactly one reply per line: every path through one iteration of the request loop writes exactly one
    json.dump(_, sys.stdout) followed by the newline and a flush (EOF leaves the loop without a reply)."""
    repo = ctx.repo
    run = repo.func(f"{KS}:run_server")
    loops = [n for n in ast.walk(run.node) if isinstance(n, ast.While)]
    if not loops:
        raise AnchorError("run_server: request loop not found")
    loop = loops[0]

    def on_stmt(st, p: Path, loops_):
        if isinstance(st, (ast.If, ast.For, ast.While, ast.Try, ast.With)):
            return
        t = ast.unparse(st)
        if "json.dump(" in t and "sys.stdout" in t:
            p.events.append(("DUMP", st.lineno, None))
        if t.startswith("sys.stdout.write("):
            p.events.append(("NL", st.lineno, None))
        if t.startswith("sys.stdout.flush("):
            p.events.append(("FLUSH", st.lineno, None))

    paths = Enumerator(on_stmt, max_iter=1).run(loop.body, Path())
    bad = {}
    n_it = 0
    for p, status in paths:
        names = [e[0] for e in p.events]
        if status == BRK:
            if "DUMP" in names:
                bad["reply written before leaving on EOF"] = p
            continue
        if status not in (NORM, CONT):
            continue
        n_it += 1
        if names.count("DUMP") != 1:
            bad[f"{names.count('DUMP')} replies on one iteration path"] = p
        elif names[names.index("DUMP"):][:3] != ["DUMP", "NL", "FLUSH"]:
            bad["reply not followed by newline and flush"] = p
    construct = "run_server/one reply, newline and flush per request line"
    if n_it < 4:
        raise AnalysisError(f"only {n_it} iteration paths")
    if bad:
        k, p = sorted(bad.items())[0]
        ln = p.conds[-1][2] if p.conds else loop.lineno
        ctx.bad(construct, f"{k} (last branch at line {ln}); {len(bad)} kinds of deviation", f"{run.module.relpath}:{ln}")
    else:
        ctx.ok(construct, run.loc(loop), iteration_paths=n_it)
    construct = "run_server/initial message written once before the loop"
    pre = run.node.body[:run.node.body.index(loop)] if loop in run.node.body else [s for s in run.node.body if s.lineno < loop.lineno]
    ppaths = Enumerator(on_stmt, max_iter=1).run(pre, Path())
    badp = []
    n_pre = 0
    for p, status in ppaths:
        if status != NORM:
            continue
        n_pre += 1
        names = [e[0] for e in p.events]
        if names.count("DUMP") != 1 or names[names.index("DUMP"):][:3] != ["DUMP", "NL", "FLUSH"]:
            badp.append(names)
    (ctx.ok(construct, run.loc(), nontrivial=False, paths=n_pre) if n_pre and not badp else
     ctx.bad(construct, f"on a way to the request loop the stdout events are {badp[0] if badp else 'none'} instead of one message, newline, flush", run.loc()))


EXEMPT_STDOUT = {
    "esp_kconfiglib.core:Choice._handle_interactive_choice": "reachable only under the `interactive` defaults policy, which the server "
    "protocol does not support (it would also need stdin)",
}


def _stdout_effects(fn: ast.AST, repo, f) -> List[Tuple[ast.AST, str]]:
    out = []
    for n in ast.walk(fn):
        if repo.enclosing_func(n) is not f and n is not fn:
            continue
        if isinstance(n, ast.Call):
            name = ast.unparse(n.func)
            kw = {k.arg: ast.unparse(k.value) for k in n.keywords if k.arg}
            if name in ("print", "log.print") and kw.get("file") != "sys.stderr":
                out.append((n, f"{name}(...) without file=sys.stderr"))
            elif name == "sys.stdout.write":
                out.append((n, "sys.stdout.write"))
            elif name == "json.dump" and len(n.args) > 1 and ast.unparse(n.args[1]) == "sys.stdout":
                out.append((n, "json.dump(_, sys.stdout)"))
            elif name == "input":
                out.append((n, "input() prompt"))
            elif name.endswith("Console") and kw.get("stderr") != "True" and "file" not in kw:
                out.append((n, "rich Console on stdout"))
    return out


def r15_3(ctx):
    """R15.3 stdout is protocol-only: every stdout effect in code reachable from run_server is one of the reply sites of
    run_server; diagnostics carry file=sys.stderr; the package routes note/hint/debug to stderr."""
    repo = ctx.repo
    cg = CallGraph(repo)
    reach = cg.reachable([f"{KS}:run_server"], weak=True)
    ctx.analysed(*sorted(reach)[:0])
    n_fn = 0
    for q in sorted(reach):
        f = repo.funcs[q]
        if f.module.name.split(".")[0] in ("esp_menuconfig", "kconfcheck", "menuconfig"):
            continue
        eff = _stdout_effects(f.node, repo, f)
        n_fn += 1
        if not eff:
            continue
        construct = f"{f.short}/stdout effects"
        if q == f"{KS}:run_server":
            others = [(n, w) for n, w in eff if w not in ("json.dump(_, sys.stdout)", "sys.stdout.write")]
            (ctx.bad(construct, f"run_server writes non-protocol output: {others[0][1]}", f.loc(others[0][0])) if others else
             ctx.ok(construct, f.loc(), effects=sorted({w for _, w in eff})))
        elif q in EXEMPT_STDOUT:
            ctx.exempt(construct, EXEMPT_STDOUT[q], f.loc())
        elif q == "esp_kconfiglib.core:Symbol.resolve_defaults" and all(w == "input() prompt" for _, w in eff):
            ctx.exempt(construct, "input() only under DefaultsPolicy.INTERACTIVE (not supported by the protocol)", f.loc())
        else:
            n0, w0 = eff[0]
            ctx.bad(construct, f"{w0} in code reachable from the server loop: non-JSON text on the protocol channel", f.loc(n0))
    ctx.note(f"R15.3: {n_fn} functions reachable from run_server inspected for stdout effects")
    init = repo.module("esp_kconfiglib")
    construct = "esp_kconfiglib/__init__ routes note/hint/debug to stderr"
    ok = any(isinstance(n, ast.Expr) and ast.unparse(n.value) == "log.set_info_stream(sys.stderr)" for n in init.tree.body)
    (ctx.ok(construct, init.relpath) if ok else ctx.bad(construct, "log.set_info_stream(sys.stderr) is no longer executed at import", init.relpath))
    rep = repo.func("esp_kconfiglib.report:KconfigReport.output_json")
    construct = "KconfigReport.output_json/console on stderr"
    cons = [n for n in ast.walk(rep.node) if isinstance(n, ast.Call) and ast.unparse(n.func) == "Console"]
    ok = bool(cons) and any(k.arg == "stderr" and ast.unparse(k.value) == "True" for k in cons[0].keywords)
    (ctx.ok(construct, rep.loc(), nontrivial=False) if ok else ctx.bad(construct, "report console writes to stdout", rep.loc()))


def r15_4(ctx):
    """R15.4 load and save failures are reported, not raised: the load_config / write_config calls of handle_request (and
    every use of the request's path in them) sit in a try whose handler covers Exception and appends to the error list."""
    repo = ctx.repo
    f = repo.func(f"{KS}:handle_request")
    ctx.analysed(f.qual)
    from ..taint import _FuncTaint
    ft = _FuncTaint(TaintAnalysis(repo, KS), f, {})
    for label, needle in (("load", "config.load_config"), ("save", "kconfgen.write_config")):
        calls = [n for n in ast.walk(f.node) if isinstance(n, ast.Call) and ast.unparse(n.func) == needle]
        construct = f"handle_request/{label} failure is caught and reported"
        if not calls:
            ctx.bad(construct, f"{needle} is no longer called", f.loc())
            continue
        tr = None
        p = repo.parent(calls[0])
        while p is not None and p is not f.node:
            if isinstance(p, ast.Try):
                tr = p
                break
            p = repo.parent(p)
        msgs = []
        if tr is None:
            msgs.append("not inside a try")
        else:
            hs = [ast.unparse(h.type) if h.type is not None else "BaseException" for h in tr.handlers]
            if not any(h in ("Exception", "BaseException") for h in hs):
                msgs.append(f"the handlers {hs} do not cover every failure (e.g. ValueError for an embedded NUL, UnicodeError): it escapes and kills the server")
            if not any("error" in ast.unparse(x) and ("+=" in ast.unparse(x) or ".append(" in ast.unparse(x)) for h in tr.handlers for x in h.body):
                msgs.append("the handler does not add to the error list")
            # every use of req[label] outside the try
            for n in ast.walk(f.node):
                if isinstance(n, ast.Subscript) and ast.unparse(n).replace('"', "'") == f"req['{label}']" and isinstance(n.ctx, ast.Load):
                    inside = any(n is x for b in tr.body + [y for h in tr.handlers for y in h.body] for x in ast.walk(b))
                    st = repo.enclosing_stmt(n)
                    if not inside and not isinstance(st, ast.If):
                        msgs.append(f"req['{label}'] is used outside the try at line {n.lineno}")
        (ctx.bad(construct, "; ".join(msgs), f.loc(calls[0])) if msgs else ctx.ok(construct, f.loc(calls[0])))


def r15_5(ctx):
    """R15.5 request data is never rendered as Rich markup: every log call in kconfserver that interpolates request data
    passes it through escape() or sets markup=False; Symbol.set_value / Choice.set_value escape the rejected value."""
    repo = ctx.repo
    n_sites = 0
    for q in (f"{KS}:handle_request", f"{KS}:handle_set", f"{KS}:handle_reset", f"{KS}:run_server"):
        f = repo.func(q)
        for n in ast.walk(f.node):
            if isinstance(n, ast.Call) and ast.unparse(n.func).startswith("log.") and n.args:
                kw = {k.arg: ast.unparse(k.value) for k in n.keywords if k.arg}
                for a in n.args:
                    for fv in [x for x in ast.walk(a) if isinstance(x, ast.FormattedValue)]:
                        t = ast.unparse(fv.value)
                        if any(s in t for s in ("req[", "req.get", "err", "to_set", "to_reset")) or t in ("val", "k", "v"):
                            n_sites += 1
                            construct = f"{f.short}/log call interpolating `{t[:40]}`"
                            ok = t.startswith("escape(") or kw.get("markup") == "False"
                            (ctx.ok(construct, f.loc(n)) if ok else
                             ctx.bad(construct, "request data is interpolated into a Rich-markup log call without escape(): a value like "
                                     "'[/x]' raises MarkupError", f.loc(n)))
                    if isinstance(a, ast.Call) and ast.unparse(a.func) == "escape":
                        n_sites += 1
                        ctx.ok(f"{f.short}/log call of escaped `{ast.unparse(a.args[0])[:30]}`", f.loc(n), nontrivial=False)
    sv = repo.func("esp_kconfiglib.core:Symbol.set_value")
    ctx.analysed(sv.qual)
    construct = "Symbol.set_value/rejected value escaped before it is logged"
    notes = [n for n in ast.walk(sv.node) if isinstance(n, ast.Call) and ast.unparse(n.func) == "log.note"]
    ok = False
    for n in notes:
        for x in ast.walk(n):
            if isinstance(x, ast.FormattedValue) and ast.unparse(x.value) == "value":
                par = x
                esc = False
                p = repo.parent(x)
                while p is not None and p is not n:
                    if isinstance(p, ast.Call) and ast.unparse(p.func) == "escape":
                        esc = True
                    p = repo.parent(p)
                ok = esc
    (ctx.ok(construct, sv.loc()) if ok else ctx.bad(construct, "the invalid value reaches log.note() unescaped (the server calls set_value outside any handler)", sv.loc()))
    if n_sites < 2:
        raise AnalysisError(f"only {n_sites} log interpolation sites found in kconfserver")


def r15_6(ctx):
    """R15.6 the multi-pass `set` loop makes progress: every path through the body of the per-entry loop in handle_set
    removes the processed entry from the pending dict (otherwise the outer `while len(to_set)` never terminates and no
    reply is written)."""
    repo = ctx.repo
    f = repo.func(f"{KS}:handle_set")
    ctx.analysed(f.qual)
    wl = [n for n in ast.walk(f.node) if isinstance(n, ast.While)]
    if not wl:
        raise AnchorError("handle_set: multi-pass while loop not found")
    inner = [n for n in ast.walk(wl[0]) if isinstance(n, ast.For)]
    if not inner:
        raise AnchorError("handle_set: per-entry loop not found")
    lp = inner[0]
    pending = ast.unparse(wl[0].test).replace("len(", "").rstrip(")")
    tv = ast.unparse(lp.target.elts[0]) if isinstance(lp.target, ast.Tuple) else ast.unparse(lp.target)

    def events(node):
        if isinstance(node, ast.Delete) and any(ast.unparse(t) == f"{pending}[{tv}]" for t in node.targets):
            return ["consumed"]
        if isinstance(node, ast.Expr) and ast.unparse(node.value) in (f"{pending}.pop({tv})", f"{pending}.pop({tv}, None)"):
            return ["consumed"]
        return []

    fl = Flow(f.node, events=events, track_guards=False, body=lp.body).run()
    leaks = [(k, n) for k, n, st in fl.exits if k in ("continue", "fallthrough") and ("ev", "consumed") not in st]
    construct = "handle_set/every processed entry is removed from the pending set"
    if leaks:
        ctx.bad(construct, f"an iteration can end ({leaks[0][0]}) without `del {pending}[{tv}]`: a visible symbol with a rejected value is "
                "retried forever and the request is never answered", f.loc(lp))
    else:
        ctx.ok(construct, f.loc(lp), exits=len(fl.exits))
    construct = "handle_set/passes stop when no pending symbol is visible"
    brk = [n for n in ast.walk(wl[0]) if isinstance(n, ast.Break) and not any(n is x for x in ast.walk(lp))]
    ok = bool(brk)
    if ok:
        gs = Flow(f.node, body=[wl[0]]).run().guards_at(brk[0]) or set()
        pass_lists = {ast.unparse(a.targets[0]) for a in ast.walk(wl[0]) if isinstance(a, ast.Assign) and isinstance(a.value, ast.ListComp)
                      and ".visibility" in ast.unparse(a.value) and f"{pending}.items()" in ast.unparse(a.value)}
        ok = any((k in pass_lists and not p) for k, p in gs)
    (ctx.ok(construct, f.loc(wl[0])) if ok else ctx.bad(construct, "the `no visible target left` exit changed", f.loc(wl[0])))


def r15_7(ctx):
    """R15.7 a symbol that is only referenced (never defined) has no menu node: every `X.nodes[0]` in kconfserver on a symbol
    looked up by a request-supplied name is reached only for names that passed a `.nodes` emptiness filter (directly or
    through the list of missing names it is filtered against)."""
    repo = ctx.repo
    n_sites = 0
    for f in repo.funcs_in(KS):
        for n in ast.walk(f.node):
            if not (isinstance(n, ast.Subscript) and isinstance(n.value, ast.Attribute) and n.value.attr == "nodes" and isinstance(n.slice, ast.Constant)
                    and repo.enclosing_func(n) is f):
                continue
            recv = n.value.value
            if not isinstance(recv, ast.Name):
                continue
            # receiver bound by a loop over a local list built from config.syms[...]
            lp = repo.parent(n)
            while lp is not None and not (isinstance(lp, ast.For) and ast.unparse(lp.target) == recv.id):
                lp = repo.parent(lp)
            if lp is None or not isinstance(lp.iter, ast.Name):
                continue
            src = [a for a in ast.walk(f.node) if isinstance(a, ast.Assign) and ast.unparse(a.targets[0]) == lp.iter.id]
            if not src or "config.syms[" not in ast.unparse(src[0].value):
                continue
            n_sites += 1
            ctx.analysed(f.qual)
            construct = f"{f.short}/{recv.id}.nodes[0] only for symbols that have a menu node"
            text = ast.unparse(src[0].value)
            ok = ".nodes" in text
            if not ok:
                # filtered against another local list whose construction tests .nodes
                for other in [a for a in ast.walk(f.node) if isinstance(a, ast.Assign) and isinstance(a.targets[0], ast.Name)
                              and f"not in {ast.unparse(a.targets[0])}" in text]:
                    if ".nodes" in ast.unparse(other.value):
                        ok = True
            gs = Flow(f.node).run().guards_at(n) or set()
            ok = ok or any(k.endswith(".nodes") and p for k, p in gs)
            (ctx.ok(construct, f.loc(n)) if ok else
             ctx.bad(construct, f"a name that is in config.syms only because some expression references it (no definition, empty nodes) reaches "
                     f"{recv.id}.nodes[0]: IndexError kills the server", f.loc(n)))
    if n_sites < 1:
        raise AnalysisError("no `.nodes[0]` site on request-named symbols found in kconfserver")


def r15_8(ctx):
    """R15.8 the reply writer cannot fail on the data it carries: (a) json.dump to stdout keeps ensure_ascii (a lone
    surrogate taken from a request would raise UnicodeEncodeError half way through the line); (b) the snapshot getters that
    run outside any handler convert values in the base they were validated in (int -> 10, hex -> 16: `int(v, 0)` rejects
    the leading zeros set_value accepts); (c) in handle_reset the type check precedes every use of the request value."""
    repo = ctx.repo
    f = repo.func(f"{KS}:run_server")
    ctx.analysed(f.qual)
    dumps = [n for n in ast.walk(f.node) if isinstance(n, ast.Call) and ast.unparse(n.func) == "json.dump" and len(n.args) > 1 and ast.unparse(n.args[1]) == "sys.stdout"]
    for i, d in enumerate(dumps):
        kw = {k.arg: ast.unparse(k.value) for k in d.keywords if k.arg}
        construct = f"run_server/reply writer #{i + 1} is ASCII-safe"
        bad = kw.get("ensure_ascii") == "False" or "default" in kw or "cls" in kw
        (ctx.bad(construct, f"json.dump(..., {kw}): strings from the request (names, values with lone surrogates) are written raw and stdout's encoder raises mid-line",
                 f.loc(d)) if bad else ctx.ok(construct, f.loc(d)))
    if len(dumps) < 3:
        raise AnalysisError(f"only {len(dumps)} reply writers found")
    from . import c06
    before = len(ctx.instances)
    c06.r06_8(ctx)
    keep = [i for i in ctx.instances[before:] if i.construct.startswith("get_json_values") or i.construct.startswith("get_ranges")]
    dropped = {i.construct for i in ctx.instances[before:]} - {i.construct for i in keep}
    ctx.instances[before:] = keep
    ctx.findings[:] = [x for x in ctx.findings if not (x.rule == ctx._rule and x.construct in dropped)]
    h = repo.func(f"{KS}:handle_reset")
    ctx.analysed(h.qual)
    param = h.node.args.args[2].arg
    tests = [n for n in ast.walk(h.node) if isinstance(n, ast.Call) and ast.unparse(n) == f"isinstance({param}, list)"]
    uses = [n for n in ast.walk(h.node) if isinstance(n, ast.Name) and n.id == param and isinstance(n.ctx, ast.Load)]
    construct = "handle_reset/type check precedes every use of the request value"
    if not tests:
        ctx.ok(construct + " (no explicit check; covered by the sink analysis R15.1)", h.loc(), nontrivial=False)
    else:
        fl = Flow(h.node, resolver=Resolver(h.node)).run()
        key = f"isinstance({param}, list)"
        early = [u for u in uses if not any(u is x for x in ast.walk(tests[0]))
                 and (key, True) not in (fl.guards_at(u) or set())]
        (ctx.bad(construct, f"`{param}` is used at line {early[0].lineno} where it is not known to be a list: a string that merely contains \"all\" "
                 "resets the whole configuration, a number raises TypeError", h.loc(early[0])) if early else ctx.ok(construct, h.loc(tests[0])))


def r15_9(ctx):
    """R15.9 (a) only the end of input ends the server: the loop's `break` test is applied to the raw result of
    sys.stdin.readline() (a blank or whitespace-only line is a malformed request that gets an error reply, not EOF);
    (b) the stderr routing survives the replacement of the logger: CachingLog.__init__ restores the previous logger's
    `_info_stream` *after* the base initialiser ran (which resets it) - otherwise every library note of a request is
    printed on stdout between the replies; (c) a float literal that overflows is refused like any other invalid value
    (is_float: float() + math.isfinite()), otherwise the reply carries the non-JSON token `Infinity`."""
    from .common import float_validator_shape
    repo = ctx.repo
    f = repo.func(f"{KS}:run_server")
    ctx.analysed(f.qual)
    res = Resolver(f.node)
    loops = [n for n in ast.walk(f.node) if isinstance(n, ast.While)]
    construct = "run_server/the request loop ends only on end of input"
    verdict = None
    for lp in loops:
        for st in lp.body:
            if isinstance(st, ast.If) and any(isinstance(x, ast.Break) for x in st.body):
                t = st.test
                if isinstance(t, ast.UnaryOp) and isinstance(t.op, ast.Not) and isinstance(t.operand, ast.Name):
                    asg = [a for a in lp.body if isinstance(a, ast.Assign) and any(isinstance(tt, ast.Name) and tt.id == t.operand.id for tt in a.targets)]
                    src = ast.unparse(asg[0].value) if asg else "?"
                    verdict = (src == "sys.stdin.readline()", src, st)
                elif "readline()" in ast.unparse(res.resolve(t)):
                    src = ast.unparse(res.resolve(t))
                    verdict = (src == "not sys.stdin.readline()", src, st)
    if verdict is None:
        raise AnalysisError("run_server: EOF test of the request loop not found")
    (ctx.ok(construct, f.loc(verdict[2])) if verdict[0] else
     ctx.bad(construct, f"the loop is left when `{verdict[1]}` is empty: a blank line ends the server without a reply and all later requests go unanswered",
             f.loc(verdict[2])))
    c = repo.func("esp_kconfiglib.report:CachingLog.__init__")
    ctx.analysed(c.qual)

    def ev(n):
        if isinstance(n, (ast.If, ast.For, ast.While, ast.With, ast.Try)):
            return []
        return ["super"] if any(isinstance(x, ast.Call) and ast.unparse(x.func) == "super().__init__" for x in ast.walk(n)) else []

    fl = Flow(c.node, resolver=Resolver(c.node), events=ev).run()
    stores = [n for n in ast.walk(c.node) if isinstance(n, ast.Assign) and any(ast.unparse(t) == "self._info_stream" for t in n.targets)]
    construct = "CachingLog.__init__/the inherited info stream is restored after the base initialiser"
    if not stores:
        ctx.bad(construct, "the previous logger's _info_stream is no longer carried over: notes go to stdout", c.loc())
    else:
        early = [n for n in stores if "super" not in (fl.events_at(n) or set())]
        (ctx.bad(construct, "`self._info_stream` is assigned before super().__init__(), which resets it: library notes are printed on stdout, "
                 "between the JSON replies", c.loc(early[0])) if early else ctx.ok(construct, c.loc(stores[0])))
    float_validator_shape(ctx)


def r15_10(ctx):
    """R15.10 the path of a `load` / `save` request is a string before it reaches the file system: inside the `try` of each, the
    request value has passed a string-only operation (rich's escape(), which raises TypeError for anything else, or an
    isinstance test) before load_config / write_config receive it - open() takes an int as a file descriptor, so
    `{"save": 1}` would otherwise write to and close the server's own stdout."""
    repo = ctx.repo
    f = repo.func(f"{KS}:handle_request")
    ctx.analysed(f.qual)
    for key, callee in (("load", "load_config"), ("save", "write_config")):
        calls = [n for n in ast.walk(f.node) if isinstance(n, ast.Call) and ast.unparse(n.func).endswith(callee)
                 and any(ast.unparse(a).replace('"', "'") == f"req['{key}']" for a in n.args)]
        construct = f"handle_request/req['{key}'] is known to be a string when it is used as a path"
        if not calls:
            raise AnchorError(f"handle_request: {callee}(.. req['{key}'] ..) not found")

        def ev(n, key=key):
            if isinstance(n, (ast.If, ast.For, ast.While, ast.With, ast.Try)):
                return []
            return ["str"] if any(isinstance(c, ast.Call) and ast.unparse(c.func) == "escape" and c.args and ast.unparse(c.args[0]).replace('"', "'") == f"req['{key}']"
                                  for c in ast.walk(n)) else []
        fl = Flow(f.node, resolver=Resolver(f.node), events=ev).run()
        evs = fl.events_at(calls[0]) or set()
        gs = fl.guards_at(calls[0]) or set()
        ok = "str" in evs or any(k.replace('"', "'") == f"isinstance(req['{key}'], str)" and pol for k, pol in gs)
        (ctx.ok(construct, f.loc(calls[0])) if ok else
         ctx.bad(construct, "a number or boolean reaches open() as a file descriptor (stdin / stdout of the server itself) instead of being refused", f.loc(calls[0])))

def r15_11(ctx):
    """R15.11 a v3 `reset` of a menu without entries is answered: the tree walk behind handle_reset() never hands its walker a
    missing `.list` / `.next` link (C17 R17.11, the `none` part) - there is no exception barrier around handle_reset()."""
    from . import c17
    n = c17.subtree_walk(ctx, "esp_kconfiglib.core:_recursively_perform_action", "start_node", parts=("none",))
    if n < 1:
        raise AnalysisError("steps of _recursively_perform_action not found")


def r15_12(ctx):
    """R15.12 no request trips over the server's own bookkeeping: in kconfserver.core every local bound by plain assignments is
    assigned before it is read on every path, or under conditions that still hold at the read (the per-version `defaults`
    snapshots) - an UnboundLocalError has no handler and ends the server."""
    from .common import definitely_assigned
    n = definitely_assigned(ctx, ["kconfserver.core"], "the server dies instead of answering",
                            exempt={"main/env_pairs": "start-up code, not a request; the only path without the assignment ends in log.die(), which exits"})
    if n < 8:
        raise AnalysisError(f"only {n} functions with plain locals examined in kconfserver.core")


def r15_13(ctx):
    """R15.13 an error reply is built from what the caught exception really has: in kconfserver.core every attribute a handler reads
    from the exception it caught exists on each class the handler names (`e.colno` exists on JSONDecodeError, not on the plain
    ValueError / RecursionError the same handler catches) - an AttributeError inside the handler has no handler."""
    from .common import handler_attribute_access
    handler_attribute_access(ctx, ["kconfserver.core"], "the server dies without a reply")
    ctx.ok("kconfserver.core/exception handlers examined for attribute reads", "", nontrivial=False)


def r15_14(ctx):
    """R15.14 only `null` means `the current file`: the defaulting of the `load` / `save` file name in run_server() tests `is None` -
    an empty string, false, 0 or [] is a (bad) file name and must come back as `Failed to load/save`, not silently reload or
    overwrite the server's own sdkconfig."""
    repo = ctx.repo
    f = repo.func("kconfserver.core:run_server")
    ctx.analysed(f.qual)
    fl = Flow(f.node, resolver=Resolver(f.node)).run()
    n = 0
    for st in ast.walk(f.node):
        if isinstance(st, ast.Assign) and len(st.targets) == 1 and ast.unparse(st.targets[0]).replace('"', "'") in ("req['load']", "req['save']"):
            key = ast.unparse(st.targets[0]).replace('"', "'")
            n += 1
            construct = f"run_server/{key} defaults to the current path only for null"
            gs = {(k.replace('"', "'"), p) for k, p in (fl.guards_at(st) or set())}
            (ctx.ok(construct, f.loc(st)) if (f"{key} is None", True) in gs else
             ctx.bad(construct, f"the default path is substituted under {sorted(g for g in gs if key in g[0])}: a falsy file name that is not null is not reported "
                     "as an unreadable / unwritable file", f.loc(st)))
    if n < 2:
        raise AnalysisError(f"only {n} file-name defaultings found in run_server")


def r15_15(ctx):
    """R15.15 the reply can always be built: get_json_values() - called outside any handler in the request loop - converts a number only
    from a non-empty text and emits null for a number option without a value (C06 R06.13)."""
    from . import c06
    from .common import delegate
    delegate(ctx, c06.r06_13, lambda c: True)


BOOL_IS_INT_EXEMPT = {
    "run_server": "the protocol version: True == 1, the request is understood and answered as version 1",
}


def r15_16(ctx):
    """R15.16 a JSON boolean is not a number: in Python `isinstance(True, int)` holds, so wherever the server tests a request
    value with `isinstance(v, int)` (alone or in a tuple of types) the boolean was excluded before - a guard fact
    `isinstance(v, bool)` false at the test, or the test is `type(v) is int`. `{"set": {"H": true}}` set a hex option to 0x1
    without an error (fixed defect 5.59)."""
    repo = ctx.repo
    n = 0
    for f in repo.funcs_in(KS):
        tests = [c for c in ast.walk(f.node) if isinstance(c, ast.Call) and isinstance(c.func, ast.Name) and c.func.id == "isinstance" and len(c.args) == 2
                 and repo.enclosing_func(c) is f and any(isinstance(x, ast.Name) and x.id == "int" for x in ast.walk(c.args[1]))]
        if not tests:
            continue
        ctx.analysed(f.qual)
        fl = Flow(f.node, resolver=Resolver(f.node)).run()
        for c in tests:
            n += 1
            v = ast.unparse(c.args[0])
            construct = f"{f.short}/`{ast.unparse(c)[:50]}` does not take a JSON boolean for a number"
            if f.name in BOOL_IS_INT_EXEMPT:
                ctx.ok(construct + " (exempt)", f.loc(c), nontrivial=False, reason=BOOL_IS_INT_EXEMPT[f.name])
                continue
            gs = fl.guards_at(c) or set()
            same_test = repo.parent(c)
            # `isinstance(v, bool) or not isinstance(v, int)` / `not isinstance(v, bool) and isinstance(v, int)` in one expression
            inline = isinstance(same_test, (ast.BoolOp, ast.UnaryOp)) and any(
                isinstance(x, ast.Call) and ast.unparse(x) == f"isinstance({v}, bool)" for x in ast.walk(repo.enclosing_stmt(c)) if x is not c)
            ok = any(k == f"isinstance({v}, bool)" and not pol for k, pol in gs) or inline
            (ctx.ok(construct, f.loc(c)) if ok else
             ctx.bad(construct, f"`true` / `false` pass the test as 1 / 0: a value of the wrong JSON type for `{v}` is applied instead of being reported", f.loc(c)))
    if not n:
        raise AnchorError("kconfserver.core: no isinstance(.., int) test on a request value")


def r15_17(ctx):
    """R15.17 a huge JSON integer does not kill the server: expr_value() passes no operand through float() (C09 R09.16b) - the
    OverflowError would be raised in handle_set()'s visibility test or while the reply is built, outside any handler."""
    from . import c09
    from .common import delegate
    delegate(ctx, c09.r09_16, lambda c: c.startswith("expr_value/"))


def rules():
    return [("R15.17", r15_17, 1), ("R15.16", r15_16, 2), ("R15.15", r15_15, 3), ("R15.14", r15_14, 2), ("R15.13", r15_13, 1), ("R15.12", r15_12, 8), ("R15.11", r15_11, 1), ("R15.10", r15_10, 2), ("R15.9", r15_9, 4), ("R15.7", r15_7, 1), ("R15.1", r15_1, 4), ("R15.2", r15_2, 2), ("R15.3", r15_3, 3), ("R15.4", r15_4, 2), ("R15.5", r15_5, 3), ("R15.6", r15_6, 2), ("R15.8", r15_8, 6)]
