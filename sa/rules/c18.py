"""C18 - kconfcheck leaves compliant files alone and its fixes converge (thin necessary structural conditions;
see the `Not decided` list - the level stack depends on indentation, which no shape rule settles)."""
from __future__ import annotations

import ast
import re
from typing import Dict, List, Optional, Set, Tuple

from ..flow import AnalysisError, Flow, Resolver
from ..repo import AnchorError

PROPERTY = "C18"
MOD = "kconfcheck.core"
LEVEL_TEXT = (
    "Static analysis of kconfcheck/core.py: validate_file echoes the unmodified input line unless a checker raised "
    "InputError and fails only in InputError handlers (so a file on which no checker raises is reproduced byte for "
    "byte and reported OK); the suggestion file is moved over the original or removed on every non-failing path and "
    "the original is never opened for writing; each automatic line correction does not re-trigger its own or an "
    "earlier rule; each indentation suggestion is built from the very expression the failing comparison used; the "
    "continuation-line state is cleared by blank lines and survives exactly while lines end with a backslash. Not "
    "decided: that compliant files raise no InputError, convergence within a bounded number of passes, that both "
    "parsers read the result as the same configuration."
)


def r18_1(ctx):
    """R18.1 echo identity: the only writes to the suggestion file are the unmodified input line (no InputError) and
    e.suggested_line (InputError); `fail` is set only in InputError handlers."""
    repo = ctx.repo
    f = repo.func(f"{MOD}:validate_file")
    ctx.analysed(f.qual)
    loops = [n for n in ast.walk(f.node) if isinstance(n, ast.For) and "enumerate(f" in ast.unparse(n.iter)]
    if not loops:
        raise AnchorError("validate_file: line loop not found")
    lp = loops[0]
    linevar = ast.unparse(lp.target.elts[1]) if isinstance(lp.target, ast.Tuple) else ast.unparse(lp.target)
    writes = [n for n in ast.walk(f.node) if isinstance(n, ast.Call) and isinstance(n.func, ast.Attribute) and n.func.attr in ("write", "writelines")
              and ast.unparse(n.func.value) == "f_o"]
    construct = "validate_file/suggestion file gets the input line or the checker's suggestion, nothing else"
    msgs = []
    args = sorted(ast.unparse(w.args[0]) for w in writes)
    if args != sorted([linevar, "e.suggested_line"]):
        msgs.append(f"writes are {args}")
    if any(isinstance(n, (ast.Assign, ast.AugAssign)) and any(ast.unparse(t) == linevar for t in (n.targets if isinstance(n, ast.Assign) else [n.target]))
           for n in ast.walk(lp)):
        msgs.append(f"`{linevar}` is modified before it is echoed")
    for w in writes:
        in_handler = None
        p = repo.parent(w)
        while p is not None and p is not f.node:
            if isinstance(p, ast.ExceptHandler):
                in_handler = ast.unparse(p.type) if p.type is not None else "bare"
                break
            p = repo.parent(p)
        a = ast.unparse(w.args[0])
        if a == linevar and in_handler is not None:
            msgs.append("the raw line is echoed from an error handler")
        if a == "e.suggested_line" and in_handler != "InputError":
            msgs.append(f"the suggestion is written in handler `{in_handler}`")
    # the echo follows the checker loop in the same try body (all checkers passed)
    echo = [w for w in writes if ast.unparse(w.args[0]) == linevar]
    if echo:
        st = repo.enclosing_stmt(echo[0])
        par = repo.parent(st)
        body = getattr(par, "body", [])
        ok = isinstance(par, ast.Try) and st in body and any(isinstance(s, ast.For) and "checkers" in ast.unparse(s.iter) for s in body[: body.index(st)])
        if not ok:
            msgs.append("the echo is not the continuation of the checker loop inside the try")
    (ctx.bad(construct, "; ".join(msgs), f.loc(lp)) if msgs else ctx.ok(construct, f.loc(lp), writes=args))
    fails = [n for n in ast.walk(f.node) if isinstance(n, ast.Assign) and ast.unparse(n.targets[0]) == "fail" and ast.unparse(n.value) == "True"]
    construct = "validate_file/fail is set only when a checker raised InputError"
    bad = []
    for a in fails:
        p = repo.parent(a)
        h = None
        while p is not None and p is not f.node:
            if isinstance(p, ast.ExceptHandler):
                h = ast.unparse(p.type) if p.type is not None else "bare"
                break
            p = repo.parent(p)
        if h != "InputError":
            bad.append(a)
    (ctx.bad(construct, f"`fail = True` outside an InputError handler (line {bad[0].lineno})", f.loc(bad[0])) if bad or not fails else
     ctx.ok(construct, f.loc(fails[0]), sites=len(fails)))
    construct = "validate_file/every checker sees every line in order"
    inner = [n for n in ast.walk(lp) if isinstance(n, ast.For) and ast.unparse(n.iter) == "checkers"]
    ok = bool(inner) and not any(isinstance(x, (ast.Break, ast.Continue)) for x in ast.walk(inner[0])) and \
        any(isinstance(x, ast.Call) and ast.unparse(x.func).endswith(".process_line") for x in ast.walk(inner[0]))
    (ctx.ok(construct, f.loc(inner[0])) if ok else ctx.bad(construct, "checker loop changed", f.loc(lp)))


def r18_2(ctx):
    """R18.2 suggestion-file lifecycle: on every path on which nothing failed the .new file is moved over the original
    (--replace) or removed; the original is opened only for reading and replaced only through os.replace."""
    repo = ctx.repo
    f = repo.func(f"{MOD}:validate_file")
    fl = Flow(f.node).run()
    opens = [n for n in ast.walk(f.node) if isinstance(n, ast.Call) and ast.unparse(n.func) == "open"]
    construct = "validate_file/original opened read-only, suggestions written to a sibling file"
    modes = {ast.unparse(o.args[0]): (o.args[1].value if len(o.args) > 1 and isinstance(o.args[1], ast.Constant) else "r") for o in opens}
    ok = modes.get("file_full_path") == "r" and modes.get("suggestions_full_path") == "w"
    (ctx.ok(construct, f.loc(), modes=modes) if ok else ctx.bad(construct, f"open modes {modes}", f.loc()))
    rep = [n for n in ast.walk(f.node) if isinstance(n, ast.Call) and ast.unparse(n.func) == "os.replace"]
    rem = [n for n in ast.walk(f.node) if isinstance(n, ast.Call) and ast.unparse(n.func) == "os.remove"]
    construct = "validate_file/--replace moves the suggestion file over the original"
    ok = bool(rep) and [ast.unparse(a) for a in rep[0].args] == ["suggestions_full_path", "file_full_path"] and \
        ((fl.guards_at(rep[0]) or set()) - {("checkers", True)}) == {("replace", True)}
    (ctx.ok(construct, f.loc(rep[0])) if ok else ctx.bad(construct, "os.replace(suggestions, original) under `replace` not found", f.loc()))
    construct = "validate_file/without --replace a clean run removes the suggestion file"
    ok = bool(rem) and ast.unparse(rem[0].args[0]) == "suggestions_full_path"
    if ok:
        gs = fl.guards_at(rem[0]) or set()
        ok = ("fail", False) in gs and ("replace", False) in gs
    (ctx.ok(construct, f.loc(rem[0])) if ok else ctx.bad(construct, "a *.new file can remain after an OK run", f.loc()))
    construct = "validate_file/OK is reported iff nothing failed"
    rets = {ast.unparse(n.value): fl.guards_at(n) or set() for n in ast.walk(f.node) if isinstance(n, ast.Return) and n.value is not None}
    ok = ("fail", True) in rets.get("False", set()) and ("fail", False) in rets.get("True", set())
    (ctx.ok(construct, f.loc(), nontrivial=False) if ok else ctx.bad(construct, f"returns {rets}", f.loc()))


def r18_3(ctx):
    """R18.3 line rules are idempotent: for each (regex, message, correction) of LINE_ERROR_RULES with a correction, the
    correction text matches neither the rule's own regex nor an earlier rule's (so one pass of the fixer settles
    them); LineRuleChecker applies them in order with sub()."""
    repo = ctx.repo
    tbl = repo.resolve_const(MOD, "LINE_ERROR_RULES")
    if not isinstance(tbl, ast.List):
        raise AnchorError("LINE_ERROR_RULES is not a list literal")
    spaces = repo.resolve_const(MOD, "SPACES_PER_INDENT")
    if spaces is None:
        # imported constant
        for mname in ("kconfcheck.core",):
            m = repo.module(mname)
            for n in m.tree.body:
                if isinstance(n, ast.ImportFrom):
                    for al in n.names:
                        if al.name == "SPACES_PER_INDENT":
                            src = f"{'.'.join(mname.split('.')[:-1])}.{n.module}" if n.level else n.module
                            spaces = repo.resolve_const(src, "SPACES_PER_INDENT") if src in repo.modules else None
    sp = spaces.value if isinstance(spaces, ast.Constant) else 4

    def ev(e: ast.AST) -> Optional[str]:
        if isinstance(e, ast.Constant):
            return e.value
        if isinstance(e, ast.BinOp) and isinstance(e.op, ast.Mult):
            l = ev(e.left)
            r = sp if ast.unparse(e.right) == "SPACES_PER_INDENT" else (e.right.value if isinstance(e.right, ast.Constant) else None)
            return l * r if isinstance(l, str) and isinstance(r, int) else None
        return None

    rules_ = []
    for el in tbl.elts:
        if not (isinstance(el, ast.Tuple) and len(el.elts) == 3):
            raise AnalysisError("LINE_ERROR_RULES entry is not a 3-tuple")
        rx, msg, corr = el.elts
        if not (isinstance(rx, ast.Call) and ast.unparse(rx.func) == "re.compile" and isinstance(rx.args[0], ast.Constant)):
            raise AnalysisError("rule regex is not re.compile(<literal>)")
        rules_.append((rx.args[0].value, ev(corr) if not (isinstance(corr, ast.Constant) and corr.value is None) else None, el))
    for i, (pat, corr, el) in enumerate(rules_):
        if corr is None:
            continue
        # the correction is a replacement template; its literal text (\n etc. already unescaped by the source literal r"\n" -> backslash n)
        text = corr.encode().decode("unicode_escape") if "\\" in corr else corr
        construct = f"LINE_ERROR_RULES[{i}] /{pat}/ -> {corr!r}: correction settles the line"
        hits = [p for p, _, _ in rules_[: i + 1] if re.compile(p).search(text)]
        if hits:
            ctx.bad(construct, f"the correction text itself matches /{hits[0]}/: the fixed line is flagged again on the next pass", f"{repo.module(MOD).relpath}:{el.lineno}")
        else:
            ctx.ok(construct, f"{repo.module(MOD).relpath}:{el.lineno}")
    lr = repo.func(f"{MOD}:LineRuleChecker.process_line")
    ctx.analysed(lr.qual)
    construct = "LineRuleChecker.process_line/applies every rule in order and suggests the fully corrected line"
    src = ast.unparse(lr.node)
    ok = "for rule in LINE_ERROR_RULES" in src and "line = rule[0].sub(rule[2], line)" in src and \
        any(isinstance(n, ast.Raise) and isinstance(n.exc, ast.Call) and ast.unparse(n.exc.args[-1]) == "line" for n in ast.walk(lr.node)) \
        and not any(isinstance(x, (ast.Break,)) for x in ast.walk(lr.node))
    (ctx.ok(construct, lr.loc()) if ok else ctx.bad(construct, "rule application changed", lr.loc()))


def r18_4(ctx):
    """R18.4 the indentation suggestion is the tested expression: each `Indentation consists of ...` InputError suggests
    `" " * E + line.lstrip()` with the same E the failing comparison `current_indent != E` used."""
    repo = ctx.repo
    f = repo.func(f"{MOD}:IndentAndNameChecker.process_line")
    ctx.analysed(f.qual)
    fl = Flow(f.node).run()
    n_sites = 0
    for r in [n for n in ast.walk(f.node) if isinstance(n, ast.Raise) and isinstance(n.exc, ast.Call) and "Indentation consists of" in ast.unparse(n.exc)]:
        n_sites += 1
        sugg = ast.unparse(r.exc.args[-1]).replace('"', "'")
        gs = fl.guards_at(r) or set()
        tested = [k for k, p in gs if k.startswith("current_indent == ") and p is False]
        construct = f"IndentAndNameChecker.process_line/indentation suggestion #{n_sites}"
        if not tested:
            ctx.bad(construct, f"the error is not raised under a failed `current_indent == E` test: {sorted(gs)}", f.loc(r))
            continue
        E = tested[-1][len("current_indent == "):]
        want = {f"' ' * {E} + line.lstrip()", f"' ' * ({E}) + line.lstrip()"}
        (ctx.ok(construct, f.loc(r), expected=E) if sugg in want else
         ctx.bad(construct, f"the comparison uses `{E}` but the suggestion is `{sugg}`: the rewritten line fails the same test again", f.loc(r)))
    if n_sites < 2:
        raise AnalysisError(f"only {n_sites} indentation errors found")


def r18_5(ctx):
    """R18.5 continuation-line state: force_next_indent is cleared by a blank line, kept while a correctly indented
    continuation line itself ends with a backslash, cleared when it does not, and set to (expected indent + one level)
    exactly when an ordinary line ends with a backslash."""
    repo = ctx.repo
    f = repo.func(f"{MOD}:IndentAndNameChecker.process_line")
    fl = Flow(f.node).run()
    asg = [n for n in ast.walk(f.node) if isinstance(n, ast.Assign) and ast.unparse(n.targets[0]) == "self.force_next_indent"]
    info = [(ast.unparse(a.value), fl.guards_at(a) or set(), a) for a in asg]
    bs = "stripped_line.endswith('\\\\')"
    blank = [i for i in info if i[0] == "0" and ("len(stripped_line) == 0", True) in i[1]]
    construct = "IndentAndNameChecker.process_line/blank line clears the continuation state"
    (ctx.ok(construct, f.loc(blank[0][2])) if blank else
     ctx.bad(construct, "a mis-indented continuation line leaves force_next_indent set; without the blank-line reset every later line is forced "
             "to the continuation indent and swallowed by the preceding help text", f.loc()))
    cont = [i for i in info if ("self.force_next_indent > 0", True) in i[1]]
    construct = "IndentAndNameChecker.process_line/multi-line continuation keeps its state until a line without backslash"
    msgs = []
    if not cont:
        msgs.append("no assignment in the continuation branch")
    for v, gs, a in cont:
        if v == "0" and (bs, False) not in gs:
            msgs.append(f"line {a.lineno}: state cleared although the continuation line may itself end with a backslash (three-line expressions "
                        "are then reported as mis-indented)")
    (ctx.bad(construct, "; ".join(msgs), f.loc()) if msgs else ctx.ok(construct, f.loc(cont[0][2])))
    setter = [i for i in info if i[0] not in ("0",) and (bs, True) in i[1]]
    construct = "IndentAndNameChecker.process_line/a line ending with backslash forces the next indent one level deeper"
    ok = bool(setter) and setter[0][0] == "expected_indent + SPACES_PER_INDENT" and any(i[0] == "0" and (bs, False) in i[1] and
                                                                                         ("self.force_next_indent > 0", False) in i[1] for i in info)
    (ctx.ok(construct, f.loc(setter[0][2]) if setter else f.loc()) if ok else ctx.bad(construct, f"assignments: {[(v, sorted(g)) for v, g, _ in info]}", f.loc()))
    construct = "IndentAndNameChecker.process_line/comment lines do not touch the state"
    cm = [n for n in ast.walk(f.node) if isinstance(n, ast.If) and ast.unparse(n.test) == "stripped_line.startswith('#')"]
    ok = bool(cm) and len(cm[0].body) == 1 and isinstance(cm[0].body[0], ast.Return)
    (ctx.ok(construct, f.loc(cm[0]), nontrivial=False) if ok else ctx.bad(construct, "comment handling changed", f.loc()))


def _regex_of(repo, fn, attr: str):
    for n in ast.walk(fn):
        if isinstance(n, ast.Assign) and ast.unparse(n.targets[0]) == f"self.{attr}" and isinstance(n.value, ast.Call) \
                and ast.unparse(n.value.func) == "re.compile" and isinstance(n.value.args[0], ast.Constant):
            return n.value.args[0].value, n
    return None, None


def _alternatives(pattern: str) -> Set[str]:
    return set(re.findall(r"\(\??:?\s*([a-z]+)(?:\(\?!\w+\))?\s*\)", pattern))


def r18_6(ctx):
    """R18.6 keyword tables of the indentation checker agree: every entry keyword that opens an indentation level and is not
    a block opener of its own (mainmenu/help) is re-parented to the enclosing menu/choice/if; opening and closing keyword
    regexes are anchored alike (prefix match); both name-length checks compare the prefix-less name with the same limit."""
    repo = ctx.repo
    init = repo.func(f"{MOD}:IndentAndNameChecker.__init__")
    upd = repo.func(f"{MOD}:IndentAndNameChecker.update_level_for_inc_pattern")
    ctx.analysed(init.qual, upd.qual)
    inc, inc_node = _regex_of(repo, init.node, "re_increase_level")
    dec, dec_node = _regex_of(repo, init.node, "re_decrease_level")
    if inc is None or dec is None:
        raise AnchorError("re_increase_level / re_decrease_level not found as literal regexes")
    inc_kw = _alternatives(inc)
    # the list of re-parented items: a literal list in the `new_item in [...]` test or an attribute assigned a literal tuple/list
    listed: Set[str] = set()
    for n in ast.walk(upd.node):
        if isinstance(n, ast.Compare) and isinstance(n.ops[0], ast.In) and ast.unparse(n.left) == "new_item":
            c = n.comparators[0]
            if isinstance(c, (ast.List, ast.Tuple, ast.Set)):
                listed |= {e.value for e in c.elts if isinstance(e, ast.Constant)}
            elif isinstance(c, ast.Attribute):
                for a in ast.walk(init.node):
                    if isinstance(a, ast.Assign) and ast.unparse(a.targets[0]) == ast.unparse(c) and isinstance(a.value, (ast.List, ast.Tuple, ast.Set)):
                        listed |= {e.value for e in a.value.elts if isinstance(e, ast.Constant)}
    want = inc_kw - {"mainmenu", "help"}
    construct = "IndentAndNameChecker/every level-opening entry keyword is re-parented to the enclosing block"
    if len(inc_kw) < 10 or not listed:
        raise AnalysisError(f"keyword tables not extracted (inc={sorted(inc_kw)}, listed={sorted(listed)})")
    missing = sorted(want - listed)
    (ctx.bad(construct, f"{missing} open an indentation level but are not in the re-parenting list: such an entry after a config is expected at the config's "
             "help indentation, a compliant file is reported and --replace moves the line into the help text", upd.loc()) if missing else
     ctx.ok(construct, upd.loc(), keywords=sorted(want)))
    construct = "IndentAndNameChecker/opening and closing keyword regexes are anchored alike"
    norm = lambda p: re.sub(r"\s+", "", p)
    ok = norm(inc).startswith("^\\s*(") and norm(dec).startswith("^\\s*(") and norm(inc).endswith(")") == norm(dec).endswith(")") and not norm(dec).endswith("$")
    (ctx.ok(construct, init.loc(dec_node)) if ok else
     ctx.bad(construct, f"the closing-keyword regex ends with {norm(dec)[-3:]!r}: `endif  ` / `endmenu # comment` no longer close the block, the level stack never "
             "shrinks and later entries are re-indented deeper on every pass", init.loc(dec_node)))
    pair = None
    for n in ast.walk(init.node):
        if isinstance(n, ast.Assign) and ast.unparse(n.targets[0]) == "self.pair_dic" and isinstance(n.value, ast.Dict):
            pair = {k.value for k in n.value.keys if isinstance(k, ast.Constant)}
    construct = "IndentAndNameChecker/every closing keyword has its opener"
    (ctx.ok(construct, init.loc(), nontrivial=False) if pair is not None and pair == _alternatives(dec) else
     ctx.bad(construct, f"pair_dic keys {sorted(pair or [])} vs closing regex {sorted(_alternatives(dec))}", init.loc()))
    rn = repo.func(f"{MOD}:ConfigNameChecker.rule_name_len")
    cn = repo.func(f"{MOD}:IndentAndNameChecker.check_name_and_update_prefix")
    ctx.analysed(rn.qual, cn.qual)
    c1 = [n for n in ast.walk(rn.node) if isinstance(n, ast.Compare) and "CONFIG_NAME_MAX_LENGTH" in ast.unparse(n)]
    c2 = [n for n in ast.walk(cn.node) if isinstance(n, ast.Compare) and "CONFIG_NAME_MAX_LENGTH" in ast.unparse(n)]
    construct = "ConfigNameChecker.rule_name_len/length limit applies to the name without the CONFIG_ prefix (as in Kconfig files)"
    ok = bool(c1) and bool(c2) and "len(CONFIG_PREFIX)" in ast.unparse(c1[0].left) and isinstance(c1[0].ops[0], ast.Gt) and isinstance(c2[0].ops[0], ast.Gt)
    (ctx.ok(construct, rn.loc(c1[0]) if c1 else rn.loc()) if ok else
     ctx.bad(construct, "the rename-file check counts the prefix: a name that is legal in a Kconfig file is rejected in sdkconfig.rename (no suggestion, never converges)",
             rn.loc(c1[0]) if c1 else rn.loc()))


def r18_7(ctx):
    """R18.7 (a) the checker reads the file line by line as the parsers do (file iteration): nothing in kconfcheck cuts text
    with str.splitlines(), which would also cut at form feed / U+2028 inside a help text or prompt and check (and
    "fix") the tail as a line of its own; (b) a suggestion passes the test that produced it: the sourced-file-name test is
    a prefix test on the very literal the suggestion prepends (a stricter test would reject its own suggestion again on
    the next pass and the file never converges); (c) indentation is measured from the left edge only - never as a length
    difference with a text stripped on both sides, which counts trailing blanks as indentation."""
    from .common import no_splitlines
    repo = ctx.repo
    no_splitlines(ctx, [m for m in ("kconfcheck.core", "kconfcheck.__main__", "kconfcheck.check_deprecated_options") if m in repo.modules],
                  "the checkers see a line boundary where the Kconfig parsers see none")
    vf = repo.func(f"{MOD}:validate_file")
    ctx.analysed(vf.qual)
    loops = [n for n in ast.walk(vf.node) if isinstance(n, ast.For) and isinstance(n.iter, ast.Call) and ast.unparse(n.iter.func) == "enumerate" and n.iter.args]
    construct = "validate_file/lines are the lines of the file object"
    it = ast.unparse(loops[0].iter.args[0]) if loops else "?"
    opened = {ast.unparse(i.optional_vars) for w in ast.walk(vf.node) if isinstance(w, ast.With) for i in w.items if i.optional_vars is not None}
    (ctx.ok(construct, vf.loc(loops[0])) if loops and it in opened else
     ctx.bad(construct, f"the line loop iterates `{it}`, not the opened file: line boundaries are no longer the file's own", vf.loc(loops[0]) if loops else vf.loc()))
    sc = repo.func(f"{MOD}:SourceChecker.process_line")
    ctx.analysed(sc.qual)
    construct = "SourceChecker.process_line/the file-name suggestion passes the file-name test"
    tests = [n for n in ast.walk(sc.node) if isinstance(n, ast.If) and "filename" in ast.unparse(n.test) and any(isinstance(x, ast.Raise) for x in n.body)]
    verdict = None
    for t in tests:
        sw = [c for c in ast.walk(t.test) if isinstance(c, ast.Call) and isinstance(c.func, ast.Attribute) and c.func.attr == "startswith"
              and ast.unparse(c.func.value) == "filename" and c.args and isinstance(c.args[0], ast.Constant)]
        sug = [c for r in t.body for c in ast.walk(r) if isinstance(c, ast.BinOp) and isinstance(c.op, ast.Add) and isinstance(c.left, ast.Constant)
               and isinstance(c.right, ast.Name) and c.right.id == "filename"]
        if sug:
            lit = sug[0].left.value
            verdict = (bool(sw) and sw[0].args[0].value == lit and isinstance(t.test, ast.UnaryOp), lit, t)
    if verdict is None:
        raise AnchorError("SourceChecker.process_line: file-name test with a `<literal> + filename` suggestion not found")
    (ctx.ok(construct, sc.loc(verdict[2]), prefix=verdict[1]) if verdict[0] else
     ctx.bad(construct, f"the test is not `not filename.startswith({verdict[1]!r})` although the suggestion is `{verdict[1]!r} + filename`: a name the "
             "stricter test rejects is `corrected` into another rejected name on every pass", sc.loc(verdict[2])))
    ip = repo.func(f"{MOD}:IndentAndNameChecker.process_line")
    ctx.analysed(ip.qual)
    both = {n.targets[0].id for n in ast.walk(ip.node) if isinstance(n, ast.Assign) and isinstance(n.targets[0], ast.Name) and isinstance(n.value, ast.Call)
            and isinstance(n.value.func, ast.Attribute) and n.value.func.attr == "strip" and not n.value.args}
    defs = [n for n in ast.walk(ip.node) if isinstance(n, ast.Assign) and isinstance(n.targets[0], ast.Name) and n.targets[0].id == "current_indent"]
    if not defs:
        raise AnchorError("IndentAndNameChecker.process_line: current_indent not found")
    construct = "IndentAndNameChecker.process_line/indentation is measured from the left edge"
    bad = [d for d in defs if {x.id for x in ast.walk(d.value) if isinstance(x, ast.Name)} & both]
    (ctx.bad(construct, f"`{ast.unparse(bad[0])}` uses a text stripped on both sides: trailing blanks count as indentation, the line is flagged and "
             "the suggestion keeps the blanks, so every pass flags it again", ip.loc(bad[0])) if bad else ctx.ok(construct, ip.loc(defs[0]), both_sides_stripped=sorted(both)))


def r18_8(ctx):
    """R18.8 (a) number literals in expressions are recognised by form (isnumeric / an explicit 0x pattern), never by
    int(text, 0), which rejects decimals with a leading zero (`0644`) - the checker would take them for lower-case config
    names and suggest the identity forever; (b) a level that never saw a named option has no common prefix to complain
    about: check_common_prefix returns before its length tests when the popped prefix is None."""
    from .common import no_autodetected_base
    repo = ctx.repo
    no_autodetected_base(ctx, [MOD], "a decimal literal with a leading zero is not a number to int(s, 0)")
    f = repo.func(f"{MOD}:IndentAndNameChecker.check_common_prefix")
    ctx.analysed(f.qual)
    fl = Flow(f.node, resolver=Resolver(f.node)).run()
    raises = [n for n in ast.walk(f.node) if isinstance(n, ast.Raise)]
    pops = [n for n in ast.walk(f.node) if isinstance(n, ast.Assign) and "prefix_stack.pop()" in ast.unparse(n.value)]
    construct = "IndentAndNameChecker.check_common_prefix/a level without named options is not judged"
    if not pops or not raises:
        raise AnchorError("check_common_prefix: pop / raise not found")
    v = ast.unparse(pops[0].targets[0])
    if ast.unparse(pops[0].value) != "self.prefix_stack.pop()":
        ctx.bad(construct, f"the popped value is rewritten (`{ast.unparse(pops[0].value)}`): `None` (no named option on this level) becomes a real, too short prefix",
                f.loc(pops[0]))
    else:
        bad = [r for r in raises if (f"{v} is None", False) not in (fl.guards_at(r) or set())]
        (ctx.bad(construct, "an error is raised although the level had no named option (popped prefix None)", f.loc(bad[0])) if bad else ctx.ok(construct, f.loc(pops[0])))

def _fold_str(fn: ast.AST, e: ast.AST, depth: int = 4) -> Optional[str]:
    """constant value of a string expression built from literals, f-strings and single-assignment string locals of fn"""
    if isinstance(e, ast.Constant) and isinstance(e.value, str):
        return e.value
    if isinstance(e, ast.JoinedStr):
        out = ""
        for v in e.values:
            if isinstance(v, ast.Constant):
                out += str(v.value)
            elif isinstance(v, ast.FormattedValue) and v.conversion == -1 and v.format_spec is None:
                t = _fold_str(fn, v.value, depth)
                if t is None:
                    return None
                out += t
            else:
                return None
        return out
    if isinstance(e, ast.Name) and depth > 0:
        defs = [n.value for n in ast.walk(fn) if isinstance(n, ast.Assign) and len(n.targets) == 1 and isinstance(n.targets[0], ast.Name) and n.targets[0].id == e.id]
        if len(defs) == 1:
            return _fold_str(fn, defs[0], depth - 1)
    if isinstance(e, ast.BinOp) and isinstance(e.op, ast.Add):
        a, b = _fold_str(fn, e.left, depth), _fold_str(fn, e.right, depth)
        return None if a is None or b is None else a + b
    return None


def r18_9(ctx):
    """R18.9 quoted strings are opaque to the name checks: the regular expressions of IndentAndNameChecker (constants of the
    source, folded from their literal pieces) are applied to three witness texts: `"go if ready"` has no condition for the
    `default` rule to split at, `"go if ready" if FOO` splits after the closing quote, and `"say \"hi\" now"` is one
    quoted symbol. Otherwise a compliant file is reported as having lower-case config names and --replace rewrites the
    inside of its strings."""
    repo = ctx.repo
    f = repo.func(f"{MOD}:IndentAndNameChecker.__init__")
    ctx.analysed(f.qual)
    pats: Dict[str, Tuple[str, int]] = {}
    mod_tree = f.module.tree

    def definition(e: ast.AST, depth: int = 6) -> Optional[ast.AST]:
        """what a name / `self.x` of the constructor stands for: its single assignment in __init__, else at module level;
        `dict(T)` is T"""
        if depth <= 0:
            return None
        if isinstance(e, ast.Call) and isinstance(e.func, ast.Name) and e.func.id == "dict" and len(e.args) == 1 and not e.keywords:
            return definition(e.args[0], depth - 1)
        if isinstance(e, (ast.Name, ast.Attribute)):
            want = ast.unparse(e)
            for scope in (f.node, mod_tree):
                body = ast.walk(scope) if scope is f.node else scope.body
                defs = [n.value for n in body if isinstance(n, ast.Assign) and len(n.targets) == 1 and ast.unparse(n.targets[0]) == want]
                defs += [n.value for n in body if isinstance(n, ast.AnnAssign) and n.value is not None and ast.unparse(n.target) == want]
                if len(defs) == 1:
                    return definition(defs[0], depth - 1)
                if defs:
                    return None
            return None
        return e

    class _Scope:  # _fold_str looks names up in one tree: give it the constructor first, then the module
        pass

    def fold(e):
        t = _fold_str(f.node, e)
        return t if t is not None else _fold_str(mod_tree, e)

    def pattern_of(e: ast.AST) -> Optional[Tuple[str, int]]:
        d = definition(e)
        if isinstance(d, ast.Call) and ast.unparse(d.func) == "re.compile" and d.args:
            t = fold(d.args[0])
            if t is not None:
                return t, (re.X if any("re.X" in ast.unparse(a) or "re.VERBOSE" in ast.unparse(a) for a in d.args[1:]) else 0)
        return None
    table = definition(ast.parse("self.kw_to_regex", mode="eval").body)
    if isinstance(table, ast.Dict):
        for k, v in zip(table.keys, table.values):
            if isinstance(k, ast.Constant) and k.value == "default":
                pt = pattern_of(v)
                if pt:
                    pats["reg_default"] = pt
    pt = pattern_of(ast.parse("self.reg_symbol", mode="eval").body)
    if pt:
        pats["reg_symbol"] = pt
    if "reg_default" not in pats or "reg_symbol" not in pats:
        raise AnchorError(f"IndentAndNameChecker.__init__: the pattern of `default` lines (kw_to_regex['default']) / reg_symbol not foldable ({sorted(pats)})")
    try:
        rd = re.compile(*pats["reg_default"])
        rs = re.compile(*pats["reg_symbol"])
    except re.error as e:
        raise AnalysisError(f"pattern of the checker does not compile: {e}")
    construct = "IndentAndNameChecker/`default` lines are split at an `if` outside quotes"
    m1 = rd.match('"go if ready"')
    m2 = rd.match('"go if ready" if FOO')
    ok = m1 is None and m2 is not None and m2.group("expression0") == '"go if ready"'
    (ctx.ok(construct, f.loc()) if ok else
     ctx.bad(construct, f"`default \"go if ready\"` is split into {m1.groupdict() if m1 else None} / with a condition into {m2.groupdict() if m2 else None}: the words "
             "of the string are taken for config names", f.loc()))
    construct = "IndentAndNameChecker/a quoted symbol ends at the first unescaped quote"
    toks = rs.findall('"say \\"hi\\" now"')
    (ctx.ok(construct, f.loc()) if toks == ['"say \\"hi\\" now"'] else
     ctx.bad(construct, f"`\"say \\\"hi\\\" now\"` is read as {toks}: words between escaped quotes are taken for config names", f.loc()))


def r18_10(ctx):
    """R18.10 (a) every line reaches the stateful checker: in validate_file() the indentation / name checker - the only one that keeps
    a stack across lines - comes first in the chain (the chain stops at the first error of a line; a later position makes it miss
    the `endmenu` of a line that also has trailing blanks, its stack never empties and `--replace` can never finish); (b) blank
    and comment lines of an sdkconfig.rename file are left alone: the skip test of SDKRenameChecker.process_line, folded over the
    witness lines `\\n`, three blanks, a tab, `# note`, holds for each of them and does not hold for a rename line."""
    from ..foldcheck import Unfoldable, fold_str_expr
    from .common import expand_locals
    repo = ctx.repo
    v = repo.func(f"{MOD}:validate_file")
    ctx.analysed(v.qual)
    def _cls(e):  # `Checker(path)` or the bare class in a table of classes
        return ast.unparse(e.func) if isinstance(e, ast.Call) else (e.id if isinstance(e, ast.Name) else None)
    tuples = [n for n in ast.walk(v.node) if isinstance(n, (ast.Tuple, ast.List)) and any(_cls(e) == "IndentAndNameChecker" for e in n.elts)]
    construct = "validate_file/the stateful indentation checker sees every line first"
    if not tuples:
        ctx.bad(construct, "IndentAndNameChecker is no longer part of the checker chain", v.loc())
    else:
        names = [_cls(e) for e in tuples[0].elts if _cls(e)]
        (ctx.ok(construct, v.loc(tuples[0]), chain=names) if names and names[0] == "IndentAndNameChecker" else
         ctx.bad(construct, f"the chain is {names}: a line that trips an earlier checker never reaches the indentation checker, whose level and prefix stacks then miss "
                 "that line (an `endmenu` with a trailing blank) - `Prefix stack should be empty` at the end, the corrected file is never installed", v.loc(tuples[0])))
    p = repo.func(f"{MOD}:SDKRenameChecker.process_line")
    ctx.analysed(p.qual)
    prm = [a.arg for a in p.node.args.args if a.arg != "self"][0]
    skips = [s for s in p.node.body if isinstance(s, ast.If) and s.body and isinstance(s.body[-1], ast.Return) and s.body[-1].value is None]
    if not skips:
        raise AnchorError("SDKRenameChecker.process_line: no skip test")
    test = ast.parse(expand_locals(p.node, skips[0].test), mode="eval").body
    for w, want in (("\n", True), ("   \n", True), ("\t\n", True), ("# note\n", True), ("#x", True), ("CONFIG_OLD CONFIG_NEW\n", False)):
        construct = f"SDKRenameChecker.process_line/line {w!r} is {'skipped' if want else 'checked'}"
        try:
            got = bool(fold_str_expr(test, {prm: w}))
        except Unfoldable as e:
            raise AnalysisError(f"SDKRenameChecker.process_line: skip test `{ast.unparse(test)[:60]}` cannot be folded ({e})")
        (ctx.ok(construct, p.loc(skips[0])) if got == want else
         ctx.bad(construct, f"the skip test `{ast.unparse(test)[:70]}` is {got} for this line: "
                 + ("a blank or comment line is reported (`Line should contain at least old and new config names`) in every pass, with no correction - the file never "
                    "converges" if want else "a rename line is skipped unchecked"), p.loc(skips[0])))


def r18_11(ctx):
    """R18.11 (a) a sub-menu or choice directly under `mainmenu` is as free in its prefix as one under `menu`: the exemption test of
    check_common_prefix, folded for the level stacks [`mainmenu`] and [`menu`], holds for both; (b) a trailing comment never makes a
    rename line wrong: every error test of SDKRenameChecker.process_line that can be folded for the tokens of `CONFIG_OLD CONFIG_NEW
    #since v2` is false."""
    from ..foldcheck import Unfoldable, fold_str_expr
    from .common import expand_locals
    repo = ctx.repo
    c = repo.func(f"{MOD}:IndentAndNameChecker.check_common_prefix")
    ctx.analysed(c.qual)
    tests = [n.test for n in ast.walk(c.node) if isinstance(n, ast.If) and "level_stack[-1]" in ast.unparse(n.test) and ("'menu'" in ast.unparse(n.test).replace('"', "'"))]
    if not tests:
        raise AnchorError("check_common_prefix: the parent-menu exemption was not found")
    t = tests[0]
    for parent in ("mainmenu", "menu"):
        construct = f"IndentAndNameChecker.check_common_prefix/entries under `{parent}` need not continue its prefix"
        try:
            v = bool(fold_str_expr(t, {"self.level_stack": [parent]}))
        except Unfoldable as e:
            raise AnalysisError(f"check_common_prefix: exemption test `{ast.unparse(t)[:60]}` cannot be folded ({e})")
        (ctx.ok(construct, c.loc(t)) if v else
         ctx.bad(construct, f"`{ast.unparse(t)[:70]}` is false with `{parent}` on top of the level stack: a compliant file is reported (`Common prefix ... should "
                 "start with ...`) and no correction is offered", c.loc(t)))
    p = repo.func(f"{MOD}:SDKRenameChecker.process_line")
    ctx.analysed(p.qual)
    prm = [a.arg for a in p.node.args.args if a.arg != "self"][0]
    line = "CONFIG_OLD CONFIG_NEW #since v2\n"
    env = {prm: line, "tokens": line.split(), "old_name": "CONFIG_OLD", "new_name": "CONFIG_NEW", "inversion": False}
    n = 0
    for st in ast.walk(p.node):
        if isinstance(st, ast.If) and any(isinstance(x, ast.Raise) for x in st.body):
            try:
                v = bool(fold_str_expr(ast.parse(expand_locals(p.node, st.test), mode="eval").body, env))
            except Unfoldable:
                continue
            n += 1
            construct = f"SDKRenameChecker.process_line/`{ast.unparse(st.test)[:40]}` is no error for a line with a trailing `#comment`"
            (ctx.ok(construct, p.loc(st)) if not v else
             ctx.bad(construct, f"the well-formed line `{line.strip()}` raises an InputError: the file is reported in every pass and never converges", p.loc(st)))
    if n < 2:
        raise AnalysisError(f"only {n} foldable error tests in SDKRenameChecker.process_line")


def r18_12(ctx):
    """R18.12 only a source statement is checked as one: the pattern SourceChecker.process_line looks for, applied the way the
    source applies it (search / match, on the line or on a stripped copy), finds `source "Kconfig.foo"`, `    rsource "x"` and
    `osource"a"` and does not find `        the clock source "XTAL" is used` nor `    default "source" if FOO = "y"` - help
    texts and strings of a compliant file would be reported and rewritten by --replace."""
    repo = ctx.repo
    f = repo.func(f"{MOD}:SourceChecker.process_line")
    ctx.analysed(f.qual)
    cls = repo.cls(f"{MOD}:SourceChecker")
    line_prm = f.node.args.args[1].arg

    def const_of(e):
        if isinstance(e, ast.Constant) and isinstance(e.value, str):
            return e.value
        if isinstance(e, ast.Call) and ast.unparse(e.func) == "re.compile" and e.args:
            return const_of(e.args[0])
        if isinstance(e, ast.Attribute) and ast.unparse(e.value) in ("self", "SourceChecker", "cls"):
            for b in cls.body:
                if isinstance(b, ast.Assign) and len(b.targets) == 1 and ast.unparse(b.targets[0]) == e.attr:
                    return const_of(b.value)
        if isinstance(e, ast.Name):
            for b in list(ast.walk(f.node)) + list(f.module.tree.body):
                if isinstance(b, ast.Assign) and len(b.targets) == 1 and ast.unparse(b.targets[0]) == e.id:
                    return const_of(b.value)
        return None
    site = None
    for n in ast.walk(f.node):
        if isinstance(n, ast.Call) and isinstance(n.func, ast.Attribute) and n.func.attr in ("search", "match", "fullmatch"):
            if ast.unparse(n.func.value) == "re" and len(n.args) >= 2:
                pat, arg = const_of(n.args[0]), n.args[1]
            else:
                pat, arg = const_of(n.func.value), (n.args[0] if n.args else None)
            if pat is not None and arg is not None and "source" in pat:
                site = (n, n.func.attr, pat, arg)
                break
    if site is None:
        raise AnchorError("SourceChecker.process_line: the source-statement pattern was not found")
    call, how, pat, arg = site
    at = ast.unparse(arg)
    prep = {line_prm: lambda s: s, f"{line_prm}.lstrip()": lambda s: s.lstrip(), f"{line_prm}.strip()": lambda s: s.strip()}.get(at)
    if prep is None:
        raise AnalysisError(f"SourceChecker.process_line: the pattern is applied to `{at}`")
    try:
        rx = re.compile(pat)
    except re.error as e:
        raise AnalysisError(f"source pattern does not compile: {e}")
    for w, want in (('source "Kconfig.foo"\n', True), ('    rsource "x"\n', True), ('osource"a"\n', True),
                    ('        the clock source "XTAL" is used\n', False), ('    default "source" if FOO = "y"\n', False)):
        construct = f"SourceChecker.process_line/`{w.strip()}` is {'a' if want else 'no'} source statement"
        got = getattr(rx, how)(prep(w)) is not None
        (ctx.ok(construct, f.loc(call)) if got == want else
         ctx.bad(construct, f"`{pat}` applied with {how}() to `{at}` {'finds' if got else 'does not find'} it: " +
                 ("a line of help text / a string is checked as a source statement, reported and rewritten by --replace" if not want else "the statement is no longer checked"), f.loc(call)))


def r18_13(ctx):
    """R18.13 a `#` inside a quoted string starts no comment: check_name_sanity() does not cut the line with a quote-unaware search for
    `#` (`line.index("#")`, `.find`, `.split`, `.partition`, a slice at such a position) - `default y if FOO_B = "a#b"` is a
    compliant line; cut at the `#` it is reported (`config name a should be all uppercase`) and --replace writes the cut line
    back (fixed defect 5.65)."""
    repo = ctx.repo
    f = repo.func(f"{MOD}:IndentAndNameChecker.check_name_sanity")
    ctx.analysed(f.qual)
    prm = f.node.args.args[1].arg
    cuts = [n for n in ast.walk(f.node) if isinstance(n, ast.Call) and isinstance(n.func, ast.Attribute) and n.func.attr in ("index", "find", "rindex", "rfind", "split", "rsplit", "partition", "rpartition")
            and n.args and isinstance(n.args[0], ast.Constant) and n.args[0].value == "#" and isinstance(n.func.value, ast.Name) and n.func.value.id == prm]
    construct = "IndentAndNameChecker.check_name_sanity/the comment is cut off outside quoted strings only"
    (ctx.bad(construct, f"`{ast.unparse(cuts[0])}` finds the first `#` wherever it stands: a string literal with a `#` is cut in two, its first half is checked as config names and "
             "--replace writes the damaged line back", f.loc(cuts[0])) if cuts else ctx.ok(construct, f.loc()))


def rules():
    return [("R18.13", r18_13, 1), ("R18.12", r18_12, 5), ("R18.11", r18_11, 4), ("R18.10", r18_10, 7), ("R18.9", r18_9, 2), ("R18.8", r18_8, 1), ("R18.7", r18_7, 3), ("R18.1", r18_1, 3), ("R18.2", r18_2, 4), ("R18.3", r18_3, 3), ("R18.4", r18_4, 2), ("R18.5", r18_5, 4), ("R18.6", r18_6, 4)]
