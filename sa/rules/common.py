"""Generic lints reused by several properties (each is instantiated on a named set of functions)."""
from __future__ import annotations

import ast
from typing import Dict, Iterable, List, Optional, Set, Tuple

from ..flow import AnalysisError, Flow, Resolver, MUTATORS, canon_atom, decompose
from ..repo import Func, Repo


def own_nodes(repo: Repo, f: Func):
    for n in ast.walk(f.node):
        if repo.enclosing_func(n) is f or n is f.node:
            yield n


# --------------------------------------------------------------------------- explaining variables
def expand_locals(fn: ast.AST, e: ast.AST, depth: int = 4) -> str:
    """text of `e` with every local that is assigned exactly once in `fn` (plain `x = <expr>`) replaced by its defining
    expression - `root = find(d); use(root)` and `use(find(d))` read the same to a rule"""
    import copy
    single: Dict[str, ast.AST] = {}
    counts: Dict[str, int] = {}
    for n in ast.walk(fn):
        if isinstance(n, ast.Name) and isinstance(n.ctx, (ast.Store, ast.Del)):
            counts[n.id] = counts.get(n.id, 0) + 1
    params = {a.arg for a in ast.walk(fn) if isinstance(a, ast.arg)}
    for n in ast.walk(fn):
        if isinstance(n, ast.Assign) and len(n.targets) == 1 and isinstance(n.targets[0], ast.Name) and counts.get(n.targets[0].id) == 1 \
                and n.targets[0].id not in params and not any(isinstance(x, ast.Name) and x.id == n.targets[0].id for x in ast.walk(n.value)):
            single[n.targets[0].id] = n.value

    class T(ast.NodeTransformer):
        def __init__(self, d):
            self.d = d

        def visit_Name(self, n):
            if isinstance(n.ctx, ast.Load) and n.id in single and self.d > 0:
                return T(self.d - 1).visit(copy.deepcopy(single[n.id]))
            return n

    return ast.unparse(T(depth).visit(copy.deepcopy(e))).replace('"', "'")


# --------------------------------------------------------------------------- unused loop variables (bugbear B007)
def unused_loop_vars(ctx, quals: Iterable[str], why: str):
    """Every name unpacked by a for-loop / comprehension target in the given collector functions is used in the loop
    body (names starting with `_` excepted): an unpacked but unused component means the collector silently ignores it
    (or uses a neighbour twice)."""
    repo = ctx.repo
    for q in quals:
        f = repo.func(q)
        ctx.analysed(q)
        n_loops = 0
        for n in own_nodes(repo, f):
            loops: List[Tuple[ast.AST, List[ast.AST]]] = []
            if isinstance(n, ast.For):
                loops.append((n.target, n.body + n.orelse))
            elif isinstance(n, (ast.ListComp, ast.SetComp, ast.GeneratorExp, ast.DictComp)):
                elts = [n.key, n.value] if isinstance(n, ast.DictComp) else [n.elt]
                for g in n.generators:
                    loops.append((g.target, elts + list(g.ifs) + [x.iter for x in n.generators if x is not g]))
            for tgt, body in loops:
                names = [t.id for t in ast.walk(tgt) if isinstance(t, ast.Name) and not t.id.startswith("_")]
                if not names:
                    continue
                n_loops += 1
                used = {x.id for b in body for x in ast.walk(b) if isinstance(x, ast.Name) and isinstance(x.ctx, ast.Load)}
                missing = [nm for nm in names if nm not in used]
                construct = f"{f.short}/loop over `{ast.unparse(getattr(n, 'iter', None) or n.generators[0].iter)[:40]}` uses every unpacked component"
                if missing:
                    ctx.bad(construct, f"`{', '.join(missing)}` is unpacked but never used in the loop body: {why}", f.loc(n))
                else:
                    ctx.ok(construct, f.loc(n), nontrivial=False)


# --------------------------------------------------------------------------- mutation of the iterated container
def no_mutation_of_iterated(ctx, modname: str, why: str):
    """No for-loop mutates the very list it iterates over (remove/append/insert/pop/del on the iterable inside the body):
    elements are skipped or visited twice depending on their position."""
    repo = ctx.repo
    n = 0
    for f in repo.funcs_in(modname):
        for lp in own_nodes(repo, f):
            if not isinstance(lp, ast.For) or not isinstance(lp.iter, (ast.Name, ast.Attribute)):
                continue
            it = ast.unparse(lp.iter)
            n += 1
            bad = None
            for x in ast.walk(lp):
                if isinstance(x, ast.Call) and isinstance(x.func, ast.Attribute) and x.func.attr in MUTATORS and ast.unparse(x.func.value) == it:
                    bad = x
                if isinstance(x, ast.Delete) and any(ast.unparse(t).startswith(it + "[") for t in x.targets):
                    bad = x
            construct = f"{f.short}/loop over `{it}` does not modify `{it}`"
            if bad is not None:
                ctx.bad(construct, f"`{ast.unparse(bad)[:50]}` changes the list being iterated: {why}", f.loc(bad))
            else:
                ctx.ok(construct, f.loc(lp), nontrivial=False)
    return n


# --------------------------------------------------------------------------- checked numeric conversions
VALIDATORS = ("_is_base_n(", "is_float(", "is_base_n(", "_looks_like_number(")


SYMBOL_VALUE_MARKS = (".str_value", ".name", "_user_value", "_sdkconfig_value")


def symbol_value_converters(repo: Repo, modnames: Iterable[str]) -> List[str]:
    """every function of the given modules that applies int()/float() to text taken from a symbol (its value, the name
    of a literal symbol, a stored user / sdkconfig value) - directly or through a local assigned from one"""
    from .c04 import _reaching
    out = []
    for m in modnames:
        if m not in repo.modules:
            continue
        for f in repo.funcs_in(m):
            for n in own_nodes(repo, f):
                if isinstance(n, ast.Call) and isinstance(n.func, ast.Name) and n.func.id in ("int", "float") and n.args and not isinstance(n.args[0], ast.Constant):
                    txt = ast.unparse(n.args[0])
                    if isinstance(n.args[0], ast.Name):
                        v = _reaching(repo, f.node, n.args[0].id, n)
                        txt += " " + (ast.unparse(v) if v is not None else "")
                    if any(mk in txt for mk in SYMBOL_VALUE_MARKS):
                        out.append(f.qual)
                        break
    return out


def checked_conversions(ctx, quals: Iterable[str], exempt_sources: Tuple[str, ...] = ("_user_value",), validated_params: Tuple[str, ...] = (),
                        only_symbol_values: bool = False, exempt_funcs: Optional[Dict[str, str]] = None):
    """Every int(x, base) / float(x) applied to a symbol's *value* in the given functions is guarded by the matching
    validity predicate (dominating guard or the test of the conditional expression), sits in a try that handles
    ValueError, or converts a value that was validated when it was stored (user values)."""
    repo = ctx.repo
    for q in quals:
        f = repo.func(q)
        ctx.analysed(q)
        res = Resolver(f.node)
        fl = Flow(f.node, resolver=res).run()
        k = 0
        for n in own_nodes(repo, f):
            if not (isinstance(n, ast.Call) and isinstance(n.func, ast.Name) and n.func.id in ("int", "float") and n.args):
                continue
            arg = n.args[0]
            at = ast.unparse(arg)
            if isinstance(arg, ast.Constant):
                continue
            src_txt = at
            if isinstance(arg, ast.Name):
                # nearest preceding assignment of the converted local in the same or an enclosing block
                from .c04 import _reaching
                v = _reaching(repo, f.node, arg.id, n)
                if v is not None:
                    src_txt = ast.unparse(v)
            if only_symbol_values and not any(mk in at or mk in src_txt for mk in SYMBOL_VALUE_MARKS) and not (isinstance(arg, ast.Name) and arg.id in validated_params):
                continue
            k += 1
            construct = f"{f.short}/{n.func.id}({at[:30]}{', ' + ast.unparse(n.args[1]) if len(n.args) > 1 else ''}) #{k} is a checked conversion"
            if exempt_funcs and f.short in exempt_funcs:
                ctx.exempt(construct, exempt_funcs[f.short], f.loc(n))
                continue
            if any(s in at or s in src_txt for s in exempt_sources):
                ctx.ok(construct, f.loc(n), by="validated when stored")
                continue
            if isinstance(arg, ast.Name) and arg.id in validated_params and _validated_by_early_try(repo, f, arg.id, n):
                ctx.ok(construct, f.loc(n), by="same text already converted in a try whose ValueError handler leaves the function")
                continue
            gs = fl.guards_at(n) or set()
            # the validity fact must be about the converted text itself (or its stripped copy: int() / float() ignore surrounding
            # blanks) - a fact about another text of the same function validates nothing here
            forms = {at, src_txt, ast.unparse(res.resolve(arg))}
            try:
                forms.add(expand_locals(f.node, arg))
            except Exception:
                pass
            # a value derived from the validated text without changing whether it converts: `_normalize_float(x)`, `x.strip()`, `str(x)`
            for x in list(forms):
                try:
                    e_ = ast.parse(x, mode="eval").body
                except SyntaxError:
                    continue
                while isinstance(e_, ast.Call) and ((isinstance(e_.func, ast.Name) and e_.func.id in ("_normalize_float", "str") and len(e_.args) == 1) or
                                                   (isinstance(e_.func, ast.Attribute) and e_.func.attr in ("strip", "lower", "upper") and not e_.args)):
                    e_ = e_.args[0] if isinstance(e_.func, ast.Name) else e_.func.value
                    forms.add(ast.unparse(e_))
            forms |= {f"{x}.strip()" for x in list(forms)}

            def _about_arg(key: str) -> bool:
                try:
                    e = ast.parse(key, mode="eval").body
                except SyntaxError:
                    return False
                if not (isinstance(e, ast.Call) and e.args):
                    return False
                cand = {ast.unparse(e.args[0])}
                try:
                    cand.add(expand_locals(f.node, e.args[0]))
                except Exception:
                    pass
                return bool(cand & forms)
            guarded = any(p and k2.startswith(VALIDATORS) and _about_arg(k2) for k2, p in gs)
            # consumers of an *evaluated* numeric value: it is a number of its type or empty, so a non-empty test is the guard
            if isinstance(arg, ast.Name) and src_txt.endswith(".str_value"):
                # ... of the symbol whose numeric type the branch has established (a bound or a `set` value may be any symbol)
                recvs = {src_txt[:-len(".str_value")], ast.unparse(res.resolve(ast.parse(src_txt, mode="eval").body))[:-len(".str_value")]}
                typed = any(p and any(k2.startswith((f"{rv}.type ==", f"{rv}.orig_type ==", f"{rv}.type in", f"{rv}.orig_type in")) for rv in recvs) for k2, p in gs)
                forms = {arg.id, ast.unparse(res.resolve(arg))}
                if typed and any((v, True) in gs or any(k2.startswith(f"not {v} and ") and not p for k2, p in gs) for v in forms):
                    guarded = True
            # value derived from a validated one in the same block: `val = x.name` / `_normalize_float(x.name)` under the guard
            tried = False
            p = repo.parent(n)
            child: ast.AST = n
            while p is not None and p is not f.node:
                if isinstance(p, ast.Try) and any(child is b or any(child is y for y in ast.walk(b)) for b in p.body):
                    if any(h.type is None or any(t in ast.unparse(h.type) for t in ("ValueError", "Exception")) for h in p.handlers):
                        tried = True
                child = p
                p = repo.parent(p)
            if guarded or tried:
                ctx.ok(construct, f.loc(n), by="validity guard" if guarded else "try/except ValueError")
            else:
                ctx.bad(construct, f"`{ast.unparse(n)}` converts a symbol value that no `_is_base_n`/`is_float` test (and no ValueError handler) "
                        "covers: a non-numeric value (a symbol bound, a string, an empty value) raises ValueError out of the evaluator", f.loc(n))


def _validated_by_early_try(repo, f, name: str, site: ast.AST) -> bool:
    """an earlier top-level `try` converts `name` with the same builtin and its ValueError handler ends with return/raise"""
    for st in f.node.body:
        if any(x is site for x in ast.walk(st)):
            return False
        if isinstance(st, ast.Try) and any(isinstance(c, ast.Call) and isinstance(c.func, ast.Name) and c.func.id in ("int", "float") and c.args
                                            and isinstance(c.args[0], ast.Name) and c.args[0].id == name for b in st.body for c in ast.walk(b)):
            if any((h.type is None or "ValueError" in ast.unparse(h.type) or "Exception" in ast.unparse(h.type))
                   and h.body and isinstance(h.body[-1], (ast.Return, ast.Raise)) for h in st.handlers):
                return True
    return False


# --------------------------------------------------------------------------- statement order among top-level blocks
def toplevel_order(fn: ast.FunctionDef, pred) -> List[Tuple[int, ast.stmt]]:
    return [(i, s) for i, s in enumerate(fn.body) if pred(s)]


def collected_components(ctx, quals: Iterable[str], sink_prefixes: Tuple[str, ...], why: str):
    """In collector functions every component unpacked from a property list reaches the collecting sink (res.add(v),
    res |= expr_items(v), ...) - being mentioned in a test is not enough."""
    repo = ctx.repo
    for q in quals:
        f = repo.func(q)
        ctx.analysed(q)
        for lp in own_nodes(repo, f):
            if not isinstance(lp, ast.For):
                continue
            names = [t.id for t in ast.walk(lp.target) if isinstance(t, ast.Name) and not t.id.startswith("_")]
            if not names:
                continue
            sunk: Set[str] = set()
            for x in ast.walk(lp):
                if isinstance(x, ast.Call) and ast.unparse(x.func).startswith(sink_prefixes):
                    for a in x.args:
                        sunk |= {y.id for y in ast.walk(a) if isinstance(y, ast.Name)}
                if isinstance(x, ast.AugAssign):
                    sunk |= {y.id for y in ast.walk(x.value) if isinstance(y, ast.Name)}
            missing = [nm for nm in names if nm not in sunk]
            construct = f"{f.short}/every component of `{ast.unparse(lp.iter)[:40]}` is collected"
            if missing:
                ctx.bad(construct, f"`{', '.join(missing)}` is unpacked but never added to the collected set: {why}", f.loc(lp))
            else:
                ctx.ok(construct, f.loc(lp), components=names)


# --------------------------------------------------------------------------- delegation with a filter
def delegate(ctx, rule_fn, keep):
    """run another property's rule inside the current rule and keep only the instances `keep(construct)` accepts"""
    before = len(ctx.instances)
    rule_fn(ctx)
    kept = [i for i in ctx.instances[before:] if keep(i.construct)]
    dropped = {i.construct for i in ctx.instances[before:]} - {i.construct for i in kept}
    ctx.instances[before:] = kept
    ctx.findings[:] = [f for f in ctx.findings if not (f.rule == ctx._rule and f.construct in dropped)]


# --------------------------------------------------------------------------- numeric bases
def no_autodetected_base(ctx, modnames: Iterable[str], why: str):
    """Every two-argument int(text, base) in the given modules names its base (10, 16, a type->base table lookup or a
    local holding one): base 0 lets the *spelling* pick the base, but a hex option's value is base 16 whether or not it
    carries the 0x prefix (set_value / the loader accept `1f` and `10` for a hex option) and an int value may have leading
    zeros, which base 0 rejects."""
    repo = ctx.repo
    for m in modnames:
        for f in repo.funcs_in(m):
            k = 0
            for n in own_nodes(repo, f):
                if isinstance(n, ast.Call) and isinstance(n.func, ast.Name) and n.func.id == "int" and len(n.args) + len(n.keywords) == 2:
                    b = n.args[1] if len(n.args) == 2 else n.keywords[0].value
                    k += 1
                    construct = f"{f.short}/int({ast.unparse(n.args[0])[:30]}, <base>) #{k} names its base"
                    if isinstance(b, ast.Constant) and b.value == 0:
                        ctx.bad(construct, f"`{ast.unparse(n)}` lets the spelling pick the base: {why}", f.loc(n))
                    else:
                        ctx.ok(construct, f.loc(n), base=ast.unparse(b), nontrivial=False)


# --------------------------------------------------------------------------- record text is cut on "\n" only
SPLITLINES_EXEMPT = {
    # (function short name, receiver text): reason
    ("MenuNode._sym_choice_node_str", "self.help"): "help text re-indented for display; not a record format",
    ("MenuNode.custom_str", "self.help"): "help text re-indented for display; not a record format",
    ("_shell_fn", "stderr"): "output of a $(shell ...) command, joined again for an error message",
    ("_shell_fn", "stdout"): "output of a $(shell ...) command: universal newlines folded into blanks by design",
}


def no_splitlines(ctx, modnames: Iterable[str], why: str):
    """Line-oriented text (sdkconfig records, auto.conf, Kconfig source lines, rename files) is cut into lines by file
    iteration or split("\\n") - never by str.splitlines(), which also cuts on \\x0b \\x0c \\x1c-\\x1e \\x85 U+2028 U+2029
    (all of which may occur inside a quoted string value, a prompt or a help text and are written verbatim)."""
    repo = ctx.repo
    for m in modnames:
        for f in repo.funcs_in(m):
            calls = [n for n in own_nodes(repo, f) if isinstance(n, ast.Call) and isinstance(n.func, ast.Attribute) and n.func.attr == "splitlines"]
            for n in calls:
                recv = ast.unparse(n.func.value)
                construct = f"{f.short}/`{recv[:40]}` is not cut with str.splitlines()"
                if (f.short, recv) in SPLITLINES_EXEMPT:
                    ctx.exempt(construct, SPLITLINES_EXEMPT[(f.short, recv)], f.loc(n))
                else:
                    ctx.bad(construct, f"`{ast.unparse(n)[:60]}`: {why}", f.loc(n))


# --------------------------------------------------------------------------- hex prefix tests cover both spellings
def hex_prefix_both_cases(ctx, modnames: Iterable[str]):
    """Every test for the hexadecimal prefix accepts `0x` and `0X`: values are validated with int(v, 16), which takes
    either, so an emitter / input filter that only knows the lower-case prefix prepends a second prefix to `0XAB`."""
    repo = ctx.repo
    for m in modnames:
        for f in repo.funcs_in(m):
            k = 0
            for n in own_nodes(repo, f):
                if not (isinstance(n, ast.Call) and isinstance(n.func, ast.Attribute) and n.func.attr == "startswith" and n.args):
                    continue
                a = n.args[0]
                lits = [e.value for e in (a.elts if isinstance(a, ast.Tuple) else [a]) if isinstance(e, ast.Constant) and isinstance(e.value, str)]
                if not any(x.lower() == "0x" for x in lits):
                    continue
                k += 1
                construct = f"{f.short}/hex prefix test #{k} accepts 0x and 0X"
                if {"0x", "0X"} <= set(lits):
                    ctx.ok(construct, f.loc(n), nontrivial=False)
                else:
                    ctx.bad(construct, f"`{ast.unparse(n)}` knows one spelling only: `0XAB` (accepted by the validators) is taken for prefix-less", f.loc(n))


# --------------------------------------------------------------------------- push / pop balance
def stack_balance(ctx, quals: Iterable[str]):
    """In the given functions every `<x>_stack.append(..)` has its `.pop()` at the same loop nesting (and vice versa): a push
    hoisted out of the loop whose body pops (or the reverse) leaves the stack one entry short / long per extra iteration."""
    repo = ctx.repo
    for q in quals:
        f = repo.func(q)
        ctx.analysed(q)
        ops: Dict[str, Dict[str, List[Optional[ast.AST]]]] = {}
        for n in own_nodes(repo, f):
            if isinstance(n, ast.Call) and isinstance(n.func, ast.Attribute) and n.func.attr in ("append", "pop") \
                    and ast.unparse(n.func.value).endswith("_stack"):
                loop = None
                p = repo.parent(n)
                while p is not None and p is not f.node:
                    if isinstance(p, (ast.For, ast.While)):
                        loop = p
                        break
                    p = repo.parent(p)
                ops.setdefault(ast.unparse(n.func.value), {"append": [], "pop": []})[n.func.attr].append(loop)
        for name, d in sorted(ops.items()):
            if not d["append"] or not d["pop"]:
                continue  # pushed here, popped by a sibling method: not a per-function pairing
            construct = f"{f.short}/{name}: pushes and pops are paired at the same loop nesting"
            a = sorted(id(x) for x in d["append"])
            b = sorted(id(x) for x in d["pop"])
            if a == b:
                ctx.ok(construct, f.loc(), pushes=len(a), pops=len(b))
            else:
                ctx.bad(construct, f"{len(d['append'])} push(es) and {len(d['pop'])} pop(s) sit at different loop levels: the stack is unbalanced "
                        "as soon as the loop runs more or less than once", f.loc())


# --------------------------------------------------------------------------- index of an element found in a slice
def _linear(e: ast.AST, sign: int = 1, out: Optional[Dict[str, int]] = None) -> Optional[Dict[str, int]]:
    out = {} if out is None else out
    if isinstance(e, ast.BinOp) and isinstance(e.op, (ast.Add, ast.Sub)):
        if _linear(e.left, sign, out) is None:
            return None
        return _linear(e.right, sign if isinstance(e.op, ast.Add) else -sign, out)
    if isinstance(e, ast.Constant) and isinstance(e.value, int):
        out["1"] = out.get("1", 0) + sign * e.value
        return out
    if isinstance(e, (ast.Name, ast.Attribute)):
        k = ast.unparse(e)
        out[k] = out.get(k, 0) + sign
        return out
    return None


def slice_enumerate_offset(ctx, quals: Iterable[str]):
    """`for i, x in enumerate(seq[lo:], start=s)`: an index handed out of the loop (returned) refers to `seq`, so it must be
    i + lo - s; anything else points `lo - s` elements away from the element that was found."""
    repo = ctx.repo
    for q in quals:
        f = repo.func(q)
        ctx.analysed(q)
        for lp in own_nodes(repo, f):
            if not (isinstance(lp, ast.For) and isinstance(lp.iter, ast.Call) and ast.unparse(lp.iter.func) == "enumerate" and lp.iter.args):
                continue
            seq = lp.iter.args[0]
            if not (isinstance(seq, ast.Subscript) and isinstance(seq.slice, ast.Slice) and seq.slice.lower is not None and seq.slice.step is None):
                continue
            start = lp.iter.args[1] if len(lp.iter.args) > 1 else next((k.value for k in lp.iter.keywords if k.arg == "start"), ast.Constant(0))
            idx = lp.target.elts[0].id if isinstance(lp.target, ast.Tuple) and isinstance(lp.target.elts[0], ast.Name) else None
            if idx is None:
                continue
            want = _linear(ast.BinOp(left=ast.BinOp(left=ast.Name(id=idx), op=ast.Add(), right=seq.slice.lower), op=ast.Sub(), right=start))
            for r in ast.walk(lp):
                if isinstance(r, ast.Return) and r.value is not None and any(isinstance(x, ast.Name) and x.id == idx for x in ast.walk(r.value)):
                    got = _linear(r.value)
                    construct = f"{f.short}/index found in `{ast.unparse(seq)}` is returned as an index of `{ast.unparse(seq.value)}`"
                    norm = lambda d: {k: v for k, v in (d or {}).items() if v}
                    if want is not None and got is not None and norm(want) == norm(got):
                        ctx.ok(construct, f.loc(r), returned=ast.unparse(r.value))
                    else:
                        ctx.bad(construct, f"returns `{ast.unparse(r.value)}` where `{idx} + ({ast.unparse(seq.slice.lower)}) - ({ast.unparse(start)})` "
                                "is the position in the unsliced list", f.loc(r))


# --------------------------------------------------------------------------- errors are not swallowed
def no_swallowed_errors(ctx, quals: Iterable[str], classes: Tuple[str, ...], why: str, allow=()):
    """In the given functions no handler catches one of `classes` (or a base of it) and carries on: the handler re-raises,
    raises another error, or ends the function with a failure result. `allow` lists (function, first statement of the try
    body) pairs confirmed by reading."""
    repo = ctx.repo
    bases = set(classes) | {"Exception", "BaseException", "EnvironmentError", "IOError"} if "OSError" in classes else set(classes) | {"Exception", "BaseException"}
    for q in quals:
        f = repo.func(q)
        ctx.analysed(q)
        k = 0
        for t in own_nodes(repo, f):
            if not isinstance(t, ast.Try):
                continue
            for h in t.handlers:
                names = {"<bare>"} if h.type is None else {ast.unparse(x).split(".")[-1] for x in (h.type.elts if isinstance(h.type, ast.Tuple) else [h.type])}
                if h.type is not None and not (names & bases):
                    continue
                k += 1
                first = ast.unparse(t.body[0])[:50]
                construct = f"{f.short}/handler of `{first}` does not swallow {'/'.join(sorted(names))}"
                leaves = any(isinstance(x, ast.Raise) for x in ast.walk(h)) or (h.body and isinstance(h.body[-1], (ast.Return, ast.Continue, ast.Break)))
                if leaves or (f.short, first) in allow:
                    ctx.ok(construct, f.loc(h), nontrivial=False)
                else:
                    ctx.bad(construct, f"the handler logs / ignores the error and execution continues: {why}", f.loc(h))


# --------------------------------------------------------------------------- names that must keep their original value
def not_rebound(ctx, qual: str, names: Iterable[str], why: str, until: Optional[str] = None):
    """The named parameters / locals of the function are bound once (parameters: never re-assigned): later code relies on
    the value as it arrived."""
    repo = ctx.repo
    f = repo.func(qual)
    ctx.analysed(qual)
    params = {a.arg for a in f.node.args.args + f.node.args.kwonlyargs}
    for nm in names:
        stores = [n for n in own_nodes(repo, f) if isinstance(n, ast.Name) and n.id == nm and isinstance(n.ctx, ast.Store)]
        limit = 0 if nm in params else 1
        construct = f"{f.short}/`{nm}` keeps the value it {'arrived with' if nm in params else 'was first given'}"
        if len(stores) > limit:
            extra = stores[limit]
            ctx.bad(construct, f"`{nm}` is re-assigned at line {extra.lineno}: {why}", f.loc(extra))
        else:
            ctx.ok(construct, f.loc(), nontrivial=False)


# --------------------------------------------------------------------------- Symbol | Choice attribute discipline
def union_attr_lint(ctx, sites: Iterable[Tuple[str, str]], classes=("Symbol", "Choice"), module="esp_kconfiglib.core"):
    """A variable that may hold a Symbol or a Choice is only asked for attributes both classes have, unless a type test on
    that variable guards the access (the classes use __slots__: a missing attribute is an AttributeError)."""
    repo = ctx.repo
    members: Dict[str, Set[str]] = {}
    for c in classes:
        cls = repo.cls(f"{module}:{c}")
        ms: Set[str] = set()
        for st in cls.body:
            if isinstance(st, (ast.FunctionDef, ast.AsyncFunctionDef)):
                ms.add(st.name)
            elif isinstance(st, ast.Assign) and any(isinstance(t, ast.Name) and t.id == "__slots__" for t in st.targets):
                ms |= {e.value for e in ast.walk(st.value) if isinstance(e, ast.Constant) and isinstance(e.value, str)}
            elif isinstance(st, ast.Assign):
                ms |= {t.id for t in st.targets if isinstance(t, ast.Name)}
            elif isinstance(st, ast.AnnAssign) and isinstance(st.target, ast.Name):
                ms.add(st.target.id)
        members[c] = ms
    common = set.intersection(*members.values()) | {"__class__"}
    for q, var in sites:
        f = repo.func(q)
        ctx.analysed(q)
        res = Resolver(f.node)
        fl = Flow(f.node, resolver=res).run()
        forms = {var, ast.unparse(res.resolve(ast.Name(id=var, ctx=ast.Load())))}
        k = 0
        for n in own_nodes(repo, f):
            if not (isinstance(n, ast.Attribute) and isinstance(n.value, ast.Name) and n.value.id == var):
                continue
            if n.attr in common:
                continue
            k += 1
            owners = [c for c in classes if n.attr in members[c]]
            construct = f"{f.short}/{var}.{n.attr} #{k} read only where `{var}` is known to be a {' or '.join(owners) or '?'}"
            gs = fl.guards_at(n) or set()
            typed = any((f"type({v})" in key or f"isinstance({v}," in key or f"{v}.__class__" in key) for key, pol in gs for v in forms)
            if typed:
                ctx.ok(construct, f.loc(n))
            else:
                ctx.bad(construct, f"`{var}` may be a {' or a '.join(c for c in classes if c not in owners)}, which has no attribute `{n.attr}` "
                        f"(__slots__): AttributeError; guards here: {sorted(gs)[:4]}", f.loc(n))


# --------------------------------------------------------------------------- the float validator
_CHARCLASS = {"isalpha", "isdigit", "isdecimal", "isnumeric", "isalnum", "isascii"}


def float_validator_shape(ctx, core="esp_kconfiglib.core"):
    """is_float() decides by float() and math.isfinite() alone: (a) the argument is converted with float() and the result is
    tested with math.isfinite() - a literal such as 1e999 parses but overflows to inf, which no generator can emit as a
    number; (b) no character-class test (isalpha/isdigit/..., or a regular expression without an exponent part) rejects
    the text first - the writer's normaliser str(float(x)) produces exponent notation (1e-05, 1e+16), which must be
    accepted again on reload."""
    repo = ctx.repo
    f = repo.func(f"{core}:is_float")
    ctx.analysed(f.qual)
    param = f.node.args.args[0].arg
    conv = [n for n in ast.walk(f.node) if isinstance(n, ast.Call) and isinstance(n.func, ast.Name) and n.func.id == "float" and n.args
            and param in {x.id for x in ast.walk(n.args[0]) if isinstance(x, ast.Name)}]
    fin = [n for n in ast.walk(f.node) if isinstance(n, ast.Call) and ast.unparse(n.func) in ("math.isfinite", "isfinite")]
    construct = "is_float/finite after float(): overflowing literals are rejected"
    if conv and fin:
        ctx.ok(construct, f.loc(fin[0]))
    else:
        ctx.bad(construct, "the value is not converted with float() and tested with math.isfinite(): `1e999` is accepted and becomes inf "
                "(JSON `Infinity`, `CONFIG_X=inf`)", f.loc())
    construct = "is_float/no character-class rejection (exponent notation stays valid)"
    cc = [n for n in ast.walk(f.node) if isinstance(n, ast.Attribute) and n.attr in _CHARCLASS]
    rx = [n for n in ast.walk(f.node) if isinstance(n, ast.Call) and (ast.unparse(n.func).startswith("re.") or ast.unparse(n.func).endswith(("_match", ".match", ".fullmatch", ".search")))]
    msgs = []
    if cc:
        msgs.append(f"`.{cc[0].attr}()` on the text rejects the `e` of 1e-05")
    for r in rx:
        pat = None
        for a in ast.walk(r):
            if isinstance(a, ast.Constant) and isinstance(a.value, str):
                pat = a.value
        if pat is None:
            nm = ast.unparse(r.func).split(".")[0]
            c = repo.resolve_const(core, nm)
            pat = next((x.value for x in ast.walk(c) if isinstance(x, ast.Constant) and isinstance(x.value, str)), None) if c is not None else None
        if pat is None or not ("e" in pat.lower().replace("\\d", "")):
            msgs.append(f"regular expression `{pat}` has no exponent part")
    (ctx.bad(construct, "; ".join(msgs) + ": a value the normaliser wrote (str(float(x))) is refused on reload", f.loc(cc[0] if cc else rx[0]))
     if msgs else ctx.ok(construct, f.loc(), nontrivial=False))


# --------------------------------------------------------------------------- iterative tree walks visit every node
def tree_walk_complete(ctx, quals: Iterable[str], why: str):
    """In an iterative menu-tree walk the step into the children (`node = node.list`) depends on nothing but the presence
    of children: a walk that skips the subtree of some nodes no longer sees the symbols defined below them, although a
    symbol below an invisible menu can still have a value (select / imply / set from outside)."""
    repo = ctx.repo
    for q in quals:
        f = repo.func(q)
        ctx.analysed(q)
        fl = Flow(f.node, resolver=Resolver(f.node)).run()
        steps = [n for n in own_nodes(repo, f) if isinstance(n, ast.Assign) and isinstance(n.targets[0], ast.Name)
                 and ast.unparse(n.value) == f"{n.targets[0].id}.list"]
        for i, n in enumerate(steps):
            v = n.targets[0].id
            construct = f"{f.short}/descent `{v} = {v}.list` #{i + 1} depends only on the presence of children"
            extra = sorted((k, p) for k, p in (fl.guards_at(n) or set()) if (k != f"{v}.list" or not p) and v in k.replace(f"{v}.list", ""))
            if extra:
                ctx.bad(construct, f"the walk descends only under {extra}: {why}", f.loc(n))
            else:
                ctx.ok(construct, f.loc(n))


# --------------------------------------------------------------------------- number formatters get numbers
def formatter_args_are_numbers(ctx, quals: Iterable[str]):
    """hex() - directly or through a local alias such as `num2str = str if base == 10 else hex` - is only applied to locals
    that hold an int on every assignment (int(..) conversions, int constants, conditional expressions / copies of such):
    hex(<Symbol>) or hex(<str>) is a TypeError at evaluation time."""
    repo = ctx.repo
    for q in quals:
        f = repo.func(q)
        ctx.analysed(q)
        aliases = {"hex"}
        for n in own_nodes(repo, f):
            if isinstance(n, ast.Assign) and isinstance(n.targets[0], ast.Name) and any(isinstance(x, ast.Name) and x.id == "hex" for x in ast.walk(n.value)) \
                    and not any(isinstance(x, ast.Call) for x in ast.walk(n.value)):
                aliases.add(n.targets[0].id)
        defs: Dict[str, List[ast.AST]] = {}
        for n in own_nodes(repo, f):
            if isinstance(n, ast.Assign):
                for t in n.targets:
                    if isinstance(t, ast.Name):
                        defs.setdefault(t.id, []).append(n.value)
            elif isinstance(n, (ast.For, ast.comprehension)):
                for t in ast.walk(n.target):
                    if isinstance(t, ast.Name):
                        defs.setdefault(t.id, []).append(ast.Name(id="<loop item>", ctx=ast.Load()))

        def is_int(e: ast.AST, depth: int = 4) -> bool:
            if isinstance(e, ast.Constant):
                return isinstance(e.value, int) and not isinstance(e.value, bool)
            if isinstance(e, ast.Call) and isinstance(e.func, ast.Name) and e.func.id in ("int", "len", "min", "max", "abs"):
                return e.func.id in ("int", "len") or all(is_int(a, depth) for a in e.args)
            if isinstance(e, ast.IfExp):
                return is_int(e.body, depth) and is_int(e.orelse, depth)
            if isinstance(e, ast.BinOp) and isinstance(e.op, (ast.Add, ast.Sub, ast.Mult, ast.FloorDiv, ast.Mod)):
                return is_int(e.left, depth) and is_int(e.right, depth)
            if isinstance(e, ast.Name) and depth > 0:
                return e.id in defs and all(is_int(v, depth - 1) for v in defs[e.id])
            return False

        fl = Flow(f.node, resolver=Resolver(f.node)).run()
        k = 0
        for n in own_nodes(repo, f):
            if isinstance(n, ast.Call) and isinstance(n.func, ast.Name) and n.func.id in aliases and n.args:
                k += 1
                construct = f"{f.short}/{n.func.id}({ast.unparse(n.args[0])[:30]}) #{k} formats an integer"
                a0 = n.args[0]
                ok = is_int(a0)
                if not ok and isinstance(a0, ast.Name) and (f"{a0.id} is None", False) in (fl.guards_at(n) or set()):
                    # `x = None` initialisation ruled out by the dominating `x is not None`
                    def int_or_none(v):
                        if isinstance(v, ast.IfExp):
                            return int_or_none(v.body) and int_or_none(v.orelse)
                        return is_int(v) or (isinstance(v, ast.Constant) and v.value is None)
                    ok = a0.id in defs and all(int_or_none(v) for v in defs[a0.id])
                (ctx.ok(construct, f.loc(n), nontrivial=False) if ok else
                 ctx.bad(construct, f"`{ast.unparse(n)}`: the argument is not an integer on every path (it is bound from "
                         f"{[ast.unparse(v)[:30] for v in defs.get(getattr(n.args[0], 'id', ''), [])][:3] or 'a non-local expression'}): hex() of a Symbol or a "
                         "string raises TypeError while the value is being evaluated", f.loc(n)))


# --------------------------------------------------------------------------- an optional field is used as a value only when present
def optional_field_guarded(ctx, modnames: Iterable[str], field: str = "_user_value"):
    """`X.<field>` is None while no user value exists. Wherever it is used as something None cannot be - a key of the
    bool<->str tables, an argument of int()/float()/min()/max() - a presence test of the same `X.<field>` dominates the
    use, in the function itself or, for a helper that receives X, at every call site of the helper."""
    from ..callgraph import CallGraph
    repo = ctx.repo
    cg = None
    for m in modnames:
        if m not in repo.modules:
            continue
        for f in repo.funcs_in(m):
            uses = []
            for n in own_nodes(repo, f):
                tgt = None
                if isinstance(n, ast.Subscript) and isinstance(n.slice, ast.Attribute) and n.slice.attr == field and "BOOL_TO_STR" in ast.unparse(n.value).upper():
                    tgt = n.slice
                elif isinstance(n, ast.Call) and isinstance(n.func, ast.Name) and n.func.id in ("int", "float", "min", "max"):
                    for a in n.args:
                        if isinstance(a, ast.Attribute) and a.attr == field:
                            tgt = a
                if tgt is not None:
                    uses.append((n, tgt))
            if not uses:
                continue
            ctx.analysed(f.qual)
            res = Resolver(f.node)
            fl = Flow(f.node, resolver=res).run()
            for i, (n, tgt) in enumerate(uses):
                recv = ast.unparse(tgt.value)
                forms = {ast.unparse(tgt), ast.unparse(res.resolve(tgt))}
                construct = f"{f.short}/{ast.unparse(n)[:40]} #{i + 1}: `{recv}.{field}` is present"
                gs = fl.guards_at(n) or set()

                def present(gset, fs):
                    return any((f"{x} is None", False) in gset or (x, True) in gset or (f"{x} in bool_to_str", True) in gset for x in fs)

                if present(gs, forms):
                    ctx.ok(construct, f.loc(n))
                    continue
                # helper receiving X: every caller guards the argument's field
                params = [a.arg for a in f.node.args.args]
                if isinstance(tgt.value, ast.Name) and tgt.value.id in params:
                    cg = cg or CallGraph(repo)
                    pos = params.index(tgt.value.id) - (1 if params and params[0] == "self" else 0)
                    callers = cg.callers(f.qual, weak=True)
                    unguarded = []
                    for caller, call in callers:
                        if pos >= len(call.args):
                            unguarded.append(caller.loc(call))
                            continue
                        a = call.args[pos]
                        cres = Resolver(caller.node)
                        cfl = Flow(caller.node, resolver=cres).run()
                        afield = ast.Attribute(value=a, attr=field, ctx=ast.Load())
                        if not present(cfl.guards_at(call) or set(), {ast.unparse(afield), ast.unparse(cres.resolve(afield))}):
                            unguarded.append(caller.loc(call))
                    if callers and not unguarded:
                        ctx.ok(construct, f.loc(n), guarded_by="every call site", callers=len(callers))
                        continue
                    ctx.bad(construct, f"no presence test here, and the call site(s) {unguarded or '(none found)'} pass a symbol whose `{field}` may be None "
                            f"(e.g. after unset_value() / a reset): `{ast.unparse(n)[:50]}` raises KeyError / TypeError", f.loc(n))
                else:
                    ctx.bad(construct, f"`{ast.unparse(tgt)}` may be None here (guards: {sorted(gs)[:4]})", f.loc(n))


# --------------------------------------------------------------------------- generated text does not depend on hashing
def no_unordered_iteration(ctx, modnames: Iterable[str], why: str):
    """No method iterates a set-valued attribute of its own object directly (`for x in self.<set>`): set order follows
    string hashing and differs from run to run, and whatever is printed, logged or serialised in that loop comes out in
    another order each time. Iteration goes through sorted(...). A set attribute is one that some method of the class
    binds to `set()`, a set display / comprehension, or annotates as Set[...]."""
    repo = ctx.repo
    for m in modnames:
        if m not in repo.modules:
            continue
        for cq, cls in sorted(repo.classes.items()):
            if not cq.startswith(m + ":"):
                continue
            set_attrs: Set[str] = set()
            for n in ast.walk(cls):
                tgt, val, ann = None, None, None
                if isinstance(n, ast.Assign) and len(n.targets) == 1:
                    tgt, val = n.targets[0], n.value
                elif isinstance(n, ast.AnnAssign):
                    tgt, val, ann = n.target, n.value, n.annotation
                if isinstance(tgt, ast.Attribute) and isinstance(tgt.value, ast.Name) and tgt.value.id == "self":
                    is_set = (isinstance(val, ast.Call) and isinstance(val.func, ast.Name) and val.func.id in ("set", "frozenset")) or isinstance(val, (ast.Set, ast.SetComp)) \
                        or (ann is not None and ast.unparse(ann).lstrip('"\'').startswith(("Set[", "set[", "typing.Set[", "FrozenSet[")))
                    if is_set:
                        set_attrs.add(tgt.attr)
            if not set_attrs:
                continue
            for meth in [x for x in cls.body if isinstance(x, (ast.FunctionDef, ast.AsyncFunctionDef))]:
                for lp in ast.walk(meth):
                    its = []
                    if isinstance(lp, ast.For):
                        its = [lp.iter]
                    elif isinstance(lp, (ast.ListComp, ast.GeneratorExp, ast.DictComp)):
                        its = [g.iter for g in lp.generators]
                    for it in its:
                        if isinstance(it, ast.Attribute) and isinstance(it.value, ast.Name) and it.value.id == "self" and it.attr in set_attrs:
                            construct = f"{cq.split(':')[1]}.{meth.name}/iteration over the set self.{it.attr} is ordered"
                            ctx.bad(construct, f"`for ... in self.{it.attr}` follows hash order: {why}", f"{repo.modules[m].relpath}:{it.lineno}")
                        elif isinstance(it, ast.Call) and isinstance(it.func, ast.Name) and it.func.id == "sorted" and it.args and isinstance(it.args[0], ast.Attribute) \
                                and isinstance(it.args[0].value, ast.Name) and it.args[0].value.id == "self" and it.args[0].attr in set_attrs:
                            ctx.ok(f"{cq.split(':')[1]}.{meth.name}/iteration over the set self.{it.args[0].attr} is ordered", f"{repo.modules[m].relpath}:{it.lineno}", nontrivial=False)


from ..provenance import parse_key  # noqa: E402,F401


FIVE_TYPES = ("BOOL", "STRING", "INT", "HEX", "FLOAT")


def type_atom_truth(repo, modname: str, atom: str, ty: str, attr: str = "orig_type") -> Optional[bool]:
    """truth of an atomic type test (`x.orig_type == INT`, `is HEX`, `!= BOOL`, `in (INT, HEX)`, `in _INT_HEX`, ...) for a
    symbol of type `ty`; None when the atom is not a type test. Constants naming type sets are resolved in `modname`."""
    e = parse_key(atom)
    if not (isinstance(e, ast.Compare) and len(e.ops) == 1):
        return None
    left = e.left
    if not ((isinstance(left, ast.Attribute) and left.attr in (attr, "type", "orig_type")) or (isinstance(left, ast.Name) and left.id in (attr, "type", "orig_type"))):
        return None
    names: Set[str] = set()
    for x in ast.walk(e.comparators[0]):
        if isinstance(x, ast.Attribute) and x.attr in FIVE_TYPES:
            names.add(x.attr)
        elif isinstance(x, ast.Attribute) and isinstance(x.value, ast.Name) and x.value.id in ("kconfiglib", "core"):
            v = repo.resolve_const("esp_kconfiglib.core", x.attr)
            if v is None:
                return None
            names |= {y.id for y in ast.walk(v) if isinstance(y, ast.Name) and y.id in FIVE_TYPES}
        elif isinstance(x, ast.Name):
            if x.id in FIVE_TYPES:
                names.add(x.id)
            elif x.id not in ("kconfiglib", "core"):
                v = repo.resolve_const(modname, x.id)
                if v is None:
                    return None
                names |= {y.id for y in ast.walk(v) if isinstance(y, ast.Name) and y.id in FIVE_TYPES}
    if not names:
        return None
    hit = ty in names
    return hit if isinstance(e.ops[0], (ast.Eq, ast.Is, ast.In)) else (not hit)


# --------------------------------------------------------------------------- what a predicate function accepts
class AcceptCondition:
    """The condition under which a predicate function returns a truthy value, as a function of the atomic tests it makes -
    independent of whether it is written as one boolean expression, as guard clauses with early returns, or as an if/elif
    chain. atoms: canonical texts of the leaves (comparisons, calls, names); accept(v): truth of the result under the
    valuation v (dict atom -> bool). Leaves are opaque: relations between them (two different type tests cannot both hold)
    are the caller's business."""

    def __init__(self, fn: ast.AST):
        from ..flow import canon_atom
        self.res = Resolver(fn)
        self.fl = Flow(fn, resolver=self.res).run()
        self._canon = canon_atom
        self.rets: List[Tuple[Set[Tuple[str, bool]], Optional[ast.AST]]] = []
        for n in ast.walk(fn):
            if isinstance(n, ast.Return):
                g = self.fl.guards_at(n)
                if g is None:
                    continue
                self.rets.append((set(g), n.value))
        self._parsed: Dict[str, ast.AST] = {}
        atoms: Set[str] = set()
        for g, e in self.rets:
            for k, _ in g:
                atoms |= self._leaves(self._parse(k))
            if e is not None:
                atoms |= self._leaves(e)
        self.atoms = sorted(atoms)

    def _parse(self, k: str) -> ast.AST:
        if k not in self._parsed:
            self._parsed[k] = parse_key(k)
        return self._parsed[k]

    def _leaf(self, e: ast.AST) -> Tuple[str, bool]:
        k, pol = self._canon(self.res, e, True)
        return k.replace("[_STAR_]", "[*]"), pol

    @staticmethod
    def _boolcmp(e: ast.AST):
        """`a == bool(b)` / `a != bool(b)` / `bool(a) != bool(b)`: (a, b, equal?) - an equivalence of two truth values"""
        if isinstance(e, ast.Compare) and len(e.ops) == 1 and isinstance(e.ops[0], (ast.Eq, ast.NotEq, ast.Is, ast.IsNot)):
            l, r = e.left, e.comparators[0]

            def strip(x):
                if isinstance(x, ast.Call) and isinstance(x.func, ast.Name) and x.func.id == "bool" and len(x.args) == 1:
                    return x.args[0], True
                return x, False
            (l2, lb), (r2, rb) = strip(l), strip(r)
            if lb or rb:
                return l2, r2, isinstance(e.ops[0], (ast.Eq, ast.Is))
        return None

    def _leaves(self, e: ast.AST) -> Set[str]:
        bc = self._boolcmp(e)
        if bc:
            return self._leaves(bc[0]) | self._leaves(bc[1])
        if isinstance(e, ast.BoolOp):
            return set().union(*[self._leaves(x) for x in e.values])
        if isinstance(e, ast.UnaryOp) and isinstance(e.op, ast.Not):
            return self._leaves(e.operand)
        if isinstance(e, ast.IfExp):
            return self._leaves(e.test) | self._leaves(e.body) | self._leaves(e.orelse)
        if isinstance(e, ast.Constant):
            return set()
        return {self._leaf(e)[0]}

    def _ev(self, e: ast.AST, v: Dict[str, bool]) -> bool:
        bc = self._boolcmp(e)
        if bc:
            return (self._ev(bc[0], v) == self._ev(bc[1], v)) == bc[2]
        if isinstance(e, ast.BoolOp):
            vals = [self._ev(x, v) for x in e.values]
            return all(vals) if isinstance(e.op, ast.And) else any(vals)
        if isinstance(e, ast.UnaryOp) and isinstance(e.op, ast.Not):
            return not self._ev(e.operand, v)
        if isinstance(e, ast.IfExp):
            return self._ev(e.body, v) if self._ev(e.test, v) else self._ev(e.orelse, v)
        if isinstance(e, ast.Constant):
            return bool(e.value)
        k, pol = self._leaf(e)
        return v[k] == pol

    def accept(self, v: Dict[str, bool]) -> bool:
        for g, e in self.rets:
            if all(self._ev(self._parse(k), v) == pol for k, pol in g):
                return self._ev(e, v) if e is not None else False
        return False

    def valuations(self, fixed: Dict[str, bool]):
        import itertools
        free = [a for a in self.atoms if a not in fixed]
        if len(free) > 14:
            raise AnalysisError(f"{len(free)} free conditions in a predicate function")
        for vals in itertools.product((True, False), repeat=len(free)):
            v = dict(fixed)
            v.update(zip(free, vals))
            yield v


# --------------------------------------------------------------------------- must-happen-before, generically
def must_precede(ctx, f: Func, is_event, sites: List[ast.AST], construct_of, why: str, body=None):
    """every site is reached only after an event statement ran on the same path (must analysis)"""
    def ev(n):
        if isinstance(n, (ast.If, ast.For, ast.While, ast.With, ast.Try)):
            return []
        return ["E"] if is_event(n) else []
    fl = Flow(f.node, resolver=Resolver(f.node), events=ev, body=body).run()
    for i, s_ in enumerate(sites):
        evs = fl.events_at(s_)
        construct = construct_of(i, s_)
        if evs is None:
            continue
        (ctx.ok(construct, f.loc(s_)) if "E" in evs else ctx.bad(construct, why, f.loc(s_)))


# --------------------------------------------------------------------------- memoised functions are pure
def memo_purity(ctx, modname: str, impure_markers: Tuple[str, ...], why: str):
    """A method that memoises its result in a dict attribute of its object (`if k in self.C: return self.C[k]` ...
    `self.C[k] = v`) must compute a function of the key: neither it nor anything it calls in the module may read the
    state named by `impure_markers` (macro table, environment), which can change between two calls with the same key."""
    from ..callgraph import CallGraph
    repo = ctx.repo
    cg = None
    n = 0
    for f in repo.funcs_in(modname):
        stores = [s for s in own_nodes(repo, f) if isinstance(s, ast.Assign) and isinstance(s.targets[0], ast.Subscript)
                  and isinstance(s.targets[0].value, ast.Attribute) and isinstance(s.targets[0].value.value, ast.Name) and s.targets[0].value.value.id == "self"]
        for s in stores:
            attr = s.targets[0].value.attr
            reads = [r for r in own_nodes(repo, f) if isinstance(r, ast.Return) and r.value is not None and isinstance(r.value, ast.Subscript)
                     and ast.unparse(r.value.value) == f"self.{attr}"]
            if not reads:
                continue
            n += 1
            cg = cg or CallGraph(repo)
            reach = cg.reachable([f.qual], weak=True)
            offenders = []
            for q in sorted(reach):
                if not q.startswith(modname + ":"):
                    continue
                src = ast.unparse(repo.funcs[q].node)
                for mk in impure_markers:
                    if mk in src:
                        offenders.append(f"{repo.funcs[q].short} reads {mk}")
            construct = f"{f.short}/memo self.{attr} caches a function of its key"
            (ctx.bad(construct, f"{'; '.join(offenders[:3])}: {why}", f.loc(s)) if offenders else ctx.ok(construct, f.loc(s)))
    return n


# --------------------------------------------------------------------------- a loop-local is bound in the iteration that uses it
def loop_locals_bound_per_iteration(ctx, qual: str, names: Optional[Iterable[str]] = None, why: str = ""):
    """In the outermost `for` loops of the function, a local that is assigned inside the loop body only on some paths and read
    later in the same iteration must have been assigned in *this* iteration on every path to the read - otherwise the read
    sees the value of an earlier iteration (or of the initialisation before the loop)."""
    repo = ctx.repo
    f = repo.func(qual)
    ctx.analysed(qual)
    for lp in [n for n in own_nodes(repo, f) if isinstance(n, ast.For)]:
        assigned = {}
        for n in ast.walk(ast.Module(body=lp.body, type_ignores=[])):
            if isinstance(n, ast.Assign):
                for t in n.targets:
                    if isinstance(t, ast.Name):
                        assigned.setdefault(t.id, []).append(n)
        aug = {n.target.id for n in ast.walk(lp) if isinstance(n, ast.AugAssign) and isinstance(n.target, ast.Name)}
        tnames = {t.id for t in ast.walk(lp.target) if isinstance(t, ast.Name)}
        for nm in sorted(assigned):
            if names is not None and nm not in set(names):
                continue
            if nm in aug or nm in tnames:
                continue
            ids = {id(a) for a in assigned[nm]}

            def ev(n, ids=ids):
                if isinstance(n, (ast.If, ast.For, ast.While, ast.With, ast.Try)):
                    return []
                return ["A"] if id(n) in ids else []
            fl = Flow(f.node, resolver=Resolver(f.node), events=ev, body=lp.body).run()
            flm = Flow(f.node, resolver=Resolver(f.node), events=ev, body=lp.body, must=False).run()
            loads = [x for x in ast.walk(ast.Module(body=lp.body, type_ignores=[])) if isinstance(x, ast.Name) and x.id == nm and isinstance(x.ctx, ast.Load)]
            # stale: in this iteration the name *may* have been assigned on the way here but need not have been - a read that
            # no assignment of the iteration can reach (top of the body) is a deliberate carry-over and not judged
            stale = [x for x in loads if fl.events_at(x) is not None and "A" not in fl.events_at(x)
                     and flm.events_at(x) is not None and "A" in flm.events_at(x)]
            construct = f"{f.short}/loop over `{ast.unparse(lp.iter)[:30]}`: `{nm}` is bound in the iteration that reads it"
            if stale:
                ctx.bad(construct, f"`{nm}` is read at line {stale[0].lineno} on a path of the loop body that has not assigned it in this iteration: "
                        f"the value of an earlier iteration is used. {why}", f.loc(stale[0]))
            else:
                ctx.ok(construct, f.loc(lp), nontrivial=False)


# --------------------------------------------------------------------------- the integer validator
def int_validator_shape(ctx, core="esp_kconfiglib.core"):
    """_is_base_n() decides by int(s, n) alone: no str character-class method answers first (isdigit() & co. accept
    superscripts, circled and non-ASCII digits that int() rejects - or the reverse - so a value the validator accepted makes
    the evaluator's own int() raise)."""
    repo = ctx.repo
    f = repo.func(f"{core}:_is_base_n")
    ctx.analysed(f.qual)
    conv = [n for n in ast.walk(f.node) if isinstance(n, ast.Call) and isinstance(n.func, ast.Name) and n.func.id == "int" and len(n.args) == 2
            and [ast.unparse(a) for a in n.args] == [a.arg for a in f.node.args.args][:2]]
    cc = [n for n in ast.walk(f.node) if isinstance(n, ast.Attribute) and n.attr in _CHARCLASS]
    construct = "_is_base_n/decided by int(s, n) alone"
    if not conv:
        ctx.bad(construct, "the text is no longer converted with int(s, n)", f.loc())
    elif cc:
        ctx.bad(construct, f"`.{cc[0].attr}()` answers before int(): its idea of a digit is not int()'s", f.loc(cc[0]))
    else:
        ctx.ok(construct, f.loc(conv[0]))


from ..provenance import effective_guards, reaching_assignments  # noqa: E402,F401


_NEG_OPS = {ast.IsNot: ast.Is, ast.NotEq: ast.Eq, ast.NotIn: ast.In}


def _canon_leaf(e: ast.AST) -> Tuple[str, bool]:
    """(atom text, negated?) - `a is not b` is the negation of the atom `a is b`"""
    if isinstance(e, ast.Compare) and len(e.ops) == 1 and type(e.ops[0]) in _NEG_OPS:
        pos = ast.Compare(left=e.left, ops=[_NEG_OPS[type(e.ops[0])]()], comparators=e.comparators)
        return ast.unparse(pos), True
    return ast.unparse(e), False


def _bool_leaves(e: ast.AST, out: Set[str]):
    if isinstance(e, ast.BoolOp):
        for v in e.values:
            _bool_leaves(v, out)
    elif isinstance(e, ast.UnaryOp) and isinstance(e.op, ast.Not):
        _bool_leaves(e.operand, out)
    else:
        out.add(_canon_leaf(e)[0])


def _bool_eval(e: ast.AST, v: Dict[str, bool]) -> bool:
    if isinstance(e, ast.BoolOp):
        vals = [_bool_eval(x, v) for x in e.values]
        return all(vals) if isinstance(e.op, ast.And) else any(vals)
    if isinstance(e, ast.UnaryOp) and isinstance(e.op, ast.Not):
        return not _bool_eval(e.operand, v)
    k, neg = _canon_leaf(e)
    return (not v[k]) if neg else v[k]


def facts_vs_formula(facts: Set[Tuple[str, bool]], formula: str) -> Tuple[bool, Set[Tuple[str, bool]]]:
    """(the facts together imply the formula, the facts that the formula does not imply) - all read as propositional
    formulas over their leaves (and / or / not; everything else is an opaque atom). An empty second component means the
    facts say nothing beyond the formula."""
    import itertools
    fe = ast.parse(formula, mode="eval").body
    atoms_s: Set[str] = set()
    _bool_leaves(fe, atoms_s)
    parsed = [(k, p, parse_key(k)) for k, p in sorted(facts)]
    for _, _, e in parsed:
        _bool_leaves(e, atoms_s)
    atoms = sorted(atoms_s)
    if len(atoms) > 16:
        raise AnalysisError(f"{len(atoms)} atoms in a guard comparison")
    imp = True
    not_implied: Set[Tuple[str, bool]] = set()
    for vals in itertools.product((True, False), repeat=len(atoms)):
        v = dict(zip(atoms, vals))
        f_ok = _bool_eval(fe, v)
        each = [(_bool_eval(e, v) == p) for _, p, e in parsed]
        if all(each) and not f_ok:
            imp = False
        if f_ok:
            for (k, p, _), ok in zip(parsed, each):
                if not ok:
                    not_implied.add((k, p))
    return imp, not_implied


# --------------------------------------------------------------------------- first active entry wins
def first_match_loops(ctx, quals: Iterable[str], why: str, suffixes: Tuple[str, ...] = (".defaults", ".ranges"),
                      entry_filters: Tuple[str, ...] = ()) -> int:
    """In every search loop over a property list (`for value, cond in X.defaults:` with a break / return in it) the first
    entry whose condition holds ends the search: every path through the arm that is taken when the condition is true
    leaves the loop. (A `break` that depends on the entry's *value* lets a later entry overrule an earlier active one.)"""
    repo = ctx.repo
    n_loops = 0

    def leaves(stmts, value_var=None):
        """the statement sequence leaves the loop on every path (break / return / raise) before it could reach the next entry.
        entry_filters: further conditions on the entry itself (`{v}.visibility`) that are part of what the search looks for -
        written as one condition with the entry's own or as a separate `if` behind it, an entry failing them is passed over"""
        for st in stmts:
            if isinstance(st, (ast.Break, ast.Return, ast.Raise)):
                return True
            if value_var and isinstance(st, ast.If) and not st.orelse and ast.unparse(st.test) in [x.format(v=value_var) for x in entry_filters] \
                    and leaves(st.body, value_var):
                return True
            if isinstance(st, ast.Continue):
                return False
            if isinstance(st, ast.If) and st.orelse and leaves(st.body) and leaves(st.orelse):
                return True
            if isinstance(st, ast.Try) and leaves(st.body) and all(leaves(h.body) for h in st.handlers):
                return True
        return False

    for q in quals:
        f = repo.func(q)
        ctx.analysed(q)
        for n in own_nodes(repo, f):
            if not isinstance(n, ast.For):
                continue
            it = ast.unparse(n.iter)
            if not it.endswith(suffixes) or not any(isinstance(x, (ast.Break, ast.Return)) for x in ast.walk(n)):
                continue
            names = [t.id for t in ast.walk(n.target) if isinstance(t, ast.Name)]
            if not names:
                continue
            cond = names[-1]
            derived = {cond}
            for st in n.body:
                if isinstance(st, ast.Assign) and any(isinstance(x, ast.Name) and x.id in derived for x in ast.walk(st.value)):
                    derived |= {t.id for tt in st.targets for t in ast.walk(tt) if isinstance(t, ast.Name)}
            arms = [(i, st) for i, st in enumerate(n.body) if isinstance(st, ast.If) and {x.id for x in ast.walk(st.test) if isinstance(x, ast.Name)} & derived]
            n_loops += 1
            construct = f"{f.short}/the first active entry of `{it}` ends the search"

            def active_path_leaves(i, st):
                rest = n.body[i + 1:]
                t = st.test
                if isinstance(t, ast.UnaryOp) and isinstance(t.op, ast.Not):
                    # `if not <active>: continue` - the active entry is handled by what follows
                    return leaves(list(st.orelse) + rest, names[0])
                return leaves(list(st.body) + rest, names[0])
            if not arms:
                ctx.bad(construct, f"the loop leaves without testing the entry's condition `{cond}`: {why}", f.loc(n))
            elif not all(active_path_leaves(i, a) for i, a in arms):
                a = [a for i, a in arms if not active_path_leaves(i, a)][0]
                ctx.bad(construct, f"for an entry with `{ast.unparse(a.test)[:60]}` {'false' if isinstance(a.test, ast.UnaryOp) else 'true'} the loop goes on to the next entry on some path: {why}", f.loc(a))
            else:
                ctx.ok(construct, f.loc(n))
    return n_loops


# --------------------------------------------------------------------------- user state is stored whatever the current evaluation says
EVALUATED = (".visibility", ".str_value", ".bool_value", ".selection", ".assignable", "expr_value(", "._cached_", ".config_string")


def stores_independent_of_evaluation(ctx, quals: Iterable[str], attrs: Tuple[str, ...], why: str) -> int:
    """Every store to one of `attrs` (user value, user pick, per-load marks) in the given setters is reached under conditions
    that read only the arguments and stored state - never an *evaluated* quantity (visibility, current value, current
    selection). What an assignment records must not depend on the configuration it arrives in: two histories with the same
    assignments in a different order, or a replacing load after edits, would otherwise store different user state."""
    repo = ctx.repo
    n = 0
    for q in quals:
        f = repo.func(q)
        ctx.analysed(q)
        fl = Flow(f.node, resolver=Resolver(f.node)).run()
        for st in own_nodes(repo, f):
            if not (isinstance(st, ast.Assign) and any(isinstance(t, ast.Attribute) and t.attr in attrs for t in st.targets)):
                continue
            if isinstance(st.value, ast.Constant) and st.value.value is None:
                continue
            n += 1
            tgt = ast.unparse(st.targets[0])
            construct = f"{f.short}/store {tgt} does not depend on the current evaluation"
            gs = fl.guards_at(st) or set()
            dep = []
            for k, pol in sorted(gs):
                full = expand_locals(f.node, parse_key(k))
                if any(tok in full for tok in EVALUATED):
                    dep.append(f"{'' if pol else 'not '}({full[:80]})")
            if dep:
                ctx.bad(construct, f"`{ast.unparse(st)[:50]}` is reached only under {dep}: {why}", f.loc(st))
            else:
                ctx.ok(construct, f.loc(st))
    return n


def facts_imply(facts: Set[Tuple[str, bool]], goal: str, fixed=None) -> bool:
    """do the facts (read as propositional formulas over their leaves) imply the formula `goal`? `fixed(leaf) -> bool|None`
    assigns a truth value to leaves whose value is known from elsewhere (e.g. type tests for a given symbol type)."""
    import itertools
    ge = ast.parse(goal, mode="eval").body
    atoms_s: Set[str] = set()
    _bool_leaves(ge, atoms_s)
    parsed = [(p, parse_key(k)) for k, p in sorted(facts)]
    for _, e in parsed:
        _bool_leaves(e, atoms_s)
    fx: Dict[str, bool] = {}
    for a in atoms_s:
        t = fixed(a) if fixed else None
        if t is not None:
            fx[a] = t
    free = sorted(atoms_s - set(fx))
    if len(free) > 16:
        raise AnalysisError(f"{len(free)} free atoms in an implication")
    for vals in itertools.product((True, False), repeat=len(free)):
        v = dict(fx)
        v.update(zip(free, vals))
        if all(_bool_eval(e, v) == p for p, e in parsed) and not _bool_eval(ge, v):
            return False
    return True


# --------------------------------------------------------------------------- locals are assigned before they are read
def definitely_assigned(ctx, modnames: Iterable[str], why: str, exempt: Dict[str, str] = {}) -> int:
    """Every read of a local that is bound by plain assignments only is preceded by an assignment on every path - or by an
    assignment made under conditions that all still hold at the read (`if v3: d = f()` ... `if v3: use(d)`). A read that can
    come first raises UnboundLocalError out of the function (typically after one of several identical definitions was
    removed as redundant). Names bound by loops, comprehensions, `with`, `except` or `:=` are left alone; `exempt` maps
    `function/name` to the reason a remaining correlated-condition pattern is safe."""
    repo = ctx.repo
    n_funcs = 0
    for m in modnames:
        for f in repo.funcs_in(m):
            fn = f.node
            if not isinstance(fn, ast.FunctionDef):
                continue
            own = [n for n in own_nodes(repo, f)]
            params = {a.arg for a in ast.walk(fn.args) if isinstance(a, ast.arg)}
            glob = {nm for n in own if isinstance(n, (ast.Global, ast.Nonlocal)) for nm in n.names}
            stores: Dict[str, List[ast.Name]] = {}
            special: Set[str] = set()
            for n in own:
                if isinstance(n, ast.Name) and isinstance(n.ctx, ast.Store) and n.id not in params and n.id not in glob:
                    stores.setdefault(n.id, []).append(n)
                if isinstance(n, (ast.For, ast.comprehension)):
                    special |= {x.id for x in ast.walk(n.target) if isinstance(x, ast.Name)}
                elif isinstance(n, ast.ExceptHandler) and n.name:
                    special.add(n.name)
                elif isinstance(n, ast.With):
                    for it in n.items:
                        if it.optional_vars is not None:
                            special |= {x.id for x in ast.walk(it.optional_vars) if isinstance(x, ast.Name)}
                elif isinstance(n, ast.NamedExpr):
                    special.add(n.target.id)
                elif isinstance(n, (ast.Import, ast.ImportFrom)):
                    special |= {(a.asname or a.name).split(".")[0] for a in n.names}
                elif isinstance(n, (ast.FunctionDef, ast.ClassDef)) and n is not fn:
                    special.add(n.name)
            names = {k for k in stores if k not in special}
            if not names:
                continue
            n_funcs += 1

            def events(st, names=names):
                if isinstance(st, (ast.If, ast.For, ast.While, ast.With, ast.Try)):
                    return []
                return [f"d:{x.id}" for x in ast.walk(st) if isinstance(x, ast.Name) and isinstance(x.ctx, ast.Store) and x.id in names]
            fl = Flow(fn, events=events, track_guards=False).run()
            flg = None
            bad: Dict[str, ast.Name] = {}
            for n in own:
                if not (isinstance(n, ast.Name) and isinstance(n.ctx, ast.Load) and n.id in names):
                    continue
                # reads inside nested functions / lambdas / comprehensions run later
                st = repo.enclosing_stmt(n)
                evs = fl.events_at(st)
                if evs is None or f"d:{n.id}" in evs:
                    continue
                # same statement defines and reads (x = x + 1 without a prior definition is still an error) - fall through
                if flg is None:
                    flg = Flow(fn, resolver=Resolver(fn)).run()
                here = effective_guards(flg, flg.resolver, fn, st)
                ok = False
                for d in stores[n.id]:
                    ds = repo.enclosing_stmt(d)
                    if ds.lineno >= st.lineno:
                        continue
                    dg = flg.guards_at(ds)
                    if dg is not None and dg and set(dg) <= set(here):
                        ok = True
                        break
                if not ok and f"{f.short}/{n.id}" not in exempt:
                    bad.setdefault(n.id, n)
            construct = f"{f.short}/locals are assigned before they are read"
            if bad:
                nm, node = sorted(bad.items())[0]
                ctx.bad(construct, f"`{nm}` can be read at line {node.lineno} before any assignment on some path: UnboundLocalError - {why}", f.loc(node))
            else:
                ctx.ok(construct, f.loc(), nontrivial=False)
    return n_funcs


# --------------------------------------------------------------------------- handlers use only what every caught exception has
_EXC_ATTRS = {
    "JSONDecodeError": {"msg", "doc", "pos", "lineno", "colno"},
    "OSError": {"errno", "strerror", "filename", "filename2"},
    "EnvironmentError": {"errno", "strerror", "filename", "filename2"},
    "IOError": {"errno", "strerror", "filename", "filename2"},
    "FileNotFoundError": {"errno", "strerror", "filename", "filename2"},
    "PermissionError": {"errno", "strerror", "filename", "filename2"},
    "UnicodeDecodeError": {"encoding", "object", "start", "end", "reason"},
    "UnicodeEncodeError": {"encoding", "object", "start", "end", "reason"},
    "SyntaxError": {"msg", "filename", "lineno", "offset", "text"},
    "KeyError": set(), "ValueError": set(), "TypeError": set(), "RecursionError": set(), "RuntimeError": set(), "AttributeError": {"name", "obj"},
    "IndexError": set(), "LookupError": set(), "ArithmeticError": set(), "OverflowError": set(), "Exception": set(), "BaseException": set(),
    "StopIteration": {"value"}, "SystemExit": {"code"}, "ImportError": {"name", "path", "msg"}, "ModuleNotFoundError": {"name", "path", "msg"},
}
_EXC_BASE = {"args", "with_traceback", "add_note", "__cause__", "__context__", "__traceback__", "__class__", "__notes__", "__str__", "__repr__", "__dict__", "__doc__"}


def handler_attribute_access(ctx, modnames: Iterable[str], why: str) -> int:
    """In `except (A, B) as e:` every attribute read from `e` exists on *each* of the caught classes (standard classes by
    table, classes of the repository by the attributes their __init__ sets). A handler that was widened to more classes, or
    a message that starts to quote `e.colno`, raises AttributeError inside the handler - i.e. out of the function."""
    repo = ctx.repo
    n = 0

    def attrs_of(name: str) -> Optional[Set[str]]:
        base = name.split(".")[-1]
        if base in _EXC_ATTRS:
            return _EXC_ATTRS[base]
        for m in repo.modules.values():
            for c in m.tree.body:
                if isinstance(c, ast.ClassDef) and c.name == base:
                    out = {t.attr for x in ast.walk(c) if isinstance(x, ast.Assign) for t in x.targets if isinstance(t, ast.Attribute)
                           and isinstance(t.value, ast.Name) and t.value.id == "self"}
                    out |= {x.name for x in c.body if isinstance(x, ast.FunctionDef)}
                    for b in c.bases:
                        sup = attrs_of(ast.unparse(b))
                        if sup is None:
                            return None
                        out |= sup
                    return out
        return None

    for m in modnames:
        for f in repo.funcs_in(m):
            for h in [x for x in own_nodes(repo, f) if isinstance(x, ast.ExceptHandler) and x.name and x.type is not None]:
                types = [ast.unparse(t) for t in (h.type.elts if isinstance(h.type, ast.Tuple) else [h.type])]
                reads = sorted({x.attr for st in h.body for x in ast.walk(st) if isinstance(x, ast.Attribute) and isinstance(x.value, ast.Name)
                                and x.value.id == h.name and isinstance(x.ctx, ast.Load)} - _EXC_BASE)
                if not reads:
                    continue
                n += 1
                construct = f"{f.short}/handler for {', '.join(types)} reads only what each of them has"
                missing = []
                for t in types:
                    have = attrs_of(t)
                    if have is None:
                        continue
                    lack = [a for a in reads if a not in have]
                    if lack:
                        missing.append(f"{t} has no `{lack[0]}`")
                if missing:
                    ctx.bad(construct, f"the handler reads {', '.join('e.' + a for a in reads)} but {'; '.join(missing)}: AttributeError inside the handler - {why}", f.loc(h))
                else:
                    ctx.ok(construct, f.loc(h))
    return n


# --------------------------------------------------------------------------- free text in Rich-markup log calls
_TEXT_ATTRS = ("str_value", "_user_value", "_sdkconfig_value", "help", "filename")


def log_text_escaped(ctx, quals: Iterable[str], why: str) -> int:
    """The project's logger renders Rich markup. In the given functions every log call (without `markup=False`) that
    interpolates *text taken from the tree or the configuration* - `<x>.str_value`, a user value, a literal's name reached through
    a `set` entry - passes it through escape(): `[/a]` in such a text is otherwise a MarkupError raised out of the function.
    Numbers, type names and identifiers of defined symbols are not text in this sense."""
    repo = ctx.repo
    n = 0
    for q in quals:
        f = repo.func(q)
        ctx.analysed(q)
        for c in own_nodes(repo, f):
            if not (isinstance(c, ast.Call) and ast.unparse(c.func).startswith("log.") and c.args):
                continue
            if any(k.arg == "markup" and ast.unparse(k.value) == "False" for k in c.keywords):
                continue
            for fv in [x for a in c.args for x in ast.walk(a) if isinstance(x, ast.FormattedValue)]:
                e = fv.value
                if not (isinstance(e, ast.Attribute) and e.attr in _TEXT_ATTRS) and not (
                        isinstance(e, ast.Call) and isinstance(e.func, ast.Name) and e.func.id == "escape" and e.args
                        and isinstance(e.args[0], ast.Attribute) and e.args[0].attr in _TEXT_ATTRS):
                    continue
                n += 1
                inner = e.args[0] if isinstance(e, ast.Call) else e
                construct = f"{f.short}/log call interpolating `{ast.unparse(inner)[:40]}` escapes it"
                (ctx.ok(construct, f.loc(c)) if isinstance(e, ast.Call) else
                 ctx.bad(construct, f"`{ast.unparse(inner)}` is free text and reaches a Rich-markup log call unescaped: {why}", f.loc(c)))
    return n


# --------------------------------------------------------------------------- first / last character of a possibly empty text
def index_of_text_guarded(ctx, qual: str, names: Iterable[str], why: str) -> int:
    """`v[0]` / `v[-1]` of a text that can be empty raises IndexError: in the given function every constant-index subscript of
    one of `names` is reached only with the text known to be non-empty (truthiness, a comparison with '', startswith / endswith
    of the same text, a length test) - slices (`v[:1]`) are always fine."""
    repo = ctx.repo
    f = repo.func(qual)
    ctx.analysed(qual)
    fl = Flow(f.node, resolver=Resolver(f.node)).run()
    names = set(names)
    n = 0
    for s_ in ast.walk(f.node):
        if not (isinstance(s_, ast.Subscript) and isinstance(s_.value, ast.Name) and s_.value.id in names and isinstance(s_.ctx, ast.Load)):
            continue
        idx = s_.slice
        if isinstance(idx, ast.Slice):
            continue
        if not ((isinstance(idx, ast.Constant) and isinstance(idx.value, int)) or (isinstance(idx, ast.UnaryOp) and isinstance(idx.operand, ast.Constant))):
            continue
        v = s_.value.id
        n += 1
        gs = fl.guards_at(s_)
        construct = f"{f.short}/`{ast.unparse(s_)}` only of a non-empty text"
        if gs is None:
            # inside an expression the flow does not split (conditional expression): look at the enclosing IfExp tests
            gs = set()
        ok = any((k == v and p) or (k == f"{v} == ''" and not p) or (k.startswith(f"{v}.startswith(") and p) or (k.startswith(f"{v}.endswith(") and p)
                 or (k.startswith(f"len({v})") and p) or (k == f"not {v}" and not p) for k, p in gs)
        (ctx.ok(construct, f.loc(s_)) if ok else ctx.bad(construct, f"`{v}` can be the empty string here (guards {sorted(gs)}): IndexError - {why}", f.loc(s_)))
    return n
