"""Generic lints reused by several properties (each is instantiated on a named set of functions)."""
from __future__ import annotations

import ast
from typing import Dict, Iterable, List, Optional, Set, Tuple

from ..flow import Flow, Resolver, MUTATORS
from ..repo import Func, Repo


def own_nodes(repo: Repo, f: Func):
    for n in ast.walk(f.node):
        if repo.enclosing_func(n) is f or n is f.node:
            yield n


# --------------------------------------------------------------------------- explaining variables
def expand_locals(fn: ast.AST, e: ast.AST, depth: int = 4) -> str:
    """text of `e` with every local that is assigned exactly once in `fn` (plain `x = <expr>`) replaced by its defining
    expression - `root = find(d); use(root)` and `use(find(d))` read the same to a rule"""
    import copy
    single: Dict[str, ast.AST] = {}
    counts: Dict[str, int] = {}
    for n in ast.walk(fn):
        if isinstance(n, ast.Name) and isinstance(n.ctx, (ast.Store, ast.Del)):
            counts[n.id] = counts.get(n.id, 0) + 1
    for n in ast.walk(fn):
        if isinstance(n, ast.Assign) and len(n.targets) == 1 and isinstance(n.targets[0], ast.Name) and counts.get(n.targets[0].id) == 1:
            single[n.targets[0].id] = n.value

    class T(ast.NodeTransformer):
        def __init__(self, d):
            self.d = d

        def visit_Name(self, n):
            if isinstance(n.ctx, ast.Load) and n.id in single and self.d > 0:
                return T(self.d - 1).visit(copy.deepcopy(single[n.id]))
            return n

    return ast.unparse(T(depth).visit(copy.deepcopy(e))).replace('"', "'")


# --------------------------------------------------------------------------- unused loop variables (bugbear B007)
def unused_loop_vars(ctx, quals: Iterable[str], why: str):
    """Every name unpacked by a for-loop / comprehension target in the given collector functions is used in the loop
    body (names starting with `_` excepted): an unpacked but unused component means the collector silently ignores it
    (or uses a neighbour twice)."""
    repo = ctx.repo
    for q in quals:
        f = repo.func(q)
        ctx.analysed(q)
        n_loops = 0
        for n in own_nodes(repo, f):
            loops: List[Tuple[ast.AST, List[ast.AST]]] = []
            if isinstance(n, ast.For):
                loops.append((n.target, n.body + n.orelse))
            elif isinstance(n, (ast.ListComp, ast.SetComp, ast.GeneratorExp, ast.DictComp)):
                elts = [n.key, n.value] if isinstance(n, ast.DictComp) else [n.elt]
                for g in n.generators:
                    loops.append((g.target, elts + list(g.ifs) + [x.iter for x in n.generators if x is not g]))
            for tgt, body in loops:
                names = [t.id for t in ast.walk(tgt) if isinstance(t, ast.Name) and not t.id.startswith("_")]
                if not names:
                    continue
                n_loops += 1
                used = {x.id for b in body for x in ast.walk(b) if isinstance(x, ast.Name) and isinstance(x.ctx, ast.Load)}
                missing = [nm for nm in names if nm not in used]
                construct = f"{f.short}/loop over `{ast.unparse(getattr(n, 'iter', None) or n.generators[0].iter)[:40]}` uses every unpacked component"
                if missing:
                    ctx.bad(construct, f"`{', '.join(missing)}` is unpacked but never used in the loop body: {why}", f.loc(n))
                else:
                    ctx.ok(construct, f.loc(n), nontrivial=False)


# --------------------------------------------------------------------------- mutation of the iterated container
def no_mutation_of_iterated(ctx, modname: str, why: str):
    """No for-loop mutates the very list it iterates over (remove/append/insert/pop/del on the iterable inside the body):
    elements are skipped or visited twice depending on their position."""
    repo = ctx.repo
    n = 0
    for f in repo.funcs_in(modname):
        for lp in own_nodes(repo, f):
            if not isinstance(lp, ast.For) or not isinstance(lp.iter, (ast.Name, ast.Attribute)):
                continue
            it = ast.unparse(lp.iter)
            n += 1
            bad = None
            for x in ast.walk(lp):
                if isinstance(x, ast.Call) and isinstance(x.func, ast.Attribute) and x.func.attr in MUTATORS and ast.unparse(x.func.value) == it:
                    bad = x
                if isinstance(x, ast.Delete) and any(ast.unparse(t).startswith(it + "[") for t in x.targets):
                    bad = x
            construct = f"{f.short}/loop over `{it}` does not modify `{it}`"
            if bad is not None:
                ctx.bad(construct, f"`{ast.unparse(bad)[:50]}` changes the list being iterated: {why}", f.loc(bad))
            else:
                ctx.ok(construct, f.loc(lp), nontrivial=False)
    return n


# --------------------------------------------------------------------------- checked numeric conversions
VALIDATORS = ("_is_base_n(", "is_float(", "is_base_n(", "_looks_like_number(")


def checked_conversions(ctx, quals: Iterable[str], exempt_sources: Tuple[str, ...] = ("_user_value",)):
    """Every int(x, base) / float(x) applied to a symbol's *value* in the given functions is guarded by the matching
    validity predicate (dominating guard or the test of the conditional expression), sits in a try that handles
    ValueError, or converts a value that was validated when it was stored (user values)."""
    repo = ctx.repo
    for q in quals:
        f = repo.func(q)
        ctx.analysed(q)
        res = Resolver(f.node)
        fl = Flow(f.node, resolver=res).run()
        k = 0
        for n in own_nodes(repo, f):
            if not (isinstance(n, ast.Call) and isinstance(n.func, ast.Name) and n.func.id in ("int", "float") and n.args):
                continue
            arg = n.args[0]
            at = ast.unparse(arg)
            if isinstance(arg, ast.Constant):
                continue
            k += 1
            construct = f"{f.short}/{n.func.id}({at[:30]}{', ' + ast.unparse(n.args[1]) if len(n.args) > 1 else ''}) #{k} is a checked conversion"
            src_txt = at
            if isinstance(arg, ast.Name):
                # nearest preceding assignment of the converted local in the same or an enclosing block
                from .c04 import _reaching
                v = _reaching(repo, f.node, arg.id, n)
                if v is not None:
                    src_txt = ast.unparse(v)
            if any(s in at or s in src_txt for s in exempt_sources):
                ctx.ok(construct, f.loc(n), by="validated when stored")
                continue
            gs = fl.guards_at(n) or set()
            guarded = any(p and k2.startswith(VALIDATORS) for k2, p in gs)
            # value derived from a validated one in the same block: `val = x.name` / `_normalize_float(x.name)` under the guard
            tried = False
            p = repo.parent(n)
            child: ast.AST = n
            while p is not None and p is not f.node:
                if isinstance(p, ast.Try) and any(child is b or any(child is y for y in ast.walk(b)) for b in p.body):
                    if any(h.type is None or any(t in ast.unparse(h.type) for t in ("ValueError", "Exception")) for h in p.handlers):
                        tried = True
                child = p
                p = repo.parent(p)
            if guarded or tried:
                ctx.ok(construct, f.loc(n), by="validity guard" if guarded else "try/except ValueError")
            else:
                ctx.bad(construct, f"`{ast.unparse(n)}` converts a symbol value that no `_is_base_n`/`is_float` test (and no ValueError handler) "
                        "covers: a non-numeric value (a symbol bound, a string, an empty value) raises ValueError out of the evaluator", f.loc(n))


# --------------------------------------------------------------------------- statement order among top-level blocks
def toplevel_order(fn: ast.FunctionDef, pred) -> List[Tuple[int, ast.stmt]]:
    return [(i, s) for i, s in enumerate(fn.body) if pred(s)]


def collected_components(ctx, quals: Iterable[str], sink_prefixes: Tuple[str, ...], why: str):
    """In collector functions every component unpacked from a property list reaches the collecting sink (res.add(v),
    res |= expr_items(v), ...) - being mentioned in a test is not enough."""
    repo = ctx.repo
    for q in quals:
        f = repo.func(q)
        ctx.analysed(q)
        for lp in own_nodes(repo, f):
            if not isinstance(lp, ast.For):
                continue
            names = [t.id for t in ast.walk(lp.target) if isinstance(t, ast.Name) and not t.id.startswith("_")]
            if not names:
                continue
            sunk: Set[str] = set()
            for x in ast.walk(lp):
                if isinstance(x, ast.Call) and ast.unparse(x.func).startswith(sink_prefixes):
                    for a in x.args:
                        sunk |= {y.id for y in ast.walk(a) if isinstance(y, ast.Name)}
                if isinstance(x, ast.AugAssign):
                    sunk |= {y.id for y in ast.walk(x.value) if isinstance(y, ast.Name)}
            missing = [nm for nm in names if nm not in sunk]
            construct = f"{f.short}/every component of `{ast.unparse(lp.iter)[:40]}` is collected"
            if missing:
                ctx.bad(construct, f"`{', '.join(missing)}` is unpacked but never added to the collected set: {why}", f.loc(lp))
            else:
                ctx.ok(construct, f.loc(lp), components=names)
