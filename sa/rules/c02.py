"""C02 - saving and reloading a configuration is a fixpoint (writer/reader table agreement: necessary
conditions for write o load = id)."""
from __future__ import annotations

import ast
import copy
import re
from typing import Dict, List, Optional, Set, Tuple

from ..flow import AnalysisError, Flow, Resolver
from ..repo import AnchorError, Func
from ..tables import fstring_skeleton, replace_chain, type_tests_in
from . import c05, c06

PROPERTY = "C02"
CORE = "esp_kconfiglib.core"
LEVEL_TEXT = (
    "Static agreement of sibling writers and readers: the line skeletons config_string and the deprecated-alias writer "
    "emit are (re-)matched by the reader regexes built from the same source constants; _escape/unescape/"
    "_conf_string_match form an inverse pair over the same character class and every string writer quotes through "
    "_escape; marker and block delimiters have a single spelling; traversal marks are reset before every tree walk; "
    "floats have one canonical spelling on both sides; a reset leaves no half-user choice. The fixpoint itself "
    "(interaction of quoting, marker, deferred choice loading, default resolution) is not decided."
)
PREFIX = "CONFIG_"


def const_str(repo, modname: str, e: ast.AST) -> Optional[str]:
    """Evaluate a string-building expression made of constants, config_prefix slots, + and .format()."""
    if isinstance(e, ast.Constant) and isinstance(e.value, str):
        return e.value
    if isinstance(e, ast.JoinedStr):
        out = ""
        for v in e.values:
            if isinstance(v, ast.Constant):
                out += v.value
            elif isinstance(v, ast.FormattedValue) and ast.unparse(v.value).endswith("config_prefix"):
                out += PREFIX
            else:
                return None
        return out
    if isinstance(e, ast.BinOp) and isinstance(e.op, ast.Add):
        l, r = const_str(repo, modname, e.left), const_str(repo, modname, e.right)
        return None if l is None or r is None else l + r
    if isinstance(e, ast.Attribute) and e.attr == "config_prefix":
        return PREFIX
    if isinstance(e, ast.Call) and isinstance(e.func, ast.Attribute) and e.func.attr == "format":
        base = const_str(repo, modname, e.func.value)
        args = [const_str(repo, modname, a) for a in e.args]
        if base is None or any(a is None for a in args):
            return None
        return base.format(*args)
    if isinstance(e, ast.Name):
        v = repo.resolve_const(modname, e.id)
        if v is not None and v is not e:
            return const_str(repo, modname, v)
    return None


def compiled_pattern(repo, modname: str, e: ast.AST) -> Optional[str]:
    """pattern text of `re.compile(<pat>, ...)[.match]`"""
    n = e
    if isinstance(n, ast.Attribute) and n.attr in ("match", "sub", "search", "fullmatch"):
        n = n.value
    if isinstance(n, ast.Call) and ast.unparse(n.func) == "re.compile" and n.args:
        return const_str(repo, modname, n.args[0])
    return None


def render(e: ast.AST, slots: Dict[str, str]) -> Optional[str]:
    sk = fstring_skeleton(e)
    if sk is None:
        return None
    out = ""
    for x in sk:
        if isinstance(x, str):
            out += x
        else:
            t = x[1]
            for k, v in slots.items():
                if t == k or t.endswith("." + k) or t == f"_escape({k})":
                    out += v
                    break
            else:
                return None
    return out


class _FStrLocals(ast.NodeTransformer):
    """f-string pieces kept in single-assignment locals are spliced back into the f-strings that use them"""

    def __init__(self, fn: ast.AST):
        counts: Dict[str, int] = {}
        for n in ast.walk(fn):
            if isinstance(n, ast.Name) and isinstance(n.ctx, ast.Store):
                counts[n.id] = counts.get(n.id, 0) + 1
        self.defs = {n.targets[0].id: n.value for n in ast.walk(fn) if isinstance(n, ast.Assign) and len(n.targets) == 1
                     and isinstance(n.targets[0], ast.Name) and counts.get(n.targets[0].id) == 1 and isinstance(n.value, ast.JoinedStr)}
        # string pieces built by `+` and kept in a single-assignment local (`prefixed_name = prefix + self.name`)
        self.cat = {n.targets[0].id: n.value for n in ast.walk(fn) if isinstance(n, ast.Assign) and len(n.targets) == 1
                    and isinstance(n.targets[0], ast.Name) and counts.get(n.targets[0].id) == 1
                    and (isinstance(n.value, ast.JoinedStr) or (isinstance(n.value, ast.BinOp) and isinstance(n.value.op, ast.Add)))}

    def visit_Name(self, n):
        if isinstance(n.ctx, ast.Load) and n.id in self.cat:
            return self.visit(copy.deepcopy(self.cat[n.id]))
        return n

    def _pieces(self, e: ast.AST) -> list:
        """the f-string pieces of a string-building expression (f-string, `+` concatenation, literal, anything else as one slot)"""
        if isinstance(e, ast.JoinedStr):
            return list(self.visit(e).values)
        if isinstance(e, ast.BinOp) and isinstance(e.op, ast.Add):
            return self._pieces(e.left) + self._pieces(e.right)
        if isinstance(e, ast.Constant) and isinstance(e.value, str):
            return [e]
        if isinstance(e, ast.Name) and e.id in self.cat:
            return self._pieces(copy.deepcopy(self.cat[e.id]))
        return [ast.FormattedValue(value=e, conversion=-1, format_spec=None)]

    def visit_JoinedStr(self, n):
        vals = []
        for v in n.values:
            if isinstance(v, ast.FormattedValue) and isinstance(v.value, ast.Name) and v.conversion == -1 and v.format_spec is None \
                    and (v.value.id in self.defs or v.value.id in self.cat):
                vals += self._pieces(copy.deepcopy(self.defs.get(v.value.id, self.cat.get(v.value.id))))
            else:
                vals.append(v)
        n.values = vals
        return n


def _returns(fn: ast.AST) -> List[ast.AST]:
    out = []
    tr = _FStrLocals(fn)
    # a result local that is assigned once per arm of an if/elif chain (`entry = ...` three times, then `return pragma + entry`)
    multi: Dict[str, List[ast.AST]] = {}
    for n in ast.walk(fn):
        if isinstance(n, ast.Assign) and len(n.targets) == 1 and isinstance(n.targets[0], ast.Name) \
                and isinstance(n.value, (ast.JoinedStr, ast.BinOp, ast.IfExp, ast.Constant)):
            multi.setdefault(n.targets[0].id, []).append(n.value)
    n_stores: Dict[str, int] = {}
    for n in ast.walk(fn):
        if isinstance(n, ast.Name) and isinstance(n.ctx, ast.Store):
            n_stores[n.id] = n_stores.get(n.id, 0) + 1
    # ... and in no other way (a value that is also taken from elsewhere, like `val`, is a slot, not a line shape)
    multi = {k: v for k, v in multi.items() if len(v) > 1 and n_stores.get(k) == len(v)
             and not any(isinstance(x, ast.Name) and x.id == k for e in v for x in ast.walk(e))}
    for n in ast.walk(fn):
        if isinstance(n, ast.Return) and n.value is not None:
            variants = [n.value]
            for name, vals in multi.items():
                if any(isinstance(x, ast.Name) and x.id == name for x in ast.walk(n.value)):
                    nv = []
                    for base in variants:
                        for val in vals:
                            class _S(ast.NodeTransformer):
                                def visit_Name(self, m, name=name, val=val):
                                    return copy.deepcopy(val) if m.id == name and isinstance(m.ctx, ast.Load) else m
                            nv.append(_S().visit(copy.deepcopy(base)))
                    variants = nv
            for base in variants:
                v = tr.visit(copy.deepcopy(base))
                stack = [v]
                while stack:
                    x = stack.pop()
                    if isinstance(x, ast.IfExp):
                        stack += [x.body, x.orelse]
                    elif isinstance(x, ast.BinOp) and isinstance(x.op, ast.Add) and any(isinstance(y, ast.IfExp) for y in (x.left, x.right)):
                        # `prefix + (a if c else b)`: one shape per arm
                        for side in ("left", "right"):
                            y = getattr(x, side)
                            if isinstance(y, ast.IfExp):
                                for arm in (y.body, y.orelse):
                                    z = copy.deepcopy(x)
                                    setattr(z, side, arm)
                                    stack.append(z)
                                break
                    else:
                        out.append(x)
    return out


def r02_1(ctx):
    """R02.1 line skeletons: every assignment / `is not set` / quoted-string line shape that Symbol.config_string and
    DeprecatedOptions._deprecated_config_string can emit is matched by the reader regexes of Kconfig.__init__
    (_set_match, _unset_match) and _conf_string_match with the name and the value in the right groups; the =n
    normaliser of write_min_config maps the unset shape onto the set shape."""
    repo = ctx.repo
    init = repo.func(f"{CORE}:Kconfig.__init__")
    pats: Dict[str, str] = {}
    for n in ast.walk(init.node):
        if isinstance(n, ast.Assign) and isinstance(n.targets[0], ast.Attribute) and n.targets[0].attr in ("_set_match", "_unset_match"):
            p = compiled_pattern(repo, CORE, n.value)
            if p is None:
                raise AnchorError(f"cannot evaluate the pattern of {n.targets[0].attr}")
            pats[n.targets[0].attr] = p
    csm = repo.resolve_const(CORE, "_conf_string_match")
    pats["_conf_string_match"] = compiled_pattern(repo, CORE, csm) if csm is not None else None
    if len(pats) != 3 or any(v is None for v in pats.values()):
        raise AnchorError(f"reader regexes not found: {pats}")
    set_re, unset_re, str_re = re.compile(pats["_set_match"]), re.compile(pats["_unset_match"]), re.compile(pats["_conf_string_match"])
    slots = {"pragma_default_comment": "", "config_prefix": PREFIX, "prefix": PREFIX, "name": "NAME", "dep_name": "NAME",
             "val": "VALUE", "_escape(val)": "VALUE"}
    n_shapes = 0
    for q in (f"{CORE}:Symbol.config_string", "esp_kconfiglib.deprecated:DeprecatedOptions._deprecated_config_string"):
        f = repo.func(q)
        ctx.analysed(q)
        for r in _returns(f.node):
            if isinstance(r, ast.Constant) and r.value == "":
                continue
            line = render(r, slots)
            construct = f"{f.short}/line shape `{ast.unparse(r)[:70]}`"
            if line is None:
                raise AnalysisError(f"{f.short}: cannot render line shape {ast.unparse(r)[:80]}")
            n_shapes += 1
            line = line.rstrip("\n")
            if "\n" in line:
                ctx.bad(construct, "an emitted entry spans more than one line", f.loc(r))
                continue
            m = set_re.match(line)
            u = unset_re.match(line)
            if m and m.group(1) == "NAME" and m.group(2) in ("VALUE", '"VALUE"'):
                if m.group(2).startswith('"'):
                    sm = str_re.match(m.group(2))
                    if not (sm and sm.group(1) == "VALUE" and sm.end() == len(m.group(2))):
                        ctx.bad(construct, f"quoted value {m.group(2)} is not accepted by _conf_string_match", f.loc(r))
                        continue
                # the value may be empty: a visible int/hex/float option without a value is written as `CONFIG_X=`, an
                # empty string as `CONFIG_S=""` - the reader must take those lines too (otherwise the line is "malformed"
                # and the pending `# default:` marker moves on to the next entry)
                empty = render(r, dict(slots, **{"val": "", "_escape(val)": ""}))
                em = set_re.match(empty.rstrip("\n")) if empty is not None else None
                if not (em and em.group(1) == "NAME" and em.group(2) in ("", '""')):
                    ctx.bad(construct, f"with an empty value the emitted line `{(empty or '').rstrip()}` is not read back by _set_match "
                            f"({pats['_set_match']!r}): a valueless number / empty string entry becomes a malformed line", f.loc(r))
                    continue
                ctx.ok(construct, f.loc(r), read_by="_set_match", sample=line)
            elif u and u.group(1) == "NAME" and u.end() == len(line):
                ctx.ok(construct, f.loc(r), read_by="_unset_match", sample=line)
            else:
                ctx.bad(construct, f"the line `{line}` is matched by neither reader regex ({pats['_set_match']!r}, "
                        f"{pats['_unset_match']!r}) with NAME/VALUE in the groups", f.loc(r))
    if n_shapes < 6:
        raise AnalysisError(f"only {n_shapes} line shapes found")
    # normalize_unset in write_min_config
    w = repo.func(f"{CORE}:Kconfig.write_min_config")
    ctx.analysed(w.qual)
    npat = None
    repl = None
    for n in ast.walk(w.node):
        if isinstance(n, ast.Assign) and isinstance(n.targets[0], ast.Name) and "re.compile" in ast.unparse(n.value):
            npat = compiled_pattern(repo, CORE, n.value)
        if isinstance(n, ast.Assign) and isinstance(n.targets[0], ast.Subscript) and isinstance(n.value, ast.JoinedStr):
            repl = n.value
        # the replacement text wherever it is built (element of a comprehension, a nested helper's return value)
        if repl is None and isinstance(n, ast.JoinedStr) and n.values and isinstance(n.values[-1], ast.Constant) and str(n.values[-1].value).endswith("=n") \
                and "group(1)" in ast.unparse(n):
            repl = n
    construct = "Kconfig.write_min_config/=n normalisation maps the unset shape onto the set shape"
    if npat is None or repl is None:
        ctx.bad(construct, "normaliser regex / replacement not found", w.loc())
    else:
        line = render(repl, {"config_prefix": PREFIX, "match.group(1)": "NAME"})
        ok = npat == pats["_unset_match"] and line is not None
        if ok:
            m = set_re.match(line)
            ok = bool(m) and m.group(1) == "NAME" and m.group(2) == "n"
        (ctx.ok(construct, w.loc(), pattern=npat, replacement=line) if ok else
         ctx.bad(construct, f"pattern {npat!r} vs unset reader {pats['_unset_match']!r}; replacement {line!r}", w.loc()))


def r02_2(ctx):
    """R02.2 escape pair: _escape escapes the escape character first and then every character _conf_string_match
    excludes; unescape maps backslash+x to x; every writer of a string value goes through _escape."""
    repo = ctx.repo
    esc = repo.func(f"{CORE}:_escape")
    ctx.analysed(esc.qual)
    ret = [n for n in ast.walk(esc.node) if isinstance(n, ast.Return)]
    rc = replace_chain(ret[0].value) if ret else None
    construct = "_escape/backslash first, then the quote"
    if rc is None:
        raise AnalysisError("_escape is not a .replace chain")
    base, pairs = rc
    ok = pairs and pairs[0] == ("\\", "\\\\") and all(b == "\\" + a for a, b in pairs) and base == esc.node.args.args[0].arg
    (ctx.ok(construct, esc.loc(), pairs=pairs) if ok else ctx.bad(construct, f"replace chain {pairs}: the escape character must be "
                                                                    "escaped first and every pair must map c to \\c", esc.loc()))
    escaped = {a for a, _ in pairs}
    csm = compiled_pattern(repo, CORE, repo.resolve_const(CORE, "_conf_string_match"))
    construct = "_conf_string_match/excluded characters are exactly the escaped ones"
    m = re.search(r"\[\^((?:\\.|[^\]])+)\]", csm or "")
    if not m:
        ctx.bad(construct, f"no negated class in {csm!r}", esc.loc())
    else:
        cls = set(re.sub(r"\\(.)", r"\1", m.group(1)))
        ok = cls == escaped and "\\\\." in csm
        (ctx.ok(construct, esc.loc(), excluded=sorted(cls)) if ok else
         ctx.bad(construct, f"reader excludes {sorted(cls)} but writer escapes {sorted(escaped)}", esc.loc()))
    un = repo.func(f"{CORE}:unescape")
    sub = compiled_pattern(repo, CORE, repo.resolve_const(CORE, "_unescape_sub"))
    r = [n for n in ast.walk(un.node) if isinstance(n, ast.Return)]
    construct = "unescape/backslash+x -> x"
    if sub is None and any(isinstance(x, (ast.While, ast.For)) for x in ast.walk(un.node)):
        # a hand-written scan instead of the regex: whether it maps backslash+x to x for every x is a statement about a loop over
        # characters that this analysis does not decide (it does not execute code) - fail closed rather than guess
        raise AnalysisError("unescape() is no longer `_unescape_sub(r'\\1', s)` over a constant pattern but a hand-written scan: not decidable here")
    ok = sub == r"\\(.)" and r and ast.unparse(r[0].value).replace('"', "'") == f"_unescape_sub('\\\\1', {un.node.args.args[0].arg})"
    (ctx.ok(construct, un.loc()) if ok else ctx.bad(construct, f"pattern {sub!r}, body {ast.unparse(r[0].value) if r else None}", un.loc()))
    # every string writer quotes through _escape
    writers = [f"{CORE}:Symbol.config_string", f"{CORE}:Kconfig._header_string",
               "esp_kconfiglib.deprecated:DeprecatedOptions._deprecated_config_string",
               "kconfgen.core:write_cmake.<locals>.write_node"]
    for q in writers:
        f = repo.func(q)
        ctx.analysed(q)
        construct = f"{f.short}/string values are quoted through _escape"
        found = [n for n in ast.walk(f.node) if isinstance(n, ast.Call) and ast.unparse(n.func).split(".")[-1] == "_escape"]
        # a quoted emission without _escape: f-string containing `="{` or ` "{` followed by a bare value slot
        raw = []
        for n in ast.walk(f.node):
            if isinstance(n, ast.JoinedStr):
                vals = n.values
                for i, v in enumerate(vals):
                    if isinstance(v, ast.Constant) and isinstance(v.value, str) and v.value.endswith('"') and i + 1 < len(vals) \
                            and isinstance(vals[i + 1], ast.FormattedValue) and "_escape" not in ast.unparse(vals[i + 1].value) \
                            and ast.unparse(vals[i + 1].value) in ("val", "sym.str_value", "self.str_value"):
                        raw.append(n)
        if not found:
            ctx.bad(construct, "no _escape call: string values are written unquoted/unescaped", f.loc())
        elif raw and q != "kconfgen.core:write_cmake.<locals>.write_node":
            ctx.bad(construct, f"a quoted value slot bypasses _escape: {ast.unparse(raw[0])[:80]}", f.loc(raw[0]))
        else:
            ctx.ok(construct, f.loc(found[0]))
    # reader unescapes what it matched
    lc = repo.func(f"{CORE}:Kconfig._load_config")
    construct = "Kconfig._load_config/string values are unescaped after matching"
    ok = any(isinstance(n, ast.Assign) and ast.unparse(n.value) == "unescape(match.group(1))" for n in ast.walk(lc.node))
    (ctx.ok(construct, lc.loc()) if ok else ctx.bad(construct, "val = unescape(match.group(1)) not found", lc.loc()))


def r02_3(ctx):
    """R02.3 marker single source: the default marker and the deprecated-block delimiters are defined once
    (constants.py) and both writer and reader reference them; no second literal spelling exists in the packages."""
    repo = ctx.repo
    consts = {}
    cm = repo.module("esp_kconfiglib.constants")
    for name in ("SDKCONFIG_DEFAULT_PRAGMA", "DEP_OP_BEGIN", "DEP_OP_END"):
        v = repo.resolve_const("esp_kconfiglib.constants", name)
        if not (isinstance(v, ast.Constant) and isinstance(v.value, str)):
            raise AnchorError(f"constants.{name} is not a string literal")
        consts[name] = v.value
    for name, text in consts.items():
        dup = []
        for mname, m in repo.modules.items():
            for n in ast.walk(m.tree):
                if isinstance(n, ast.Constant) and isinstance(n.value, str) and n.value.strip() == text.strip():
                    if not (mname == "esp_kconfiglib.constants"):
                        dup.append(f"{m.relpath}:{n.lineno}")
        construct = f"constants.{name}/single spelling"
        (ctx.bad(construct, f"the literal {text!r} is spelled again at {dup}", dup[0]) if dup else ctx.ok(construct, cm.relpath, nontrivial=False))
    init = repo.func(f"{CORE}:Kconfig.__init__")
    construct = "Kconfig.__init__/comment_default_value = SDKCONFIG_DEFAULT_PRAGMA"
    ok = any(isinstance(n, ast.Assign) and ast.unparse(n.targets[0]) == "self.comment_default_value"
             and ast.unparse(n.value) == "SDKCONFIG_DEFAULT_PRAGMA" for n in ast.walk(init.node))
    (ctx.ok(construct, init.loc()) if ok else ctx.bad(construct, "the marker is no longer taken from the constant", init.loc()))
    lc = repo.func(f"{CORE}:Kconfig._load_config")
    cs = repo.func(f"{CORE}:Symbol.config_string")
    dc = repo.func("esp_kconfiglib.deprecated:DeprecatedOptions.deprecated_config_contents")
    ctx.analysed(lc.qual, cs.qual, dc.qual)
    cmp_found = set()
    for n in ast.walk(lc.node):
        if isinstance(n, ast.Compare) and len(n.ops) == 1 and isinstance(n.ops[0], ast.Eq) and "line" in ast.unparse(n.left):
            cmp_found.add(ast.unparse(n.comparators[0]))
        # `line... in (A, B)` compares with each of them
        if isinstance(n, ast.Compare) and len(n.ops) == 1 and isinstance(n.ops[0], ast.In) and "line" in ast.unparse(n.left) \
                and isinstance(n.comparators[0], (ast.Tuple, ast.List, ast.Set)):
            cmp_found |= {ast.unparse(e) for e in n.comparators[0].elts}
    for label, needle in (("reader compares lines with self.comment_default_value", "self.comment_default_value"),
                          ("reader recognises DEP_OP_BEGIN", "DEP_OP_BEGIN"), ("reader recognises DEP_OP_END", "DEP_OP_END")):
        construct = f"Kconfig._load_config/{label}"
        (ctx.ok(construct, lc.loc()) if needle in cmp_found else ctx.bad(construct, f"no `line... == {needle}` comparison", lc.loc()))
    construct = "Symbol.config_string/marker line is `{comment_default_value}\\n` before the entry"
    ok = False
    from .common import expand_locals
    for n in ast.walk(cs.node):
        tt = expand_locals(cs.node, n.test) if isinstance(n, ast.IfExp) else ""
        if isinstance(n, ast.IfExp) and "has_active_default_value()" in tt:
            sk = fstring_skeleton(n.body)
            ok = (sk is not None and len(sk) == 2 and isinstance(sk[0], tuple) and sk[0][1].endswith("comment_default_value")
                  and sk[1] == "\n" and isinstance(n.orelse, ast.Constant) and n.orelse.value == ""
                  and not ("not" in tt.split("self.has_active")[0]))
    (ctx.ok(construct, cs.loc()) if ok else ctx.bad(construct, "the marker is no longer `<marker>\\n` exactly when has_active_default_value()", cs.loc()))
    construct = "DeprecatedOptions.deprecated_config_contents/block wrapped in DEP_OP_BEGIN ... DEP_OP_END"
    ok = False
    for n in ast.walk(dc.node):
        if isinstance(n, ast.Return) and n.value is not None and "DEP_OP_BEGIN" in ast.unparse(n.value) and "DEP_OP_END" in ast.unparse(n.value):
            v = n.value
            if isinstance(v, ast.Call) and isinstance(v.func, ast.Attribute) and v.func.attr == "format" and isinstance(v.func.value, ast.Constant):
                args = ["BEGIN" if ast.unparse(a) == "DEP_OP_BEGIN" else "END" if ast.unparse(a) == "DEP_OP_END" else "ENTRY\n" for a in v.args]
                try:
                    text = v.func.value.value.format(*args)
                except Exception:
                    text = ""
                lines = text.split("\n")
                ok = "BEGIN" in lines and "END" in lines and "ENTRY" in lines and lines.index("BEGIN") < lines.index("ENTRY") < lines.index("END")
            elif isinstance(v, ast.JoinedStr):
                sk = fstring_skeleton(v) or []
                text = "".join(x if isinstance(x, str) else ("BEGIN" if x[1] == "DEP_OP_BEGIN" else "END" if x[1] == "DEP_OP_END" else "ENTRY\n") for x in sk)
                lines = text.split("\n")
                ok = "BEGIN" in lines and "END" in lines and "ENTRY" in lines and lines.index("BEGIN") < lines.index("ENTRY") < lines.index("END")
    (ctx.ok(construct, dc.loc()) if ok else ctx.bad(construct, "the deprecated block is no longer delimited by the two constants on their own lines", dc.loc()))


def r02_4(ctx):
    """R02.4 per-type reader coverage: _load_config parses bool / string / float right-hand sides and value_is_valid has
    a clause for each type (rows of the C06 dispatch table)."""
    before = len(ctx.instances)
    c06.r06_4(ctx)
    keep = [i for i in ctx.instances[before:] if i.construct.startswith("Kconfig._load_config/")]
    dropped = {i.construct for i in ctx.instances[before:] if not i.construct.startswith("Kconfig._load_config/")}
    ctx.instances[before:] = keep
    ctx.findings[:] = [f for f in ctx.findings if not (f.rule == ctx._rule and f.construct in dropped)]


def r02_5(ctx):
    """R02.5 traversal marks are reset before use: every tree walk that skips symbols by `_visited` first resets the mark
    on all unique_defined_syms (otherwise a second write is not byte-identical / drops symbols)."""
    repo = ctx.repo
    for q in (f"{CORE}:Kconfig._config_contents", f"{CORE}:Kconfig._min_config_contents_with_labels", f"{CORE}:Kconfig.node_iter"):
        f = repo.func(q)
        ctx.analysed(q)
        res = Resolver(f.node)
        fl = Flow(f.node, resolver=res).run()
        resets = [l for l in ast.walk(f.node) if isinstance(l, ast.For) and res.text(l.iter) == "self.unique_defined_syms"
                  and any(isinstance(s, ast.Assign) and ast.unparse(s.targets[0]) == f"{ast.unparse(l.target)}._visited"
                          and ast.unparse(s.value) == "False" for s in l.body)]
        reads = [n for n in ast.walk(f.node) if isinstance(n, ast.Attribute) and n.attr == "_visited" and isinstance(n.ctx, ast.Load)]
        construct = f"{f.short}/_visited reset over all symbols before the walk"
        if not reads:
            raise AnchorError(f"{f.short} no longer tests _visited")
        if not resets:
            ctx.bad(construct, "no loop resets sym._visited over self.unique_defined_syms", f.loc(reads[0]))
            continue
        gl = fl.guards_at(resets[0]) or set()
        params = {a.arg for a in f.node.args.args}
        bad = None
        for r in reads:
            gs = fl.guards_at(r) or set()
            if not (resets[0].lineno < r.lineno and all(g in gs for g in gl) and all(k in params for k, _ in gl)):
                bad = r
        if any(isinstance(x, (ast.Break, ast.Continue)) for x in ast.walk(resets[0])):
            bad = resets[0]
        (ctx.bad(construct, f"a `_visited` test is not covered by the reset loop (reset guards {sorted(gl)})", f.loc(bad)) if bad is not None
         else ctx.ok(construct, f.loc(resets[0]), reset_guards=sorted(map(str, gl))))
    # mark set when a symbol is first seen
    for q in (f"{CORE}:Kconfig._config_contents", f"{CORE}:Kconfig._min_config_contents_with_labels"):
        f = repo.func(q)
        construct = f"{f.short}/each symbol emitted at most once, at its first node"
        # the mark is set, and the entry emitted, only for a symbol that is not marked yet - whatever the spelling
        # (`if X._visited: continue` before it, or everything under `if not X._visited:`)
        fl2 = Flow(f.node, resolver=Resolver(f.node)).run()
        marks = [n for n in ast.walk(f.node) if isinstance(n, ast.Assign) and ast.unparse(n.targets[0]).endswith("._visited") and ast.unparse(n.value) == "True"]
        emits = [n for n in ast.walk(f.node) if isinstance(n, ast.Attribute) and n.attr == "config_string" and isinstance(n.ctx, ast.Load)]
        def unmarked(node):
            return any(k.endswith("._visited") and not p for k, p in (fl2.guards_at(node) or set()))
        mids = {id(m) for m in marks}
        fl3 = Flow(f.node, events=lambda st_: ["marked"] if id(st_) in mids else [], track_guards=False).run()
        ok = bool(marks) and all(unmarked(m) for m in marks) and bool(emits) and \
            all("marked" in (fl3.events_at(repo.enclosing_stmt(e)) or set()) for e in emits)
        (ctx.ok(construct, f.loc(), nontrivial=False) if ok else ctx.bad(construct, "the visited/continue/mark sequence changed", f.loc()))


def r02_6(ctx):
    """R02.6 one canonical float spelling on both sides (C06 R06.7): the evaluator, set_value and _load_config all
    normalise - a written default must compare equal to what the loader stores."""
    c06.r06_7(ctx)


def r02_7(ctx):
    """R02.7 a reset leaves no half-user choice (C05 R05.4): resetting a member or a choice clears the pick and every
    member's user value, otherwise the next write mixes marked and unmarked members and the reload differs."""
    c05.r05_4(ctx)


def r02_8(ctx):
    """R02.8 the tree walk of _config_contents emits exactly Symbol.config_string for every defined symbol (first node),
    menu comments only under their dependency/visibility, and the deprecated block last."""
    repo = ctx.repo
    f = repo.func(f"{CORE}:Kconfig._config_contents")
    ctx.analysed(f.qual)
    res = Resolver(f.node)
    fl = Flow(f.node, resolver=res).run()
    adds = [n for n in ast.walk(f.node) if isinstance(n, ast.Call) and ast.unparse(n.func) == "add" and n.args]
    cs = [a for a in adds if ast.unparse(a.args[0]) == "conf_string"]
    construct = "Kconfig._config_contents/emits item.config_string for every Symbol node seen first"
    if not cs:
        ctx.bad(construct, "config_string is no longer appended", f.loc())
    else:
        gs = fl.guards_at(cs[0]) or set()
        allowed = {("type(node.item) is Symbol", True), ("node.item._visited", False), ("item._visited", False),
                   ("not conf_string", False), ("conf_string", True), ("1", True), ("item.config_string", True),
                   ("node.item.config_string", True), ("type(item) is Symbol", True)}
        extra = sorted(g for g in gs if g not in allowed and "after_end_comment" not in g[0])
        src_ok = any(isinstance(n, ast.Assign) and ast.unparse(n.targets[0]) == "conf_string" and ast.unparse(n.value) == "item.config_string"
                     for n in ast.walk(f.node))
        (ctx.ok(construct, f.loc(cs[0])) if src_ok and not extra else
         ctx.bad(construct, f"extra guards {extra}; conf_string from config_string: {src_ok}", f.loc(cs[0])))
    dep = [a for a in adds if "deprecated_config_contents" in ast.unparse(a.args[0])]
    construct = "Kconfig._config_contents/deprecated block appended last, only when requested"
    if not dep:
        ctx.bad(construct, "deprecated block no longer written", f.loc())
    else:
        gs = fl.guards_at(dep[0]) or set()
        ok = ("write_deprecated", True) in gs and ("self._deprecated_options", True) in gs
        st = repo.enclosing_stmt(dep[0])
        par = repo.parent(st)
        body = getattr(par, "body", [])
        nxt = None
        pp = repo.parent(par)
        for fld in ("body", "orelse"):
            b = getattr(pp, fld, None)
            if isinstance(b, list) and par in b and b.index(par) + 1 < len(b):
                nxt = b[b.index(par) + 1]
        ok = ok and isinstance(nxt, ast.Return)
        (ctx.ok(construct, f.loc(dep[0])) if ok else ctx.bad(construct, f"guards {sorted(gs)}; followed by return: {isinstance(nxt, ast.Return)}", f.loc(dep[0])))


def r02_9(ctx):
    """R02.9 (a) every return of _escape is the full escape chain (no shortcut returns the raw string); (b) `promptless`
    is decided over all definitions of a symbol, never from nodes[0] alone, in the marker predicate and in the loader;
    (c) writers never split configuration text with str.splitlines() (it also splits on form feed, U+2028, ...)."""
    repo = ctx.repo
    esc = repo.func(f"{CORE}:_escape")
    param = esc.node.args.args[0].arg
    rets = [n for n in ast.walk(esc.node) if isinstance(n, ast.Return)]
    construct = "_escape/every return is the escape chain"
    bad = []
    for r in rets:
        rc = replace_chain(r.value) if r.value is not None else None
        if rc is None or rc[0] != param or not rc[1] or rc[1][0] != ("\\", "\\\\"):
            bad.append(r)
    (ctx.bad(construct, f"`{ast.unparse(bad[0])}` returns without escaping backslashes (unescape() on reload strips them): values with a backslash "
             "but no quote do not round-trip", esc.loc(bad[0])) if bad or not rets else ctx.ok(construct, esc.loc(), returns=len(rets)))
    n_sites = 0
    for q in (f"{CORE}:Symbol.has_active_default_value", f"{CORE}:Kconfig._load_config", f"{CORE}:Symbol._rec_invalidate_if_has_prompt",
              f"{CORE}:_visibility", f"{CORE}:Symbol.config_string"):
        f = repo.func(q)
        ctx.analysed(q)
        first_only = [n for n in ast.walk(f.node) if isinstance(n, ast.Attribute) and n.attr == "prompt" and isinstance(n.value, ast.Subscript)
                      and isinstance(n.value.value, ast.Attribute) and n.value.value.attr == "nodes" and isinstance(n.value.slice, ast.Constant)]
        quant = [n for n in ast.walk(f.node) if isinstance(n, (ast.GeneratorExp, ast.For)) and
                 ast.unparse(n.generators[0].iter if isinstance(n, ast.GeneratorExp) else n.iter).endswith(".nodes")]
        if not first_only and not quant:
            continue
        n_sites += 1
        construct = f"{f.short}/prompt tests quantify over all definitions"
        (ctx.bad(construct, f"`{ast.unparse(first_only[0])}` looks at the first definition only: a symbol whose first definition is promptless but which "
                 "has a prompt elsewhere is treated as promptless (always default-marked, user value ignored for the marker)", f.loc(first_only[0]))
         if first_only else ctx.ok(construct, f.loc(quant[0]), sites=len(quant)))
    if n_sites < 3:
        raise AnalysisError(f"only {n_sites} prompt-quantifying functions found")
    for q in (f"{CORE}:Kconfig.write_min_config", f"{CORE}:Kconfig._config_contents", f"{CORE}:Kconfig._min_config_contents", f"{CORE}:Kconfig.write_config"):
        f = repo.func(q)
        sl = [n for n in ast.walk(f.node) if isinstance(n, ast.Call) and isinstance(n.func, ast.Attribute) and n.func.attr == "splitlines"]
        construct = f"{f.short}/configuration text is split on newlines only"
        (ctx.bad(construct, "str.splitlines() also splits on form feed, U+001C-1E, U+0085, U+2028/9: a string value containing one is broken across lines",
                 f.loc(sl[0])) if sl else ctx.ok(construct, f.loc(), nontrivial=False))


def r02_10(ctx):
    """R02.10 reloading a tool-written file compares default-marked entries against the complete user state: they are
    resolved after all lines and after the deferred user choice selections (C08 R08.5) - otherwise a default that depends
    on the picked member is reported as a mismatch on reload."""
    from . import c08
    c08.r08_5(ctx)


def r02_11(ctx):
    """R02.11 what is written is what was stored: (a) Symbol.config_string interpolates the evaluated value itself in the
    int/hex/float line (the loader keeps the spelling it reads, so a writer-side prefix or re-formatting changes the value
    on reload and turns a Kconfig default into a mismatch); (b) no reader or writer in the library cuts line-oriented text
    with str.splitlines(); (c) the float validator accepts what the float normaliser writes (C06 R06.10)."""
    from .common import float_validator_shape, no_splitlines
    repo = ctx.repo
    f = repo.func(f"{CORE}:Symbol.config_string")
    ctx.analysed(f.qual)
    val = [n for n in f.node.body if isinstance(n, ast.Assign) and ast.unparse(n.value) == "self.str_value" and isinstance(n.targets[0], ast.Name)]
    if not val:
        raise AnchorError("config_string: no `<local> = self.str_value`")
    v = val[0].targets[0].id
    stores = [n for n in ast.walk(f.node) if isinstance(n, ast.Name) and n.id == v and isinstance(n.ctx, ast.Store)]
    construct = "Symbol.config_string/the evaluated value is written as it is"
    bad = None
    if len(stores) > 1:
        bad = f"`{v}` is re-assigned at line {stores[1].lineno} before it is written"
    for r in ast.walk(f.node):
        if isinstance(r, ast.Return) and r.value is not None:
            for fv in [x for x in ast.walk(r.value) if isinstance(x, ast.FormattedValue)]:
                names = {x.id for x in ast.walk(fv.value) if isinstance(x, ast.Name)}
                if v in names and not isinstance(fv.value, ast.Name) and not ast.unparse(fv.value).startswith(("_escape(", "escape(")):
                    bad = f"the value is written as `{ast.unparse(fv.value)}`"
    (ctx.bad(construct, bad + ": the loader stores the spelling it reads, so the reloaded value differs from the one that was written", f.loc())
     if bad else ctx.ok(construct, f.loc(val[0]), value_local=v))
    no_splitlines(ctx, [CORE, "esp_kconfiglib.deprecated"], "the loader / writer then sees one record where the file has two lines, or two where it has one")
    float_validator_shape(ctx)


def r02_12(ctx):
    """R02.12 what is written is the value of the *current* configuration and is read back under the same name: (a) the side
    results deciding the marker and the written lines are recomputed by every evaluation (C03 R03.7); (b) every evaluator
    read is an invalidation edge, so a write after an edit does not emit a cached value (Symbol part of C03 R03.1); (c) the
    loader applies the rename table only to names that are not defined options (C11 R11.1 guard) - a defined option that is
    also an old name in a rename file must be read back as itself."""
    from . import c03, c11
    from .common import delegate
    delegate(ctx, c03.r03_7, lambda c: True)
    delegate(ctx, c03.r03_1, lambda c: c.startswith("Symbol/"))
    delegate(ctx, c11.r11_1, lambda c: c.endswith(": guard") or "sites agree" in c)

def r02_13(ctx):
    """R02.13 every entry that is read is applied: the deferred assignments to choice members are applied for every choice, also when
    all of them are n (C05 R05.9) - an explicit `n` that is read but not applied comes back default-marked in the second write."""
    from . import c05
    from .common import delegate
    delegate(ctx, c05.r05_9, lambda c: "deferred member assignments" in c)


def r02_14(ctx):
    """R02.14 the marker and the value of one entry are decided in one evaluation: Symbol.config_string evaluates the value before it asks
    has_active_default_value() (C03 R03.6: the flag it reads is recomputed by that evaluation) - the other order writes a user value
    behind `# default:`; and every operand of a relation is a dependency (C03 R03.5): a value that stays stale after an edit is
    written behind the marker and reported as a mismatch on reload."""
    from . import c03
    from .common import delegate
    delegate(ctx, c03.r03_6, lambda c: 'config_string' in c)
    delegate(ctx, c03.r03_5, lambda c: c.startswith('_depend_on/'))


def r02_15(ctx):
    """R02.15 what is written is the state a fresh instance computes from the file: (a) a choice is registered as a dependent of
    every member unconditionally (C03 R03.1) - a member with a conditional prompt and no `depends on` otherwise leaves the
    cached selection stale, and write_config() emits a state no reload reproduces; (b) set_value() stores the user value
    whatever the option currently evaluates to (C03 R03.9) - a fast path for `already has that value` drops an assignment of
    a file whose later lines change the default."""
    from . import c03
    from .common import delegate
    delegate(ctx, c03.r03_1, lambda c: c.startswith("Choice/registration"))
    delegate(ctx, c03.r03_9, lambda c: c.startswith("Symbol.set_value/"))


def rules():
    return [("R02.15", r02_15, 2), ("R02.14", r02_14, 4), ("R02.13", r02_13, 1), ("R02.12", r02_12, 8), ("R02.11", r02_11, 3), ("R02.1", r02_1, 8), ("R02.2", r02_2, 8), ("R02.3", r02_3, 9), ("R02.4", r02_4, 3), ("R02.5", r02_5, 5),
            ("R02.6", r02_6, 3), ("R02.7", r02_7, 3), ("R02.8", r02_8, 2), ("R02.9", r02_9, 6), ("R02.10", r02_10, 3)]
