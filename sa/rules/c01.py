"""C01 - option values follow the documented precedence and visibility rules (necessary structural
conditions in esp_kconfiglib/core.py)."""
from __future__ import annotations

import ast
from typing import Dict, List, Optional, Set, Tuple

from ..flow import AnalysisError, Flow, Resolver, has_truthy
from ..foldcheck import chain_rules, check_binary_chain
from ..pathenum import NORM, RET, Enumerator, Path
from ..repo import AnchorError, Func

PROPERTY = "C01"
CORE = "esp_kconfiglib.core"
LEVEL_TEXT = (
    "Static analysis of the evaluators in esp_kconfiglib/core.py: guard sets of every user-value read (visibility), "
    "bounded path enumeration with boolean-flag tracking through the three typed branches of Symbol.str_value and "
    "through Symbol.bool_value (source priority set > user > set default > default; imply only without user value "
    "and under direct deps; select on every path), exhaustiveness of dependency propagation, soundness tables of the "
    "expression constructors and expr_value's operator dispatch. Necessary conditions, not the value semantics."
)


# ----------------------------------------------------------------------------- helpers shared with C05/C06
def typed_branches(fn: ast.FunctionDef) -> Dict[str, List[ast.stmt]]:
    """The INT/HEX, STRING and FLOAT branches of Symbol.str_value, located by what their test mentions."""
    out: Dict[str, List[ast.stmt]] = {}

    def visit_chain(node: ast.If):
        t = ast.unparse(node.test)
        if "orig_type" in t:
            if "_INT_HEX" in t and "FLOAT" not in t or ("INT" in t and "HEX" in t and "FLOAT" not in t):
                out["INTHEX"] = node.body
            elif "STRING" in t:
                out["STRING"] = node.body
            elif "FLOAT" in t:
                out["FLOAT"] = node.body
        if len(node.orelse) == 1 and isinstance(node.orelse[0], ast.If):
            visit_chain(node.orelse[0])

    for st in fn.body:
        if isinstance(st, ast.If) and "orig_type" in ast.unparse(st.test) and st.orelse:
            visit_chain(st)
    if set(out) != {"INTHEX", "STRING", "FLOAT"}:
        raise AnchorError(f"cannot locate the three typed branches of str_value (found {sorted(out)})")
    return out


def result_var(fn: ast.FunctionDef, slot: str) -> str:
    """Name of the local stored into self.<slot> at the end of the evaluator."""
    names = []
    for st in fn.body:
        if isinstance(st, ast.Assign) and any(ast.unparse(t) == f"self.{slot}" for t in st.targets) and isinstance(st.value, ast.Name):
            names.append(st.value.id)
    if not names:
        raise AnchorError(f"no `self.{slot} = <name>` at the top level of {fn.name}")
    return names[-1]


LOOP_CLASS = {"self.rev_values": "REV", "self.weak_rev_values": "WEAK", "self.defaults": "DEF", "self.ranges": "RANGE"}
RANK = {"REV": 0, "USER": 1, "WEAK": 2, "DEF": 3}


def classify_str_value_paths(body: List[ast.stmt], result: str, max_iter: int) -> List[Tuple[Path, str]]:
    """Enumerate paths of one typed branch; events: SRC:<class> for assignments of the result variable,
    NUM for assignments of a numeric shadow (val_num_*), CLAMP for non-source rewrites of the result."""

    def on_stmt(st, p: Path, loops):
        tgts: List[ast.AST] = []
        val = None
        if isinstance(st, ast.Assign):
            tgts, val = list(st.targets), st.value
        elif isinstance(st, ast.AnnAssign) and st.value is not None:
            tgts, val = [st.target], st.value
        for t in tgts:
            for e in (t.elts if isinstance(t, (ast.Tuple, ast.List)) else [t]):
                if isinstance(e, ast.Name) and e.id == result and val is not None:
                    if isinstance(val, ast.Constant) and val.value == "":
                        p.flags[result] = False
                        continue
                    # assumption (stated in DESIGN): a value taken from a source is non-empty, so the repository's
                    # `if not val:` idiom means "no source has provided a value yet"
                    p.flags[result] = True
                    cls = None
                    if "_user_value" in ast.unparse(val):
                        cls = "USER"
                    else:
                        for l in reversed(loops):
                            c = LOOP_CLASS.get(ast.unparse(l.iter)) if isinstance(l, ast.For) else None
                            if c:
                                cls = c
                                break
                    if cls is None or cls == "RANGE":
                        cls = "CLAMP"
                    p.events.append(("SRC:" + cls if cls != "CLAMP" else "CLAMP", st.lineno, ast.unparse(val)))
                elif isinstance(e, ast.Name) and e.id.startswith("val_num") and val is not None:
                    p.events.append(("NUM", st.lineno, e.id))

    return Enumerator(on_stmt, max_iter=max_iter).run(body, Path({result: False}))


def vis_var(fn: ast.FunctionDef) -> str:
    """local that holds self.visibility in an evaluator (`vis = self.visibility`)."""
    for st in ast.walk(fn):
        if isinstance(st, ast.Assign) and ast.unparse(st.value) == "self.visibility" and isinstance(st.targets[0], ast.Name):
            return st.targets[0].id
    raise AnchorError(f"{fn.name}: no local bound to self.visibility")


def _cond_mentions(p: Path, name: str, pol: bool, before_line: Optional[int] = None) -> bool:
    """a branch condition on the path that tests the local `name` (as a conjunct) with the given polarity"""
    for c, pl, ln, node in p.conds:
        if before_line is not None and ln > before_line:
            continue
        if pl == pol and isinstance(node, ast.AST) and any(isinstance(x, ast.Name) and x.id == name for x in ast.walk(node)):
            return True
    return False


def _cond_has(p: Path, needle: str, pol: bool, before_line: Optional[int] = None) -> bool:
    return any(needle in c and pl == pol and (before_line is None or ln <= before_line) for c, pl, ln, _ in p.conds)


# ----------------------------------------------------------------------------- R01.1
def r01_1(ctx):
    """R01.1 every read of a user value / user selection on an output path is guarded by the visibility of the
    same item (a hidden option's user value has no effect on any output)."""
    repo = ctx.repo
    sites = 0
    for q in (f"{CORE}:Symbol.str_value", f"{CORE}:Symbol.bool_value", f"{CORE}:Symbol.has_active_default_value",
              f"{CORE}:Symbol.config_string", f"{CORE}:Symbol._str_default", f"{CORE}:Symbol._assignable"):
        f = repo.func(q)
        ctx.analysed(q)
        res = Resolver(f.node)
        fl = Flow(f.node, resolver=res).run()
        n_in_f: Dict[str, int] = {}
        for n in ast.walk(f.node):
            if isinstance(n, ast.Attribute) and n.attr == "_user_value" and isinstance(n.ctx, ast.Load) \
                    and ast.unparse(n.value) == "self":
                gs = fl.guards_at(n)
                if gs is None:
                    continue
                stmt = repo.enclosing_stmt(n)
                label = "test" if isinstance(stmt, (ast.If, ast.While)) else "use"
                k = f"{f.short}/{label} of self._user_value"
                n_in_f[k] = n_in_f.get(k, 0) + 1
                construct = f"{k} #{n_in_f[k]}" if label == "use" else k
                sites += 1
                if has_truthy(gs, "self.visibility"):
                    ctx.ok(construct, f.loc(n), guard="truthy(self.visibility)")
                else:
                    ctx.bad(construct, "self._user_value is read without the symbol's visibility being established: a "
                            "user value on an option whose prompt condition is false influences this output", f.loc(n),
                            guards=sorted(map(str, gs)))
    # Choice: the user selection is used only if it is visible; the mode is bounded by the visibility
    f = repo.func(f"{CORE}:Choice._selection")
    ctx.analysed(f.qual)
    res = Resolver(f.node)
    fl = Flow(f.node, resolver=res).run()
    found = False
    for n in ast.walk(f.node):
        if isinstance(n, ast.Return) and n.value is not None and ast.unparse(Resolver(f.node).resolve(n.value)) == "self._user_selection":
            found = True
            gs = fl.guards_at(n) or set()
            construct = "Choice._selection/return self._user_selection"
            if has_truthy(gs, "self._user_selection.visibility"):
                ctx.ok(construct, f.loc(n), guard="truthy(self._user_selection.visibility)")
            else:
                ctx.bad(construct, "the user's pick is returned without checking that the member is visible", f.loc(n),
                        guards=sorted(map(str, gs)))
    if not found:
        raise AnchorError("Choice._selection no longer returns self._user_selection")
    f = repo.func(f"{CORE}:Choice.bool_value")
    ctx.analysed(f.qual)
    ret = [n for n in ast.walk(f.node) if isinstance(n, ast.Return) and isinstance(n.value, ast.Name)]
    direct = [n for n in ast.walk(f.node) if isinstance(n, ast.Return) and isinstance(n.value, ast.Call) and ast.unparse(n.value.func) == "min"]
    if not ret and direct:
        # `return min(<mode>, self.visibility)` - the meet is the returned expression itself
        construct = "Choice.bool_value/mode bounded by visibility"
        all_ret = [n for n in ast.walk(f.node) if isinstance(n, ast.Return)]
        if len(all_ret) == len(direct) and all(any(ast.unparse(a) == "self.visibility" for a in n.value.args) for n in direct):
            ctx.ok(construct, f.loc(direct[-1]), expr=ast.unparse(direct[-1].value))
        else:
            ctx.bad(construct, "the choice mode is not the meet of the user mode and the visibility as its last step", f.loc(direct[-1]))
        return
    if not ret:
        raise AnchorError("Choice.bool_value has no `return <name>`")
    rv = ret[-1].value.id
    last = None
    for st in f.node.body:
        if isinstance(st, ast.Assign) and any(isinstance(t, ast.Name) and t.id == rv for t in st.targets):
            last = st
    construct = "Choice.bool_value/mode bounded by visibility"
    ok = (last is not None and isinstance(last.value, ast.Call) and ast.unparse(last.value.func) == "min"
          and any(ast.unparse(a) == "self.visibility" for a in last.value.args)
          and any(ast.unparse(a) == rv for a in last.value.args))
    if ok:
        ctx.ok(construct, f.loc(last), expr=ast.unparse(last.value))
    else:
        ctx.bad(construct, "the choice mode is not the meet of the user mode and the visibility as its last step",
                f.loc(last or f.node))


# ----------------------------------------------------------------------------- R01.2
def r01_2(ctx):
    """R01.2 source priority in the three typed branches of Symbol.str_value over all flag-feasible paths:
    no lower-priority source assigns after a higher one; a source is only used after every higher-priority source was
    consulted; USER needs visibility, no active `set`, and (numeric) the range test; WEAK needs the direct deps;
    the three branches exhibit the same source sequences."""
    repo = ctx.repo
    f = repo.func(f"{CORE}:Symbol.str_value")
    ctx.analysed(f.qual)
    branches = typed_branches(f.node)
    result = result_var(f.node, "_cached_str_val")
    max_iter = 1 if ctx.tier == "quick" else 2
    seqs: Dict[str, Set[Tuple[str, ...]]] = {}
    vv = vis_var(f.node)
    for name, body in branches.items():
        paths = classify_str_value_paths(body, result, max_iter)
        nviol: Dict[str, Tuple[str, int]] = {}
        seqs[name] = set()
        for p, status in paths:
            srcs = [(e[0][4:], e[1]) for e in p.events if e[0].startswith("SRC:")]
            seqs[name].add(tuple(dict.fromkeys(s for s, _ in srcs)))
            loops_seen = {LOOP_CLASS.get(e[0][5:]) for e in p.events if e[0].startswith("loop:")}
            # (a) order
            for (a, la), (b, lb) in zip(srcs, srcs[1:]):
                if RANK[b] > RANK[a]:
                    nviol.setdefault("order", (f"{b} (line {lb}) assigns the value after {a} (line {la}) already did", lb))
            for s, ln in srcs:
                # (b) consultation of higher ranks
                if RANK[s] > RANK["REV"] and "REV" not in loops_seen:
                    nviol.setdefault(f"{s} without consulting set", (f"{s} is used on a path that never looked at self.rev_values", ln))
                if RANK[s] > RANK["USER"] and not any("_user_value" in c and l2 <= ln for c, _, l2, _ in p.conds):
                    nviol.setdefault(f"{s} without consulting the user value",
                                     (f"{s} is used on a path that never tested self._user_value", ln))
                if s == "DEF" and "WEAK" not in loops_seen:
                    nviol.setdefault("DEF without consulting set default",
                                     ("a default is used on a path that never looked at self.weak_rev_values", ln))
                # (c) USER guards
                if s == "USER":
                    if not (_cond_mentions(p, vv, True, ln)):
                        nviol.setdefault("USER without visibility", ("user value used without a positive visibility test", ln))
                    if p.flags.get("self._has_active_indirect_set") is not False:
                        nviol.setdefault("USER under active set",
                                         ("user value used on a path where self._has_active_indirect_set is not known False", ln))
                    if name != "STRING" and p.flags.get("has_active_range") is True:
                        ok = any(isinstance(node, ast.AST) and any(isinstance(x, ast.Compare) and len(x.ops) == 2 for x in ast.walk(node))
                                 and l2 <= ln for _, _, l2, node in p.conds)
                        if not ok:
                            nviol.setdefault("USER without range test",
                                             ("user value accepted under an active range without the low <= v <= high test", ln))
                # (d) WEAK guard
                if s == "WEAK" and not _cond_has(p, "expr_value(self.direct_dep)", True, ln):
                    nviol.setdefault("WEAK without direct deps",
                                     ("`set default` value used without testing expr_value(self.direct_dep)", ln))
                if s == "REV" and p.flags.get("self._has_active_indirect_set") is False:
                    nviol.setdefault("REV without lock flag", ("a forced value is used but _has_active_indirect_set is False", ln))
        for k, (msg, ln) in sorted(nviol.items()):
            ctx.bad(f"Symbol.str_value/{name}/{k}", msg, f.loc(f.node).rsplit(":", 1)[0] + f":{ln}")
        if not nviol:
            ctx.ok(f"Symbol.str_value/{name}/source priority", f.loc(body[0]), paths=len(paths),
                   sequences=sorted(" > ".join(s) or "-" for s in seqs[name]))
        ctx.note(f"R01.2 {name}: {len(paths)} flag-feasible paths (loops 0..{max_iter})")
    # (e) sibling agreement
    base = seqs["STRING"]
    for name in ("INTHEX", "FLOAT"):
        construct = f"Symbol.str_value/{name}/same source sequences as STRING"
        if seqs[name] == base:
            ctx.ok(construct, f.loc(branches[name][0]), nontrivial=True)
        else:
            ctx.bad(construct, f"source sequences differ from the STRING branch: only here {sorted(seqs[name] - base)}, "
                    f"only in STRING {sorted(base - seqs[name])}", f.loc(branches[name][0]))


# ----------------------------------------------------------------------------- R01.3
def bool_value_paths(fn: ast.FunctionDef, result: str, max_iter: int):
    def on_stmt(st, p: Path, loops):
        txt = ast.unparse(st)
        if "expr_value(self.weak_rev_dep)" in txt:
            p.events.append(("consult:IMPLY", st.lineno, None))
        if "expr_value(self.rev_dep)" in txt:
            p.events.append(("consult:SELECT", st.lineno, None))
        if isinstance(st, ast.Assign) and any(isinstance(t, ast.Name) and t.id == result for t in st.targets):
            v = st.value
            if isinstance(v, ast.Constant):
                p.events.append(("CONST", st.lineno, v.value))
                return
            vt = ast.unparse(v)
            if "_user_value" in vt:
                cls = "USER"
            elif any(isinstance(l, ast.For) and ast.unparse(l.iter) == "self.defaults" for l in loops):
                cls = "DEF"
            elif "self.choice.selection" in vt:
                cls = "CHOICE"
            else:
                last = [e[0] for e in p.events if e[0].startswith("consult:")]
                cls = last[-1][8:] if last else "?"
            p.events.append(("SRC:" + cls, st.lineno, v))
        if isinstance(st, ast.Assign) and any(ast.unparse(t) == "self._cached_bool_val" for t in st.targets):
            p.events.append(("STORE", st.lineno, None))

    start = 0
    for i, st in enumerate(fn.body):
        if any(isinstance(a, ast.Assign) and any(isinstance(t, ast.Name) and t.id == result for t in a.targets) for a in ast.walk(st)):
            start = i
            break
    # keep `vis = self.visibility` etc. out: enumerate from the first statement that assigns the result variable (directly, or
    # inside a guard clause such as `if self.choice: ...; return val`)
    return Enumerator(on_stmt, max_iter=max_iter).run(fn.body[start:], Path())


def r01_3(ctx):
    """R01.3 Symbol.bool_value: user value only under visibility and met with it; defaults and imply only without a
    user value; imply only under the direct deps; select applied on every non-choice path as a join; none of the
    three reachable for choice members."""
    repo = ctx.repo
    f = repo.func(f"{CORE}:Symbol.bool_value")
    ctx.analysed(f.qual)
    result = result_var(f.node, "_cached_bool_val")
    paths = bool_value_paths(f.node, result, 1 if ctx.tier == "quick" else 2)
    vv = vis_var(f.node)
    sel_var = next((ast.unparse(st.targets[0]) for st in ast.walk(f.node) if isinstance(st, ast.Assign)
                    and ast.unparse(st.value) == "expr_value(self.rev_dep)"), "dep_val")
    viol: Dict[str, Tuple[str, int]] = {}
    n_nonchoice = 0
    for p, status in paths:
        if status not in (NORM, RET):
            continue
        srcs = [(e[0][4:], e[1], e[2]) for e in p.events if e[0].startswith("SRC:")]
        kinds = [s for s, _, _ in srcs]
        nonchoice = any(c == "not self.choice" and pol or c == "self.choice" and not pol for c, pol, _, _ in p.conds)
        choice = any(c == "not self.choice" and not pol or c == "self.choice" and pol for c, pol, _, _ in p.conds)
        for s, ln, v in srcs:
            if s == "?":
                raise AnalysisError(f"unclassified assignment of {result} at line {ln}")
            if s in ("DEF", "IMPLY", "SELECT") and not nonchoice:
                viol.setdefault(f"{s} reachable for choice members", (f"{s} is applied on a path not guarded by `not self.choice`", ln))
            if s == "USER":
                if not _cond_mentions(p, vv, True, ln):
                    viol.setdefault("USER without visibility", ("user value used without a positive visibility test", ln))
                if nonchoice:
                    ok = isinstance(v, ast.Call) and ast.unparse(v.func) == "min" and any(ast.unparse(a) == vv for a in v.args)
                    if not ok:
                        viol.setdefault("USER not bounded by visibility", ("the user value is not met (min) with the visibility", ln))
            if s in ("DEF", "IMPLY") and "USER" in kinds:
                viol.setdefault(f"{s} together with USER", (f"{s} is applied on a path that also took the user value", ln))
            if s in ("DEF", "IMPLY") and not any("_user_value" in c for c, _, l2, _ in p.conds if l2 <= ln):
                viol.setdefault(f"{s} without consulting the user value", (f"{s} applied on a path that never tested self._user_value", ln))
            if s == "IMPLY":
                if not _cond_has(p, "expr_value(self.direct_dep)", True, ln):
                    viol.setdefault("IMPLY without direct deps", ("imply applied without testing expr_value(self.direct_dep)", ln))
                ok = isinstance(v, ast.Call) and ast.unparse(v.func) == "max"
                if not ok:
                    viol.setdefault("IMPLY is not a join", ("imply does not raise the value with max()", ln))
            if s == "SELECT":
                ok = isinstance(v, ast.Call) and ast.unparse(v.func) == "max" and any(ast.unparse(a) == result for a in v.args)
                if not ok:
                    viol.setdefault("SELECT is not a join", ("select does not raise the value with max(dep, val)", ln))
        if nonchoice and any(e[0] == "STORE" for e in p.events):
            n_nonchoice += 1
            if not any(e[0] == "consult:SELECT" for e in p.events):
                viol.setdefault("SELECT skipped", ("a non-choice path stores the value without evaluating self.rev_dep", 0))
            # select must be the last source on the path
            if "SELECT" in kinds and kinds[-1] != "SELECT":
                viol.setdefault("SELECT overridden", (f"{kinds[-1]} assigns after select", srcs[-1][1]))
            # an enabled select raises the value: path with dep_val true after the select consult must assign
            sel_line = [e[1] for e in p.events if e[0] == "consult:SELECT"]
            if sel_line and any(c == sel_var and pol and ln > sel_line[-1] for c, pol, ln, _ in p.conds) and "SELECT" not in kinds:
                viol.setdefault("SELECT not applied", ("rev_dep is true on a path but the value is not raised", sel_line[-1]))
        if choice and any(k in ("DEF", "IMPLY", "SELECT") for k in kinds):
            viol.setdefault("choice member takes defaults/imply/select", ("", 0))
    if n_nonchoice < 4:
        raise AnalysisError(f"only {n_nonchoice} non-choice paths found in Symbol.bool_value")
    base = f.loc().rsplit(":", 1)[0]
    for k, (msg, ln) in sorted(viol.items()):
        ctx.bad(f"Symbol.bool_value/{k}", msg, f"{base}:{ln}")
    for label in ("USER under visibility and met with it", "defaults and imply only without user value",
                  "imply under direct deps, as join", "select on every non-choice path, last, as join",
                  "no default/imply/select for choice members"):
        if not viol:
            ctx.ok(f"Symbol.bool_value/{label}", f.loc(), paths=len(paths))
    ctx.note(f"R01.3: {len(paths)} flag-feasible paths, {n_nonchoice} non-choice paths to the store")


# ----------------------------------------------------------------------------- R01.4
PROP_LISTS_EXPECTED_MIN = {"defaults", "ranges", "selects", "implies", "sets", "weak_sets"}


def r01_4(ctx):
    """R01.4 dependency propagation is exhaustive: every per-node property list copied to the symbol in
    _add_props_to_sym is rewritten in _propagate_deps with the parent dependency ANDed into its condition; the prompt
    additionally receives `visible if`; the Choice itself is the base dependency of its members."""
    repo = ctx.repo
    add = repo.func(f"{CORE}:Kconfig._add_props_to_sym")
    prop = repo.func(f"{CORE}:Kconfig._propagate_deps")
    fin = repo.func(f"{CORE}:Kconfig._finalize_node")
    ctx.analysed(add.qual, prop.qual, fin.qual)
    copied: Dict[str, int] = {}
    for n in ast.walk(add.node):
        if isinstance(n, ast.AugAssign) and isinstance(n.op, ast.Add) and isinstance(n.target, ast.Attribute) \
                and isinstance(n.value, ast.Attribute) and n.value.attr == n.target.attr:
            copied[n.target.attr] = n.lineno
    if not PROP_LISTS_EXPECTED_MIN <= set(copied):
        raise AnchorError(f"_add_props_to_sym copies {sorted(copied)}; expected at least {sorted(PROP_LISTS_EXPECTED_MIN)}")
    # dep variable: `dep = cur.dep = self._make_and(cur.dep, basedep)`
    depvar = None
    basedep_ok = False
    for n in ast.walk(prop.node):
        if isinstance(n, ast.Assign) and isinstance(n.value, ast.Call) and ast.unparse(n.value.func) == "self._make_and":
            tg = [ast.unparse(t) for t in n.targets]
            if any(t.endswith(".dep") for t in tg) and any(isinstance(t, ast.Name) for t in n.targets):
                depvar = [t.id for t in n.targets if isinstance(t, ast.Name)][0]
                args = [ast.unparse(a) for a in n.value.args]
                basedep_ok = "basedep" in args and any(a.endswith(".dep") for a in args)
    if depvar is None:
        raise AnchorError("_propagate_deps: cannot find `dep = cur.dep = self._make_and(cur.dep, basedep)`")
    construct = "Kconfig._propagate_deps/child dep = own dep AND parent dep"
    (ctx.ok if basedep_ok else ctx.bad)(construct, *((prop.loc(),) if basedep_ok else ("child dependency no longer ANDs the parent's", prop.loc())))
    # basedep = node.item if type(node.item) is Choice else node.dep
    bd = [n for n in ast.walk(prop.node) if isinstance(n, ast.Assign) and any(ast.unparse(t) == "basedep" for t in n.targets)]
    construct = "Kconfig._propagate_deps/Choice is the base dependency of its members"
    ok = bool(bd) and isinstance(bd[0].value, ast.IfExp) and "Choice" in ast.unparse(bd[0].value.test) \
        and ast.unparse(bd[0].value.body).endswith(".item") and ast.unparse(bd[0].value.orelse).endswith(".dep")
    if ok:
        ctx.ok(construct, prop.loc(bd[0]), expr=ast.unparse(bd[0].value))
    else:
        ctx.bad(construct, "basedep is no longer `node.item if type(node.item) is Choice else node.dep`", prop.loc(bd[0] if bd else prop.node))
    res = Resolver(prop.node)
    fl = Flow(prop.node, resolver=res).run()
    rewritten: Dict[str, ast.AST] = {}
    for n in ast.walk(prop.node):
        if isinstance(n, ast.Assign) and len(n.targets) == 1 and isinstance(n.targets[0], ast.Attribute) \
                and isinstance(n.value, ast.ListComp):
            attr = n.targets[0].attr
            elt = n.value.elt
            gen = n.value.generators[0]
            same_src = isinstance(gen.iter, ast.Attribute) and gen.iter.attr == attr
            last = elt.elts[-1] if isinstance(elt, ast.Tuple) and elt.elts else None
            tvars = [t.id for t in gen.target.elts] if isinstance(gen.target, ast.Tuple) else []
            good = (same_src and isinstance(last, ast.Call) and ast.unparse(last.func) == "self._make_and"
                    and len(last.args) == 2 and ast.unparse(last.args[1]) == depvar and tvars
                    and ast.unparse(last.args[0]) == tvars[-1]
                    and [ast.unparse(e) for e in elt.elts[:-1]] == tvars[:-1])
            gs = fl.guards_at(n) or set()
            extra = [(k, p) for k, p in gs if not (k.endswith("." + attr) and p) and "_SYMBOL_CHOICE" not in k
                     and not k.startswith("cur") or (k == "cur" and not p)]
            extra = [(k, p) for k, p in gs if not ((k.endswith("." + attr) and p) or "_SYMBOL_CHOICE" in k or k == "cur")]
            if good and not extra:
                rewritten[attr] = n
            elif good:
                ctx.bad(f"Kconfig._propagate_deps/{attr} propagation is conditional", f"guarded by {extra}", prop.loc(n))
                rewritten[attr] = n
    for attr, ln in sorted(copied.items()):
        construct = f"Kconfig._propagate_deps/parent deps ANDed into {attr}"
        if attr in rewritten:
            ctx.ok(construct, prop.loc(rewritten[attr]))
        else:
            ctx.bad(construct, f"node.{attr} is copied to the symbol by _add_props_to_sym but _propagate_deps does not AND the "
                    f"parent dependency into its condition: a `{attr}` entry inside a false if/menu/depends stays active",
                    f"{add.module.relpath}:{ln}")
    # prompt: visible_if and dep
    pr = [n for n in ast.walk(prop.node) if isinstance(n, ast.Assign) and any(ast.unparse(t).endswith(".prompt") for t in n.targets)]
    sym_prompt = [n for n in pr if "visible_if" in ast.unparse(n.value)]
    construct = "Kconfig._propagate_deps/symbol prompt gets visible_if AND dep"
    ok = bool(sym_prompt) and depvar in [x.id for x in ast.walk(sym_prompt[0].value) if isinstance(x, ast.Name)] \
        and ".prompt[1]" in ast.unparse(sym_prompt[0].value) and ast.unparse(sym_prompt[0].value).count("_make_and") >= 2
    if ok:
        ctx.ok(construct, prop.loc(sym_prompt[0]), expr=ast.unparse(sym_prompt[0].value))
    else:
        ctx.bad(construct, "the prompt condition of symbols/choices no longer ANDs both `visible if` and the dependency",
                prop.loc(sym_prompt[0] if sym_prompt else prop.node))
    other = [n for n in pr if "visible_if" not in ast.unparse(n.value)]
    construct = "Kconfig._propagate_deps/menu and comment prompt gets dep"
    ok = bool(other) and depvar in [x.id for x in ast.walk(other[0].value) if isinstance(x, ast.Name)] and "_make_and" in ast.unparse(other[0].value)
    (ctx.ok(construct, prop.loc(other[0])) if ok else ctx.bad(construct, "prompt of menus/comments no longer ANDs the dependency", prop.loc()))
    # _finalize_node threads visible_if through menus and calls _propagate_deps before finalizing children
    vis = [n for n in ast.walk(fin.node) if isinstance(n, ast.Assign) and any(ast.unparse(t) == "visible_if" for t in n.targets)]
    construct = "Kconfig._finalize_node/visible_if accumulates menu visibility"
    ok = bool(vis) and "_make_and" in ast.unparse(vis[0].value) and "visible_if" in ast.unparse(vis[0].value) \
        and ".visibility" in ast.unparse(vis[0].value)
    if ok:
        gs = Flow(fin.node).run().guards_at(vis[0]) or set()
        ok = any("MENU" in k and p for k, p in gs)
    (ctx.ok(construct, fin.loc(vis[0])) if ok else ctx.bad(construct, "`visible if` of an enclosing menu is not ANDed into the inherited visibility", fin.loc()))
    calls = [n for n in ast.walk(fin.node) if isinstance(n, ast.Call) and ast.unparse(n.func) == "self._propagate_deps"]
    construct = "Kconfig._finalize_node/propagates before finalizing children"
    # the children loop: a cursor that starts at `node.list` and is handed to the recursive call
    starts = [n for n in ast.walk(fin.node) if isinstance(n, ast.Assign) and len(n.targets) == 1 and isinstance(n.targets[0], ast.Name)
              and ast.unparse(n.value) == "node.list"]
    rec = []
    for st_ in starts:
        cur_ = st_.targets[0].id
        # the cursor itself or a plain alias of it (`cur = cursor` as the loop variable of an inlined generator)
        curs = {cur_} | {a.targets[0].id for a in ast.walk(fin.node) if isinstance(a, ast.Assign) and len(a.targets) == 1 and isinstance(a.targets[0], ast.Name)
                         and isinstance(a.value, ast.Name) and a.value.id == cur_}
        rec += [(st_, n) for n in ast.walk(fin.node) if isinstance(n, ast.Call) and ast.unparse(n.func) == "self._finalize_node"
                and n.args and ast.unparse(n.args[0]) in curs and n.lineno > st_.lineno]
    marks = {id(repo.enclosing_stmt(c)) for c in calls}
    flp = Flow(fin.node, events=lambda st__: ["propagated"] if id(st__) in marks else [], track_guards=False).run()
    ok = bool(calls) and bool(rec) and all("propagated" in (flp.events_at(st_) or set()) for st_, _ in rec) and ast.unparse(calls[0].args[1]) == "visible_if"
    (ctx.ok(construct, fin.loc(calls[0])) if ok else ctx.bad(construct, "_propagate_deps(node, visible_if) no longer precedes the recursive finalisation", fin.loc()))


# ----------------------------------------------------------------------------- R01.5
def r01_5(ctx):
    """R01.5 expression algebra: _make_and/_make_or simplifications are sound rewrite rules; expr_value dispatches
    AND/OR/NOT as meet/join/complement on {0,2} and covers the six relations; _visibility is the join over all nodes
    with a prompt."""
    repo = ctx.repo
    consts = {"self.y": "y", "self.n": "n"}
    for name, op, fn in (("_make_and", "AND", min), ("_make_or", "OR", max)):
        f = repo.func(f"{CORE}:Kconfig.{name}")
        ctx.analysed(f.qual)
        params = [a.arg for a in f.node.args.args][1:]
        rules = chain_rules(f.node.body)
        last = rules[-1][1]
        if not (isinstance(last, ast.Tuple) and ast.unparse(last.elts[0]) == op):
            ctx.bad(f"Kconfig.{name}/constructs {op}", f"final result is {ast.unparse(last)}, expected ({op}, e1, e2)", f.loc())
            continue
        bad = check_binary_chain(rules, params[0], params[1], consts, op, fn)
        construct = f"Kconfig.{name}/rewrite rules sound"
        if bad:
            b = bad[0]
            ctx.bad(construct, f"operands {b['operands']} valuation {b['valuation']}: rule at line {b['rule_line']} returns "
                    f"{b['result']} (value {b['got']}) but {op} gives {b['expected']}", f"{f.module.relpath}:{b['rule_line']}")
        else:
            ctx.ok(construct, f.loc(), rules=len(rules), operand_combinations=24)
    # expr_value
    f = repo.func(f"{CORE}:expr_value")
    ctx.analysed(f.qual)
    arms: Dict[str, ast.If] = {}
    for st in f.node.body:
        if isinstance(st, ast.If) and isinstance(st.test, ast.Compare) and ast.unparse(st.test.left) == "expr[0]" \
                and isinstance(st.test.ops[0], ast.Eq):
            arms[ast.unparse(st.test.comparators[0])] = st
    for opn in ("AND", "OR", "NOT"):
        construct = f"expr_value/{opn} arm"
        if opn not in arms:
            ctx.bad(construct, f"expr_value has no `expr[0] == {opn}` arm", f.loc())
            continue
        body = arms[opn].body
        ret = [n for n in body if isinstance(n, ast.Return)]
        txt = ast.unparse(ret[-1].value) if ret else ""
        if opn == "AND":
            ok = "min(" in txt and "expr_value(expr[2])" in txt and any("expr_value(expr[1])" in ast.unparse(s) for s in body) \
                and ("0 if not" in txt or txt.startswith("min("))
        elif opn == "OR":
            ok = "max(" in txt and "expr_value(expr[2])" in txt and any("expr_value(expr[1])" in ast.unparse(s) for s in body) \
                and ("2 if" in txt or txt.startswith("max("))
        else:
            ok = txt.replace(" ", "") == "2-expr_value(expr[1])"
        if ok:
            ctx.ok(construct, f.loc(arms[opn]), expr=txt)
        else:
            ctx.bad(construct, f"{opn} is no longer evaluated as {'min' if opn == 'AND' else 'max' if opn == 'OR' else '2 - x'} of its operands: {txt}",
                    f.loc(arms[opn]))
    rel_ret = [st for st in f.node.body if isinstance(st, ast.Return)]
    construct = "expr_value/relation dispatch"
    if not rel_ret:
        ctx.bad(construct, "no final relation return", f.loc())
    else:
        txt = ast.unparse(rel_ret[-1].value)
        want = {"EQUAL": "comp == 0", "UNEQUAL": "comp != 0", "LESS": "comp < 0", "LESS_EQUAL": "comp <= 0", "GREATER": "comp > 0"}
        missing = []
        node = rel_ret[-1].value
        pairs: List[Tuple[str, str]] = []
        for x in ast.walk(node):
            if isinstance(x, ast.IfExp) and isinstance(x.test, ast.Compare) and ast.unparse(x.test.left) == "rel":
                pairs.append((ast.unparse(x.test.comparators[0]), ast.unparse(x.body)))
        final_else = None
        x = node
        while True:
            ies = [y for y in ast.walk(x) if isinstance(y, ast.IfExp)]
            if not ies:
                break
            x = ies[0]
            while isinstance(x.orelse, ast.IfExp):
                x = x.orelse
            final_else = ast.unparse(x.orelse)
            break
        if not pairs:
            # the same table as an if/elif statement chain that assigns the verdict to a local which is then returned scaled
            def chain_expr(st, var):
                if isinstance(st, ast.If) and len(st.body) == 1 and isinstance(st.body[0], ast.Assign) and ast.unparse(st.body[0].targets[0]) == var \
                        and len(st.orelse) == 1:
                    o = st.orelse[0]
                    rest = chain_expr(o, var) if isinstance(o, ast.If) else (o.value if isinstance(o, ast.Assign) and ast.unparse(o.targets[0]) == var else None)
                    if rest is not None:
                        return ast.IfExp(test=st.test, body=st.body[0].value, orelse=rest)
                return None
            names = {x.id for x in ast.walk(node) if isinstance(x, ast.Name)}
            for st in f.node.body:
                for var in names:
                    ce = chain_expr(st, var)
                    if ce is not None:
                        class _S(ast.NodeTransformer):
                            def visit_Name(self, n, var=var, ce=ce):
                                return ce if n.id == var else n
                        import copy as _copy
                        node = _S().visit(_copy.deepcopy(node))
                        txt = ast.unparse(node)
            for x in ast.walk(node):
                if isinstance(x, ast.IfExp) and isinstance(x.test, ast.Compare) and ast.unparse(x.test.left) == "rel":
                    pairs.append((ast.unparse(x.test.comparators[0]), ast.unparse(x.body)))
            x = node
            ies = [y for y in ast.walk(x) if isinstance(y, ast.IfExp) and isinstance(y.test, ast.Compare) and ast.unparse(y.test.left) == "rel"]
            if ies:
                x = ies[0]
                while isinstance(x.orelse, ast.IfExp) and ast.unparse(x.orelse.test.left if isinstance(x.orelse.test, ast.Compare) else x.orelse.test) == "rel":
                    x = x.orelse
                final_else = ast.unparse(x.orelse)
        got = dict(pairs)
        t0 = txt.replace(" ", "")
        scaled = txt.startswith("2 * ") or (t0.startswith("2if") and t0.endswith("else0"))
        if not pairs:
            # the same table as a dispatch dict of one-line predicates: D.get(rel, <ge>)(comp) / D[rel](comp)
            from .common import expand_locals

            def pred_text(e: ast.AST, argtxt: str) -> Optional[str]:
                if isinstance(e, ast.Lambda) and len(e.args.args) == 1:
                    return ast.unparse(e.body).replace(e.args.args[0].arg, argtxt)
                if isinstance(e, ast.Name) and repo.has_func(f"{CORE}:{e.id}"):
                    h = repo.func(f"{CORE}:{e.id}")
                    rs = [r for r in ast.walk(h.node) if isinstance(r, ast.Return)]
                    if len(rs) == 1 and len(h.node.args.args) == 1 and rs[0].value is not None:
                        return ast.unparse(rs[0].value).replace(h.node.args.args[0].arg, argtxt)
                return None

            full = ast.parse(expand_locals(f.node, node), mode="eval").body
            for c in ast.walk(full):
                if isinstance(c, ast.Call) and isinstance(c.func, ast.Call) and isinstance(c.func.func, ast.Attribute) and c.func.func.attr == "get" \
                        and isinstance(c.func.func.value, ast.Name) and c.func.args and ast.unparse(c.func.args[0]) == "rel" and len(c.args) == 1:
                    d = repo.resolve_const(CORE, c.func.func.value.id)
                    if isinstance(d, ast.Dict):
                        for k_, v_ in zip(d.keys, d.values):
                            pt = pred_text(v_, ast.unparse(c.args[0]))
                            if pt is not None:
                                got[ast.unparse(k_)] = pt
                        if len(c.func.args) > 1:
                            final_else = pred_text(c.func.args[1], ast.unparse(c.args[0]))
            t2 = ast.unparse(full).replace(" ", "")
            scaled = scaled or (t2.startswith("2if") and t2.endswith("else0")) or t2.startswith("2*")
        for k, v in want.items():
            if got.get(k) != v:
                missing.append(f"{k}: {got.get(k)} (expected {v})")
        if final_else != "comp >= 0":
            missing.append(f"GREATER_EQUAL/else: {final_else}")
        if not scaled:
            missing.append("result not scaled to {0,2}")
        if missing:
            ctx.bad(construct, "relation table changed: " + "; ".join(missing), f.loc(rel_ret[-1]))
        else:
            ctx.ok(construct, f.loc(rel_ret[-1]), table=got)
    # _visibility
    f = repo.func(f"{CORE}:_visibility")
    ctx.analysed(f.qual)
    res = Resolver(f.node)
    fl = Flow(f.node, resolver=res).run()
    sc = f.node.args.args[0].arg
    upd = [n for n in ast.walk(f.node) if isinstance(n, ast.Assign) and isinstance(n.value, ast.Call) and ast.unparse(n.value.func) == "max"]
    construct = "_visibility/join over all prompted nodes"
    ok = False
    if upd:
        n = upd[0]
        args = [res.text(a) for a in n.value.args]
        gs = fl.guards_at(n) or set()
        extra = [(k, p) for k, p in gs if not (k == f"{sc}.nodes[*].prompt" and p)]
        ok = f"expr_value({sc}.nodes[*].prompt[1])" in args and ast.unparse(n.targets[0]) in args and not extra
        init = [s for s in f.node.body if isinstance(s, ast.Assign) and ast.unparse(s.targets[0]) == ast.unparse(n.targets[0])]
        ok = ok and bool(init) and ast.unparse(init[0].value) == "0"
        loops = [l for l in ast.walk(f.node) if isinstance(l, ast.For)]
        ok = ok and len(loops) == 1 and not any(isinstance(b, (ast.Break, ast.Return)) for l in loops for b in ast.walk(l))
        ok = ok and res.text(loops[0].iter) == f"{sc}.nodes"
    if not ok:
        # the same join written as one expression: max((expr_value(n.prompt[1]) for n in sc.nodes if n.prompt), default=0)
        for r_ in [n for n in ast.walk(f.node) if isinstance(n, ast.Return) and isinstance(n.value, ast.Call) and ast.unparse(n.value.func) == "max"]:
            c = r_.value
            if len(c.args) == 1 and isinstance(c.args[0], (ast.GeneratorExp, ast.ListComp)) and len(c.args[0].generators) == 1:
                g = c.args[0].generators[0]
                v = g.target.id if isinstance(g.target, ast.Name) else "?"
                dflt = [k for k in c.keywords if k.arg == "default"]
                elt_text = ast.unparse(c.args[0].elt)
                # two stages: conds = (n.prompt[1] for n in sc.nodes if n.prompt); max((expr_value(c) for c in conds), default=0)
                if isinstance(g.iter, ast.Name) and not g.ifs:
                    inner = [a.value for a in ast.walk(f.node) if isinstance(a, ast.Assign) and len(a.targets) == 1
                             and ast.unparse(a.targets[0]) == g.iter.id and isinstance(a.value, (ast.GeneratorExp, ast.ListComp))
                             and len(a.value.generators) == 1]
                    if len(inner) == 1 and isinstance(inner[0].generators[0].target, ast.Name):
                        import re as _re
                        elt_text = _re.sub(rf"\b{_re.escape(v)}\b", ast.unparse(inner[0].elt), elt_text)
                        g = inner[0].generators[0]
                        v = g.target.id
                if elt_text == f"expr_value({v}.prompt[1])" and res.text(g.iter) == f"{sc}.nodes" \
                        and [ast.unparse(i) for i in g.ifs] == [f"{v}.prompt"] and dflt and ast.unparse(dflt[0].value) == "0":
                    ok = True
                    upd = [r_]
    if ok:
        ctx.ok(construct, f.loc(upd[0]))
    else:
        ctx.bad(construct, "the visibility is no longer max over expr_value(node.prompt[1]) of every node with a prompt, starting from 0", f.loc())


# ----------------------------------------------------------------------------- R01.6
def r01_6(ctx):
    """R01.6 reverse structures carry the source symbol and the condition: rev_dep/weak_rev_dep are ORed with
    (source AND cond); rev_values/weak_rev_values get (value, source AND cond, source)."""
    repo = ctx.repo
    f = repo.func(f"{CORE}:Kconfig._add_props_to_sym")
    ctx.analysed(f.qual)
    want = {"selects": ("rev_dep", "or"), "implies": ("weak_rev_dep", "or"), "sets": ("rev_values", "append"),
            "weak_sets": ("weak_rev_values", "append")}
    symvar = None
    for n in f.node.body:
        if isinstance(n, ast.Assign) and ast.unparse(n.value).endswith(".item") and isinstance(n.targets[0], ast.Name):
            symvar = n.targets[0].id
    if symvar is None:
        raise AnchorError("_add_props_to_sym: no `sym = node.item`")
    seen = set()
    for loop in [n for n in ast.walk(f.node) if isinstance(n, ast.For)]:
        if not (isinstance(loop.iter, ast.Attribute) and loop.iter.attr in want):
            continue
        src_list = loop.iter.attr
        field, kind = want[src_list]
        seen.add(src_list)
        tv = [t.id for t in loop.target.elts] if isinstance(loop.target, ast.Tuple) else []
        construct = f"Kconfig._add_props_to_sym/{src_list} -> {field}"
        if not tv:
            ctx.bad(construct, "loop target is not a tuple", f.loc(loop))
            continue
        target, cond = tv[0], tv[-1]
        body = loop.body
        txt = " ".join(ast.unparse(s) for s in body)
        conj = f"self._make_and({symvar}, {cond})"
        if kind == "or":
            ok = any(isinstance(s, ast.Assign) and ast.unparse(s.targets[0]) == f"{target}.{field}"
                     and ast.unparse(s.value) == f"self._make_or({target}.{field}, {conj})" for s in body)
        else:
            value = tv[1]
            ok = any(isinstance(s, ast.Expr) and ast.unparse(s.value) == f"{target}.{field}.append(({value}, {conj}, {symvar}))" for s in body)
        if ok:
            ctx.ok(construct, f.loc(loop), expr=txt[:160])
        else:
            ctx.bad(construct, f"{field} of the target is no longer built from (source AND condition): {txt[:200]}", f.loc(loop))
    for k in want:
        if k not in seen:
            ctx.bad(f"Kconfig._add_props_to_sym/{k} -> {want[k][0]}", f"no loop over node.{k} builds {want[k][0]}", f.loc())
    dd = [n for n in f.node.body if isinstance(n, ast.Assign) and ast.unparse(n.targets[0]) == f"{symvar}.direct_dep"]
    construct = "Kconfig._add_props_to_sym/direct_dep ORs the node deps"
    ok = bool(dd) and ast.unparse(dd[0].value) == f"self._make_or({symvar}.direct_dep, node.dep)"
    (ctx.ok(construct, f.loc(dd[0])) if ok else ctx.bad(construct, "direct_dep is no longer the OR over the definitions' deps", f.loc()))


def r01_7(ctx):
    """R01.7 every `depends on` line counts: both parsers AND repeated depends-on / visible-if lines onto the node's
    dependency (C04 R04.8) - a dropped line removes an inherited condition from prompts, defaults, ranges and selects; every operand of a
    condition reaches the expression tree (C04 R04.14)."""
    from . import c04
    c04.r04_8(ctx)
    # ... and every operand of a condition counts: parser 2 uses every element of the operand list (C04 R04.14)
    c04.r04_14(ctx)


def r01_8(ctx):
    """R01.8 a prescribed value must also be the value read after the configuration changed: every component the Symbol
    evaluators read (direct deps for imply / set default, defaults, ranges, set values ...) is an invalidation edge
    (Symbol part of C03 R03.1) - without the edge the option keeps the value of the previous configuration."""
    from . import c03
    before = len(ctx.instances)
    c03.r03_1(ctx)
    keep = [i for i in ctx.instances[before:] if i.construct.startswith("Symbol/")]
    dropped = {i.construct for i in ctx.instances[before:]} - {i.construct for i in keep}
    ctx.instances[before:] = keep
    ctx.findings[:] = [f for f in ctx.findings if not (f.rule == ctx._rule and f.construct in dropped)]


def r01_9(ctx):
    """R01.9 (a) where the falsy value is a legal user value - the empty string of a string option, n of a bool - the
    evaluators test the presence of a user value with `is not None`, never by truthiness (otherwise `S=""` / `B=n` lose
    against `set default` and the defaults); (b) numbers compared in conditions are parsed in the base of their type:
    no int(text, 0) in the evaluators (a hex value `10` is sixteen, with or without 0x)."""
    from .common import no_autodetected_base
    repo = ctx.repo
    for q, want_type in ((f"{CORE}:Symbol.str_value", "self.orig_type == STRING"), (f"{CORE}:Symbol.bool_value", None)):
        f = repo.func(q)
        ctx.analysed(f.qual)
        fl = Flow(f.node, resolver=Resolver(f.node)).run()
        k = 0
        for n in ast.walk(f.node):
            if not (isinstance(n, ast.Assign) and "self._user_value" in ast.unparse(n.value)):
                continue
            gs = fl.guards_at(n) or set()
            if want_type is not None and (want_type, True) not in gs:
                continue
            if want_type is None and ("self.choice", False) not in gs:
                continue
            k += 1
            construct = f"{f.short}/user value #{k} admitted on presence, not truthiness ({'STRING' if want_type else 'non-choice bool'})"
            if ("self._user_value is None", False) in gs:
                ctx.ok(construct, f.loc(n))
            elif ("self._user_value", True) in gs:
                ctx.bad(construct, "the user value is admitted only when it is truthy: an empty string / n set by the user is treated as "
                        "`no user value` and loses against `set default` and the defaults", f.loc(n))
            else:
                ctx.bad(construct, f"no presence test of the user value dominates `{ast.unparse(n)[:50]}`", f.loc(n))
    no_autodetected_base(ctx, [CORE], "relations in conditions (`H > 12`) compare a hex option's value as decimal when it has no 0x prefix")


def r01_10(ctx):
    """R01.10 members of a choice get the choice's value rule only if they are registered as members: _finalize_choice runs
    on the flattened child list - entries inside an `if` block of the choice included - and registers exactly the Symbol
    children (C05 R05.3 / R05.6c); an unregistered entry is evaluated as a plain bool next to the choice's own selection."""
    from . import c05
    from .common import delegate
    delegate(ctx, c05.r05_6, lambda c: "_finalize_node" in c or "_finalize_choice" in c)
    delegate(ctx, c05.r05_3, lambda c: True)

def r01_11(ctx):
    """R01.11 a default is replaced by `n` only when it is one of the listed legacy bool spellings *as written*: the sanitiser
    looks the default's name up unchanged (TRUE / YES / NO ... are legal option names, and a default naming such an option
    must keep deciding the value) - no case folding on either side of the lookup."""
    repo = ctx.repo
    f = repo.func(f"{CORE}:Kconfig._sanitize_bool_literal_defaults")
    ctx.analysed(f.qual)
    tests = [n for n in ast.walk(f.node) if isinstance(n, ast.Compare) and len(n.ops) == 1 and isinstance(n.ops[0], ast.In)
             and "INVALID_BOOL_LITERALS" in ast.unparse(n.comparators[0])]
    construct = "Kconfig._sanitize_bool_literal_defaults/legacy literals are matched as written"
    if not tests:
        raise AnchorError("_sanitize_bool_literal_defaults: lookup in INVALID_BOOL_LITERALS not found")
    folded = [t for t in tests if any(isinstance(x, ast.Attribute) and x.attr in ("lower", "upper", "casefold", "title", "capitalize") for x in ast.walk(t))]
    (ctx.bad(construct, f"`{ast.unparse(folded[0])}` folds the case: a default that names a real option called YES / TRUE / NO ... is rewritten to n",
             f.loc(folded[0])) if folded else ctx.ok(construct, f.loc(tests[0])))

def r01_12(ctx):
    """R01.12 the first default / range whose condition holds is the one that counts: in the search loops of Symbol.str_value,
    Symbol.bool_value, Symbol._str_default and Choice._selection_from_defaults the arm taken for an active entry always leaves
    the loop - a `break` that depends on the entry's value (`if val: break`) lets a later default overrule the first active one."""
    from .common import first_match_loops
    n = first_match_loops(ctx, [f"{CORE}:Symbol.str_value", f"{CORE}:Symbol.bool_value", f"{CORE}:Symbol._str_default"],
                          "a later entry decides although an earlier one is active")
    # a choice looks for the first default that is active *and* names a visible member of itself: those two tests on the entry
    # are part of the search, whether written in one condition or as guard clauses
    n += first_match_loops(ctx, [f"{CORE}:Choice._selection_from_defaults"], "a later entry decides although an earlier one is active",
                           entry_filters=("{v}.visibility", "{v}.choice is self"))
    if n < 8:
        raise AnalysisError(f"only {n} first-match loops found in the evaluators")


def r01_13(ctx):
    """R01.13 the precedence ladder is re-run from the top on every evaluation: the flag that records an active `set` is assigned on
    every path of the typed branches (C03 R03.7) - a flag left over from an earlier evaluation skips user value and defaults."""
    from . import c03
    from .common import delegate
    delegate(ctx, c03.r03_7, lambda c: "_has_active_indirect_set assigned on every path" in c)


def r01_14(ctx):
    """R01.14 numbers are compared as numbers: in expr_value() the lexicographic comparison `_strcmp(..)` is reached only when both
    operands are strings, or in the handler of a failed number conversion - never for a whole class of relations (`=`/`!=` decided by
    spelling makes `ADDR = 0x1f` false for the value 0x1F, and `COUNT != 7` true for 007: a hidden option's user value leaks out)."""
    from .common import facts_imply
    repo = ctx.repo
    f = repo.func(f"{CORE}:expr_value")
    ctx.analysed(f.qual)
    res = Resolver(f.node)
    fl = Flow(f.node, resolver=res).run()
    calls = [n for n in ast.walk(f.node) if isinstance(n, ast.Call) and ast.unparse(n.func) == "_strcmp"]
    if len(calls) < 2:
        raise AnalysisError(f"only {len(calls)} lexicographic comparisons in expr_value")
    for i, c in enumerate(calls):
        construct = f"expr_value/lexicographic comparison #{i + 1} only for two strings or after a failed number conversion"
        p = repo.parent(c)
        in_handler = False
        while p is not None and p is not f.node:
            if isinstance(p, ast.ExceptHandler):
                in_handler = True
            p = repo.parent(p)
        gs = fl.guards_at(c) or set()
        keys = {k for k, _ in gs}
        both = [k for k in keys if "orig_type == STRING" in k]
        ok = in_handler or (facts_imply(gs, " and ".join(sorted(both))) if len(both) >= 2 else False)
        (ctx.ok(construct, f.loc(c)) if ok else
         ctx.bad(construct, f"`{ast.unparse(c)[:50]}` is reached under {sorted(gs)}: operands that are numbers are compared by their spelling", f.loc(c)))


def r01_15(ctx):
    """R01.15 a condition means the same under both parsers: `!A = B` negates the relation (C04 R04.12: parser 2 parses the operand of `!`
    after the relations) - under the other precedence the condition of a prompt / default / range does not even evaluate."""
    from . import c04
    from .common import delegate
    delegate(ctx, c04.r04_12, lambda c: True)


def own_nodes_(repo, f):
    for n in ast.walk(f.node):
        if repo.enclosing_func(n) is f or n is f.node:
            yield n


USER_VALUE_TRUTH_OK = {
    "Symbol.str_value": "the string arm: an empty user string is treated like none there",
    "Symbol.bool_value": "choice member: `vis and self._user_value` asks for the user value y",
}


def r01_16(ctx):
    """R01.16 n and the empty string are user values: outside the two evaluator arms that ask for a *truthy* user value, the
    presence of a user value is tested with `is None` / `is not None`, never by truthiness - `if not self._user_value: return`
    in unset_value() keeps a user's n (0) and "" for ever, and the option never returns to its default."""
    repo = ctx.repo
    n = 0
    for f in repo.funcs_in(CORE):
        for x in own_nodes_(repo, f):
            tests = []
            if isinstance(x, (ast.If, ast.While, ast.IfExp)):
                tests = [x.test]
            elif isinstance(x, ast.BoolOp):
                tests = list(x.values)
            elif isinstance(x, ast.UnaryOp) and isinstance(x.op, ast.Not):
                tests = [x.operand]
            for t in tests:
                while isinstance(t, ast.UnaryOp) and isinstance(t.op, ast.Not):
                    t = t.operand
                if isinstance(t, ast.Attribute) and t.attr == "_user_value":
                    n += 1
                    construct = f"{f.short}/truth test of `{ast.unparse(t)}` at a place that asks for a truthy user value"
                    if f.short in USER_VALUE_TRUTH_OK:
                        ctx.ok(construct, f.loc(t), reason=USER_VALUE_TRUTH_OK[f.short])
                    else:
                        ctx.bad(construct, "the test takes the user values n (0) and \"\" for `no user value`: they are never removed / never honoured", f.loc(t))
    if n < 2:
        raise AnalysisError(f"only {n} truth tests of _user_value found")


def rules():
    return [("R01.16", r01_16, 2), ("R01.15", r01_15, 3), ("R01.14", r01_14, 2), ("R01.13", r01_13, 3), ("R01.12", r01_12, 8), ("R01.11", r01_11, 1), ("R01.10", r01_10, 2), ("R01.9", r01_9, 10), ("R01.1", r01_1, 9), ("R01.2", r01_2, 5), ("R01.3", r01_3, 5), ("R01.4", r01_4, 12), ("R01.5", r01_5, 7),
            ("R01.6", r01_6, 5), ("R01.7", r01_7, 4), ("R01.8", r01_8, 14)]
