"""C07 - all generated output formats describe the same configuration (necessary structural conditions)."""
from __future__ import annotations

import ast
from typing import Dict, List, Optional, Set, Tuple

from ..flow import AnalysisError, Flow, Resolver
from ..repo import AnchorError, Func

PROPERTY = "C07"
CORE = "esp_kconfiglib.core"
DEP = "esp_kconfiglib.deprecated"
LEVEL_TEXT = (
    "Static analysis of every generator (sdkconfig, header, auto.conf, CMake, JSON, deprecated blocks): values and "
    "presence derive only from the computed value of the same symbol (never from user/baseline fields); an `n`/`y` "
    "comparison that omits or rewrites an entry is always guarded by the bool type; alias loops carry no value "
    "from one alias to the next; inversion is decided per alias and only for bools; the rename tables are updated "
    "together and the duplicate arm removes exactly the re-mapped alias. Not decided: agreement of the textual "
    "encodings per value."
)

GENERATORS = [
    f"{CORE}:Kconfig._header_string", f"{CORE}:Kconfig._autoconf_contents", f"{CORE}:Kconfig._config_contents",
    f"{CORE}:Symbol.config_string", f"{CORE}:Kconfig._old_vals_contents", "kconfgen.core:write_cmake",
    "kconfgen.core:write_cmake.<locals>.write_node", "kconfgen.core:get_json_values",
    "kconfgen.core:get_json_values.<locals>.write_node", f"{DEP}:DeprecatedOptions._deprecated_config_string",
    f"{DEP}:DeprecatedOptions.deprecated_config_contents", f"{DEP}:DeprecatedOptions.deprecated_header_contents",
    f"{DEP}:DeprecatedOptions.deprecated_header_contents.<locals>._opt_defined",
]
FORBIDDEN = {"_user_value", "_sdkconfig_value", "_user_selection", "_loaded_as_default", "defaults", "_old_val", "_user_source"}


def _own_nodes(repo, f: Func):
    for n in ast.walk(f.node):
        if repo.enclosing_func(n) is f or n is f.node:
            yield n


def r07_1(ctx):
    """R07.1 single source of truth: no generator reads a user value, baseline field, default list or old value to decide
    what to emit - every value-level fact comes from str_value / bool_value / config_string / _write_to_conf of the
    same symbol."""
    repo = ctx.repo
    for q in GENERATORS:
        f = repo.func(q)
        ctx.analysed(q)
        bad = [n for n in _own_nodes(repo, f) if isinstance(n, ast.Attribute) and n.attr in FORBIDDEN and isinstance(n.ctx, ast.Load)]
        construct = f"{f.short}/derives output from computed values only"
        if bad:
            ctx.bad(construct, f"reads {ast.unparse(bad[0])}: this format can disagree with the others, which use the computed value",
                    f.loc(bad[0]))
        else:
            uses = sorted({n.attr for n in _own_nodes(repo, f) if isinstance(n, ast.Attribute)
                           and n.attr in ("str_value", "bool_value", "config_string", "_write_to_conf")})
            ctx.ok(construct, f.loc(), value_sources=uses)


BOOL_KEYS = ("orig_type == BOOL", "orig_type is BOOL", "type == BOOL", "type is BOOL", "== kconfiglib.BOOL", "is kconfiglib.BOOL")


def _bool_guarded(gs: Set[Tuple[str, bool]]) -> bool:
    return any(pol and any(b in k for b in BOOL_KEYS) for k, pol in gs)


def r07_6(ctx):
    """R07.6 the encoding of n is a bool matter: every comparison of a symbol value with "n"/"y" (or test of bool_value) that
    omits or rewrites an entry in a generator or in sync_deps is guarded by the BOOL type test - a string option whose
    value is literally "n" must stay in every format."""
    repo = ctx.repo
    n_sites = 0
    for q in GENERATORS + [f"{CORE}:Kconfig.sync_deps"]:
        f = repo.func(q)
        ctx.analysed(q)
        res = Resolver(f.node)
        fl = None
        k = 0
        for n in _own_nodes(repo, f):
            site = None
            if isinstance(n, ast.Compare) and len(n.ops) == 1 and isinstance(n.comparators[0], ast.Constant) \
                    and n.comparators[0].value in ("n", "y") and isinstance(n.ops[0], (ast.Eq, ast.NotEq)):
                site = n
            elif isinstance(n, ast.Attribute) and n.attr == "bool_value" and isinstance(n.ctx, ast.Load):
                site = n
            if site is None:
                continue
            if fl is None:
                fl = Flow(f.node, resolver=res).run()
            gs = fl.guards_at(site)
            if gs is None:
                continue
            # the type test may be a sibling conjunct *after* the comparison: look at the enclosing conjunction too
            par = repo.parent(site)
            while isinstance(par, ast.UnaryOp):
                par = repo.parent(par)
            sib = isinstance(par, ast.BoolOp) and isinstance(par.op, ast.And) and any(any(b in ast.unparse(v) for b in BOOL_KEYS) for v in par.values)
            # comprehension filters: `if not (orig_type is BOOL and not bool_value)`
            k += 1
            n_sites += 1
            construct = f"{f.short}/n-y comparison #{k} `{ast.unparse(site)[:40]}`"
            if _bool_guarded(gs) or sib:
                ctx.ok(construct, f.loc(site))
            else:
                ctx.bad(construct, "a value is compared with \"n\"/\"y\" without the BOOL type test: a string option whose value is "
                        "literally \"n\" is treated like a disabled bool in this format only", f.loc(site), guards=sorted(map(str, gs)))
    if n_sites < 8:
        raise AnalysisError(f"only {n_sites} n/y comparison sites found")


ALIAS_ITER_MARKS = ("get_deprecated_option(", "rev_r_dic[", "r_dic")


def _alias_loops(repo, f: Func) -> List[ast.For]:
    """for-loops whose iterable (directly or through a single-assignment local) is a list of deprecated aliases."""
    res = Resolver(f.node)
    out = []
    for n in _own_nodes(repo, f):
        if isinstance(n, ast.For):
            t = ast.unparse(n.iter) + " " + res.text(n.iter)
            if isinstance(n.iter, ast.Name):
                for a in ast.walk(f.node):
                    if isinstance(a, ast.Assign) and any(isinstance(x, ast.Name) and x.id == n.iter.id for x in a.targets):
                        t += " " + ast.unparse(a.value)
            if any(m in t for m in ALIAS_ITER_MARKS):
                out.append(n)
    return out


def r07_2(ctx):
    """R07.2 alias values do not depend on alias order: in every loop over the aliases of one option no variable that is
    assigned in the loop body is read before its assignment in the same iteration (a loop-carried definition), loop
    targets and augmented accumulators excepted."""
    repo = ctx.repo
    n_loops = 0
    for q in ("kconfgen.core:write_cmake.<locals>.write_node", f"{DEP}:DeprecatedOptions.deprecated_config_contents",
              f"{DEP}:DeprecatedOptions.deprecated_header_contents", f"{CORE}:Kconfig.sync_deps", "kconfgen.core:append_deprecated_doc"):
        f = repo.func(q)
        ctx.analysed(q)
        for loop in _alias_loops(repo, f):
            n_loops += 1
            targets = {t.id for t in ast.walk(loop.target) if isinstance(t, ast.Name)}
            assigned: Dict[str, ast.AST] = {}
            for n in ast.walk(loop):
                if isinstance(n, ast.Assign) and n is not loop:
                    for t in n.targets:
                        for e in (t.elts if isinstance(t, (ast.Tuple, ast.List)) else [t]):
                            if isinstance(e, ast.Name) and e.id not in targets:
                                assigned.setdefault(e.id, n)
            construct = f"{f.short}/alias loop over `{ast.unparse(loop.iter)[:50]}` carries nothing between aliases"
            if not assigned:
                ctx.ok(construct, f.loc(loop), assigned=[])
                continue

            def events(node, _assigned=assigned):
                out = []
                if isinstance(node, ast.Assign):
                    for t in node.targets:
                        for e in (t.elts if isinstance(t, (ast.Tuple, ast.List)) else [t]):
                            if isinstance(e, ast.Name) and e.id in _assigned:
                                out.append("def:" + e.id)
                return out

            fl = Flow(f.node, events=events, track_guards=False, body=loop.body).run()
            carried = []
            for n in ast.walk(loop):
                if isinstance(n, ast.Name) and isinstance(n.ctx, ast.Load) and n.id in assigned:
                    # reads inside the defining statement's RHS see the old value
                    st = repo.enclosing_stmt(n)
                    evs = fl.events_at(st if not isinstance(st, (ast.If, ast.For, ast.While)) else n)
                    if evs is None:
                        continue
                    if "def:" + n.id not in evs:
                        carried.append(n)
            if carried:
                n0 = carried[0]
                ctx.bad(construct, f"`{n0.id}` is reassigned inside the alias loop and read at line {n0.lineno} before its assignment in "
                        "the same iteration: the value emitted for one alias depends on the aliases listed before it", f.loc(n0))
            else:
                ctx.ok(construct, f.loc(loop), assigned=sorted(assigned))
    if n_loops < 3:
        raise AnalysisError(f"only {n_loops} alias loops found")


def r07_3(ctx):
    """R07.3 inversion is decided per alias and only for bools: every inversion test in an alias emitter has the current
    alias as its subject and is (or its uses are) guarded by the BOOL type test. R07.4: an emitter that omits an alias
    because the replacement is n must look at the inversion first."""
    repo = ctx.repo
    emitters = ["kconfgen.core:write_cmake.<locals>.write_node", f"{DEP}:DeprecatedOptions._deprecated_config_string",
                f"{DEP}:DeprecatedOptions.deprecated_header_contents"]
    n_sites = 0
    for q in emitters:
        f = repo.func(q)
        ctx.analysed(q)
        res = Resolver(f.node)
        fl = Flow(f.node, resolver=res).run()
        for n in _own_nodes(repo, f):
            subj = None
            if isinstance(n, ast.Call) and isinstance(n.func, ast.Attribute) and n.func.attr == "is_inversion" and n.args:
                subj = n.args[0]
            elif isinstance(n, ast.Compare) and len(n.ops) == 1 and isinstance(n.ops[0], ast.In) \
                    and ast.unparse(n.comparators[0]).endswith("inversions"):
                subj = n.left
            if subj is None:
                continue
            n_sites += 1
            construct = f"{f.short}/inversion test `{ast.unparse(n)[:50]}`"
            # subject: innermost enclosing alias-loop variable or a parameter that names the alias
            sname = ast.unparse(subj)
            params = {a.arg for a in f.node.args.args}
            loop_vars = set()
            p = repo.parent(n)
            while p is not None and p is not f.node:
                if isinstance(p, ast.For):
                    loop_vars |= {t.id for t in ast.walk(p.target) if isinstance(t, ast.Name)}
                p = repo.parent(p)
            if sname not in params | loop_vars:
                ctx.bad(construct, f"the inversion is looked up for `{sname}`, which is not the alias being emitted", f.loc(n))
                continue
            # BOOL guard: on the test itself, its sibling conjuncts, or on every use of the local it is stored in
            par = repo.parent(n)
            stored = par.targets[0].id if isinstance(par, ast.Assign) and isinstance(par.targets[0], ast.Name) else None
            ok = False
            if stored:
                uses = [u for u in _own_nodes(repo, f) if isinstance(u, ast.Name) and u.id == stored and isinstance(u.ctx, ast.Load)]
                ok = bool(uses) and all(_bool_guarded(fl.guards_at(u) or set()) for u in uses)
            else:
                gs = fl.guards_at(n) or set()
                bo = par
                while isinstance(bo, ast.UnaryOp):
                    bo = repo.parent(bo)
                sib = isinstance(bo, ast.BoolOp) and isinstance(bo.op, ast.And) and any(any(b in ast.unparse(v) for b in BOOL_KEYS) for v in bo.values)
                ok = _bool_guarded(gs) or sib
            if ok:
                ctx.ok(construct, f.loc(n), subject=sname)
            else:
                ctx.bad(construct, "the inversion is applied without the BOOL type test: an inverted alias of a non-bool option is "
                        "emitted as `!`/swapped in this format while the others carry the value", f.loc(n))
    if n_sites < 3:
        raise AnalysisError(f"only {n_sites} inversion tests found")
    # R07.4
    f = repo.func(f"{DEP}:DeprecatedOptions.deprecated_header_contents")
    construct = "DeprecatedOptions.deprecated_header_contents/alias presence decided after inversion"
    pres = [n for n in _own_nodes(repo, f) if isinstance(n, ast.Call) and ast.unparse(n.func) == "_opt_defined"]
    if pres:
        st = repo.enclosing_stmt(pres[0])
        test_txt = ast.unparse(st.test) if isinstance(st, ast.If) else ""
        if "inversion" in test_txt:
            ctx.ok(construct, f.loc(pres[0]))
        else:
            ctx.bad(construct, "an alias is omitted whenever its replacement is n/empty, before the inversion is considered: an inverted "
                    "alias of a disabled bool is y in sdkconfig and CMake but undefined in the header", f.loc(pres[0]))
    else:
        ctx.ok(construct, f.loc(), nontrivial=False)


def r07_5(ctx):
    """R07.5 rename tables are updated together: every accepted rename line stores r_dic[old] = new, appends old to
    rev_r_dic[new] and records the inversion iff the line has `!`; a duplicate first removes exactly the re-mapped
    alias from the inversions and from its previous target's list (deleting that list only when it became empty)."""
    repo = ctx.repo
    f = repo.func(f"{DEP}:DeprecatedOptions._parse_replacements")
    ctx.analysed(f.qual)
    res = Resolver(f.node)
    fl = Flow(f.node, resolver=res).run()
    rets = [n for n in ast.walk(f.node) if isinstance(n, ast.Return) and isinstance(n.value, ast.Tuple)]
    if not rets or len(rets[0].value.elts) != 3:
        raise AnchorError("_parse_replacements no longer returns (rep_dic, rev_rep_dic, inversions)")
    rep, rev, inv = [ast.unparse(e) for e in rets[0].value.elts]
    store = [n for n in ast.walk(f.node) if isinstance(n, ast.Assign) and isinstance(n.targets[0], ast.Subscript) and ast.unparse(n.targets[0].value) == rep]
    app = [n for n in ast.walk(f.node) if isinstance(n, ast.Call) and isinstance(n.func, ast.Attribute) and n.func.attr in ("append", "add")
           and isinstance(n.func.value, ast.Subscript) and ast.unparse(n.func.value.value) == rev]
    invapp = [n for n in ast.walk(f.node) if isinstance(n, ast.Call) and ast.unparse(n.func) == f"{inv}.append"]
    if not store or not app:
        raise AnchorError("_parse_replacements: table updates not found")
    if not invapp:
        # the returned inversion table is not filled line by line: whatever derives it, it is no longer the record of which
        # rename *lines* carried the `!`
        ctx.bad("DeprecatedOptions._parse_replacements/the inversion is recorded for the alias of the line that carries `!`",
                f"`{inv}` is not appended to line by line (no `{inv}.append(<alias>)`): inversion is derived from something else than the alias's own "
                "rename line - a plain alias that shares its target with an inverted one is inverted too", f.loc(rets[0]))
        return
    old, new = ast.unparse(store[0].targets[0].slice), ast.unparse(store[0].value)
    g_store, g_app = fl.guards_at(store[0]) or set(), fl.guards_at(app[0]) or set()
    construct = "DeprecatedOptions._parse_replacements/forward and reverse table updated together"
    ok = g_store == g_app and ast.unparse(app[0].func.value.slice) == new and ast.unparse(app[0].args[0]) == old
    # no guard other than "line parsed / has an old name / names valid"
    extra = [g for g in g_store if not any(s in g[0] for s in ("parsed_line", "opt", old, new))]
    ok = ok and not extra
    (ctx.ok(construct, f.loc(store[0]), guards=sorted(map(str, g_store))) if ok else
     ctx.bad(construct, f"store guards {sorted(g_store)} vs append guards {sorted(g_app)}", f.loc(store[0])))
    construct = "DeprecatedOptions._parse_replacements/inversion recorded iff the new name has `!`"
    gi = fl.guards_at(invapp[0]) or set()
    diff = gi - g_store
    ok = len(diff) == 1 and list(diff)[0][1] is True and "startswith('!')" in list(diff)[0][0] and ast.unparse(invapp[0].args[0]) == old
    (ctx.ok(construct, f.loc(invapp[0])) if ok else ctx.bad(construct, f"guards beyond the store's: {sorted(diff)}", f.loc(invapp[0])))
    # duplicate arm
    dup_ifs = [n for n in ast.walk(f.node) if isinstance(n, ast.If) and ast.unparse(n.test) == f"{old} in {rep}"]
    construct = "DeprecatedOptions._parse_replacements/duplicate removes exactly the re-mapped alias"
    if not dup_ifs:
        ctx.bad(construct, "no duplicate-mapping arm", f.loc())
    else:
        d = dup_ifs[0]
        msgs = []
        if any(isinstance(x, (ast.Continue, ast.Break, ast.Return)) for x in ast.walk(d)):
            msgs.append("the duplicate arm can skip the table update (continue/break/return)")
        if not any(isinstance(x, ast.Call) and ast.unparse(x.func) == f"{inv}.remove" and ast.unparse(x.args[0]) == old for x in ast.walk(d)):
            msgs.append("the old inversion flag of the alias is not removed")
        rm = [x for x in ast.walk(d) if isinstance(x, ast.Call) and isinstance(x.func, ast.Attribute) and x.func.attr in ("remove", "discard")
              and ast.unparse(x.func.value) != inv]
        if not rm or ast.unparse(rm[0].args[0]) != old:
            msgs.append("the alias is not removed from its previous target's list")
        for x in ast.walk(d):
            whole = None
            if isinstance(x, ast.Delete) and any(ast.unparse(t).startswith(rev + "[") for t in x.targets):
                whole = x
            if isinstance(x, ast.Call) and isinstance(x.func, ast.Attribute) and x.func.attr in ("pop", "clear") and ast.unparse(x.func.value) == rev:
                whole = x
            if whole is not None:
                gs = fl.guards_at(whole) or set()
                if not (rm and ((ast.unparse(rm[0].func.value), False) in gs or (res.text(rm[0].func.value), False) in gs)):
                    msgs.append(f"the previous target's whole alias list is dropped (line {whole.lineno}) although other aliases may remain")
        (ctx.bad(construct, "; ".join(msgs), f.loc(d)) if msgs else ctx.ok(construct, f.loc(d)))


def r07_7(ctx):
    """R07.7 aliases exist exactly where the option exists: every alias loop of an emitter is guarded by the presence test
    of its replacement (config_string non-empty / _opt_defined) - otherwise one format lists aliases of options that are
    absent from all other formats; the alias tables are ordered containers (output order must not depend on hashing)."""
    repo = ctx.repo
    n = 0
    for q in ("kconfgen.core:write_cmake.<locals>.write_node", f"{DEP}:DeprecatedOptions.deprecated_config_contents",
              f"{DEP}:DeprecatedOptions.deprecated_header_contents"):
        f = repo.func(q)
        ctx.analysed(q)
        fl = Flow(f.node, resolver=Resolver(f.node)).run()
        for lp in _alias_loops(repo, f):
            n += 1
            emits = [x for x in ast.walk(lp) if isinstance(x, ast.Call) and isinstance(x.func, ast.Attribute) and x.func.attr == "append"]
            site = emits[0] if emits else lp
            gs = fl.guards_at(site) or set()
            ok = any(pol and ("config_string" in k or k.startswith("_opt_defined(") or "_opt_defined(" in k) for k, pol in gs)
            construct = f"{f.short}/aliases emitted only for options that are present"
            (ctx.ok(construct, f.loc(lp)) if ok else
             ctx.bad(construct, f"the alias loop runs under {sorted(gs)} - no presence test of the replacement: aliases of an option hidden by unmet dependencies "
                     "appear in this format only", f.loc(lp)))
    if n < 3:
        raise AnalysisError(f"only {n} alias loops in emitters")
    pr = repo.func(f"{DEP}:DeprecatedOptions._parse_replacements")
    construct = "DeprecatedOptions._parse_replacements/alias tables keep insertion order"
    dd = [x for x in ast.walk(pr.node) if isinstance(x, ast.Call) and ast.unparse(x.func) == "defaultdict" and x.args]
    unordered = [x for x in dd if ast.unparse(x.args[0]) in ("set", "frozenset")] + \
        [x for x in ast.walk(pr.node) if isinstance(x, ast.Assign) and isinstance(x.value, (ast.Set, ast.SetComp)) ] + \
        [x for x in ast.walk(pr.node) if isinstance(x, ast.Assign) and isinstance(x.value, ast.Call) and ast.unparse(x.value.func) == "set"]
    (ctx.bad(construct, "an alias table is a set: the order of aliases in the generated files follows string hashing and changes from process to process "
             "(unchanged configurations are rewritten)", pr.loc(unordered[0])) if unordered else ctx.ok(construct, pr.loc(), nontrivial=False))


def r07_8(ctx):
    """R07.8 JSON carries the same numbers as the other formats: int and hex values are parsed in the base they were
    validated in (C06 R06.8c); hex is never merged with int under an auto-detected base."""
    from . import c06
    before = len(ctx.instances)
    c06.r06_8(ctx)
    keep = [i for i in ctx.instances[before:] if i.construct.startswith("get_json_values")]
    dropped = {i.construct for i in ctx.instances[before:]} - {i.construct for i in keep}
    ctx.instances[before:] = keep
    ctx.findings[:] = [f for f in ctx.findings if not (f.rule == ctx._rule and f.construct in dropped)]


TYPES5 = {"BOOL", "INT", "HEX", "STRING", "FLOAT"}


def _types_mentioned(repo, modname: str, fn: ast.AST) -> Set[str]:
    """type constants a function's tests mention, with set constants (_INT_HEX, _INT_HEX_FLOAT, ...) expanded"""
    out: Set[str] = set()
    for n in ast.walk(fn):
        if isinstance(n, ast.Compare) and "orig_type" in ast.unparse(n.left):
            for c in n.comparators:
                for x in ast.walk(c):
                    if isinstance(x, ast.Name):
                        if x.id in TYPES5:
                            out.add(x.id)
                        else:
                            v = repo.resolve_const(CORE, x.id)
                            if v is not None:
                                out |= {y.id for y in ast.walk(v) if isinstance(y, ast.Name) and y.id in TYPES5}
    return out


def r07_9(ctx):
    """R07.9 every format sees every option: (a) the sdkconfig tree walk (and the other iterative walks) descend into every
    node - the other generators iterate all defined symbols, so a pruned walk drops options from one format only; (b) the
    header's alias-presence predicate knows all five types (an alias of a float option is in sdkconfig and CMake);
    (c) auto.conf / sdkconfig are left untouched only when identical as a whole (C13 R13.1b) - a prefix comparison leaves
    a stale tail in one output."""
    from . import c13
    from .common import delegate, tree_walk_complete
    repo = ctx.repo
    tree_walk_complete(ctx, [f"{CORE}:Kconfig._config_contents", f"{CORE}:Kconfig._min_config_contents_with_labels", f"{CORE}:Kconfig.node_iter"],
                       "options below the skipped nodes disappear from sdkconfig while header, CMake, JSON and auto.conf still list them")
    f = repo.func(f"{DEP}:DeprecatedOptions.deprecated_header_contents.<locals>._opt_defined")
    ctx.analysed(f.qual)
    got = _types_mentioned(repo, DEP, f.node)
    construct = "DeprecatedOptions.deprecated_header_contents/_opt_defined knows all five types"
    (ctx.ok(construct, f.loc(), types=sorted(got)) if got >= TYPES5 else
     ctx.bad(construct, f"no case for {sorted(TYPES5 - got)}: aliases of such options are listed in sdkconfig and CMake but get no #define", f.loc()))
    delegate(ctx, c13.r13_1b, lambda c: True)


def r07_10(ctx):
    """R07.10 one value, one spelling per format: (a) every hex-prefix test of an emitter knows 0x and 0X (C06 R06.10c:
    the header would write 0x0XAB where CMake has 0xab); (b) string values - of options and of their aliases - are quoted
    through the escape chain in every format that quotes (C02 R02.2); (c) auto.conf is rewritten by every sync, after the
    trigger files (C12 R12.1): a sync that skips the write leaves auto.conf behind the other four outputs."""
    from . import c02, c06, c12
    from .common import delegate
    delegate(ctx, c06.r06_10, lambda c: "hex prefix test" in c)
    delegate(ctx, c02.r02_2, lambda c: "quoted through _escape" in c)
    delegate(ctx, c12.r12_1, lambda c: "auto.conf" in c)


def r07_11(ctx):
    """R07.11 an empty string is a value: for a string option the header's alias-presence predicate does not depend on the
    value being non-empty - `#define CONFIG_S ""` is written for the option itself, sdkconfig and CMake list its aliases,
    so a predicate that requires a non-empty text drops the alias from the header only (fixed defect 5.42)."""
    import itertools
    from .common import AcceptCondition
    repo = ctx.repo
    f = repo.func(f"{DEP}:DeprecatedOptions.deprecated_header_contents.<locals>._opt_defined")
    ctx.analysed(f.qual)
    ac = AcceptCondition(f.node)
    construct = "DeprecatedOptions.deprecated_header_contents/_opt_defined of a string option does not depend on the value being non-empty"

    def type_atom(a: str):
        """truth of a type test for a STRING option, None for any other atom"""
        try:
            e = ast.parse(a, mode="eval").body
        except SyntaxError:
            return None
        if not (isinstance(e, ast.Compare) and len(e.ops) == 1 and "orig_type" in ast.unparse(e.left)):
            return None
        c = e.comparators[0]
        names = set()
        for x in ast.walk(c):
            if isinstance(x, ast.Name):
                if x.id in TYPES5:
                    names.add(x.id)
                else:
                    v = repo.resolve_const(CORE, x.id)
                    if v is None:
                        return None
                    names |= {y.id for y in ast.walk(v) if isinstance(y, ast.Name) and y.id in TYPES5}
        hit = "STRING" in names
        return hit if isinstance(e.ops[0], (ast.Eq, ast.Is, ast.In)) else (not hit)

    fixed, free, empt = {}, [], None
    for a in ac.atoms:
        t = type_atom(a)
        if t is not None:
            fixed[a] = t
        elif a.replace('"', "'") in ("opt.str_value == ''", "opt.str_value"):
            empt = a
        else:
            free.append(a)
    if not fixed:
        raise AnalysisError("_opt_defined makes no type test")
    if empt is None:
        ctx.ok(construct, f.loc(), atoms=ac.atoms)
        return
    for vals in itertools.product((False, True), repeat=len(free)):
        v = dict(fixed)
        v.update(zip(free, vals))
        a1, a2 = ac.accept({**v, empt: True}), ac.accept({**v, empt: False})
        if a1 != a2:
            ctx.bad(construct, f"for a string option (with {dict(zip(free, vals))}) the alias is defined only when `{empt}` is "
                    f"{'true' if a1 else 'false'}: a string option whose value is \"\" is written as `#define CONFIG_S \"\"` and its alias is in "
                    "sdkconfig and CMake, but the header has no #define for the alias", f.loc())
            return
    ctx.ok(construct, f.loc(), atoms=ac.atoms)


def r07_12(ctx):
    """R07.12 JSON agrees with the other formats on empty values: null is emitted only for a number option without a value, and a
    number is converted only from a non-empty text (C06 R06.13) - an empty string option is \"\" everywhere."""
    from . import c06
    from .common import delegate
    delegate(ctx, c06.r06_13, lambda c: True)


def r07_13(ctx):
    """R07.13 sdkconfig and the header agree on which options exist: Symbol.config_string is empty exactly when `_write_to_conf` is
    false - the one flag Kconfig._header_string() decides on. A further reason to return nothing (an `option env` symbol, a type, a
    value) drops the option from sdkconfig, CMake, JSON and auto.conf - all built on config_string - while the header still defines it."""
    repo = ctx.repo
    f = repo.func(f"{CORE}:Symbol.config_string")
    h = repo.func(f"{CORE}:Kconfig._header_string")
    ctx.analysed(f.qual, h.qual)
    fl = Flow(f.node, resolver=Resolver(f.node)).run()
    empties = [n for n in ast.walk(f.node) if isinstance(n, ast.Return) and isinstance(n.value, ast.Constant) and n.value.value == ""]
    construct = "Symbol.config_string/empty exactly when _write_to_conf is false, as _header_string decides"
    if not empties:
        ctx.bad(construct, "config_string never returns the empty string: options that are not to be written appear in sdkconfig", f.loc())
        return
    bad = None
    for r in empties:
        gs = fl.guards_at(r) or set()
        if (("self._write_to_conf", False) not in gs) or any(k != "self._write_to_conf" for k, _ in gs):
            bad = (r, sorted(gs))
    hdr_ok = any(k.endswith("._write_to_conf") for n in ast.walk(h.node) if isinstance(n, ast.If) for k in [ast.unparse(n.test).replace("not ", "")])
    if bad:
        ctx.bad(construct, f"`return \"\"` is reached under {bad[1]}: for such an option sdkconfig / CMake / JSON / auto.conf have no entry while the header, which "
                "looks at _write_to_conf alone, still has its #define", f.loc(bad[0]))
    elif not hdr_ok:
        ctx.bad(construct, "_header_string no longer decides on _write_to_conf", h.loc())
    else:
        ctx.ok(construct, f.loc(empties[0]))


def r07_14(ctx):
    """R07.14 every emitter sees the same alias lists: get_deprecated_option() is the plain lookup in the reverse table (C11 R11.4) that the
    sdkconfig block and the header section are built from - a lookup that adds aliases of aliases gives the CMake file variables the
    other formats do not have; and the tree walk behind sdkconfig descends into every node (R07.9a)."""
    from . import c11
    from .common import delegate
    # ... and the same inversion table: is_inversion() (CMake, loader) is the plain membership test the sdkconfig block and the
    # header section spell out as `name in self.inversions` - a lookup that rewrites the name first disagrees with them
    delegate(ctx, c11.r11_4, lambda c: 'get_deprecated_option' in c or c.startswith('DeprecatedOptions.is_inversion/'))


def r07_15(ctx):
    """R07.15 a number that one format can read and another cannot is not a value: the int/hex form check rejects digit-group
    underscores (C06 R06.19) - `0x1_f` went into the header and CMake as written while the JSON said 31."""
    from . import c06
    from .common import delegate
    delegate(ctx, c06.r06_19, lambda c: True)


def rules():
    return [("R07.15", r07_15, 13), ("R07.14", r07_14, 1), ("R07.13", r07_13, 1), ("R07.12", r07_12, 3), ("R07.11", r07_11, 1), ("R07.10", r07_10, 6), ("R07.9", r07_9, 6), ("R07.1", r07_1, 13), ("R07.6", r07_6, 8), ("R07.2", r07_2, 3), ("R07.3", r07_3, 4), ("R07.5", r07_5, 3), ("R07.7", r07_7, 4), ("R07.8", r07_8, 2)]
