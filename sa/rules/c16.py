"""C16 - menuconfig never drops unsaved edits and knows when it is clean (necessary structural conditions)."""
from __future__ import annotations

import ast
from typing import Dict, List, Optional, Set, Tuple

from ..flow import AnalysisError, Flow, Resolver, has_truthy
from ..repo import AnchorError
from . import c08

PROPERTY = "C16"
CORE = "esp_kconfiglib.core"
MODEL = "esp_menuconfig.model"
APP = "esp_menuconfig.app"
BASELINE = ("_sdkconfig_value", "_loaded_as_default")
LEVEL_TEXT = (
    "Static analysis of the baseline bookkeeping behind MenuConfigState.needs_save(): a replacing load of the main file "
    "re-initialises the baseline fields of every defined symbol; every other store of those fields inside _load_config "
    "is guarded by is_main_sdkconfig and the only writers outside it are constructors, the synthetic deprecated "
    "symbol and the choice bookkeeping of Symbol.set_value; loading another file passes is_main_sdkconfig=False, the "
    "post-save reload is unconditional and replacing; every successful save in the app is followed by that reload; "
    "quitting without a prompt happens only under `not needs_save()`; needs_save() compares every symbol in all four "
    "ways. Not decided: exactness of needs_save() for every history."
)


def r16_1(ctx):
    """R16.1 a replacing load of the main file resets the whole baseline: under `replace` (and is_main_sdkconfig) the
    prologue of _load_config assigns _sdkconfig_value = None and _loaded_as_default = False for every defined symbol."""
    repo = ctx.repo
    f = repo.func(f"{CORE}:Kconfig._load_config")
    ctx.analysed(f.qual)
    fl = Flow(f.node).run()
    found: Dict[str, ast.Assign] = {}
    for lp in [n for n in ast.walk(f.node) if isinstance(n, ast.For) and ast.unparse(n.iter) == "self.unique_defined_syms"]:
        tv = ast.unparse(lp.target)
        for n in ast.walk(lp):
            if isinstance(n, ast.Assign) and isinstance(n.targets[0], ast.Attribute) and n.targets[0].attr in BASELINE \
                    and ast.unparse(n.targets[0].value) == tv:
                want = "None" if n.targets[0].attr == "_sdkconfig_value" else "False"
                gs = fl.guards_at(n) or set()
                if ast.unparse(n.value) == want and gs <= {("replace", True), ("is_main_sdkconfig", True)} and ("replace", True) in gs \
                        and not any(isinstance(x, (ast.Break, ast.Continue)) for x in ast.walk(lp)):
                    found[n.targets[0].attr] = n
    for fld in BASELINE:
        construct = f"Kconfig._load_config/replacing main load re-initialises {fld} of every defined symbol"
        if fld in found:
            # it must precede the line loop
            line_loop = [n for n in ast.walk(f.node) if isinstance(n, ast.For) and "enumerate(f" in ast.unparse(n.iter)]
            ok = bool(line_loop) and found[fld].lineno < line_loop[0].lineno
            (ctx.ok(construct, f.loc(found[fld])) if ok else ctx.bad(construct, "the reset happens after entries were read", f.loc(found[fld])))
        else:
            ctx.bad(construct, f"symbols the file does not mention keep their old {fld}: after an edit hides an option and the configuration "
                    "is saved, needs_save() stays true", f.loc())


def r16_2(ctx):
    """R16.2 only the main file moves the baseline: stores inside _load_config are guarded by is_main_sdkconfig (C08 R08.6);
    outside it the only writers are constructors, the synthetic deprecated symbol and Symbol.set_value's choice
    bookkeeping; try_load passes is_main_sdkconfig=False, reload_sdkconfig_file reloads the main file replacing."""
    repo = ctx.repo
    c08.r08_6(ctx)
    allowed = {f"{CORE}:Kconfig._load_config": "guarded, see above", f"{CORE}:Symbol.init_rest": "constructor",
               f"{CORE}:Symbol.__init__": "constructor",
               f"{CORE}:Kconfig._load_config.<locals>._create_new_deprecated_symbol": "synthetic symbol that never enters unique_defined_syms",
               f"{CORE}:Symbol.set_value": "choice bookkeeping: the siblings of a user-selected member become user-set n"}
    for f in list(repo.all_funcs()):
        for n in ast.walk(f.node):
            if isinstance(n, ast.Assign) and repo.enclosing_func(n) is f:
                for t in n.targets:
                    if isinstance(t, ast.Attribute) and t.attr in BASELINE and f.qual not in allowed:
                        ctx.bad(f"{f.short}/writes {t.attr}", "the on-disk baseline is modified outside the loader: needs_save() can report clean "
                                "while the file differs (or dirty right after a save)", f.loc(n))
    sv = repo.func(f"{CORE}:Symbol.set_value")
    fl = Flow(sv.node).run()
    st = [n for n in ast.walk(sv.node) if isinstance(n, ast.Assign) and isinstance(n.targets[0], ast.Attribute) and n.targets[0].attr in BASELINE]
    construct = "Symbol.set_value/baseline touched only for the siblings of a user-selected choice member"
    ok = bool(st) and all(("self.choice", True) in (fl.guards_at(n) or set()) and ("value == 2", True) in (fl.guards_at(n) or set()) for n in st)
    (ctx.ok(construct, sv.loc(st[0])) if ok else ctx.bad(construct, "set_value moves the baseline of other symbols", sv.loc()))
    tl = repo.func(f"{MODEL}:MenuConfigState.try_load")
    rl = repo.func(f"{MODEL}:MenuConfigState.reload_sdkconfig_file")
    ctx.analysed(tl.qual, rl.qual, sv.qual)
    for f, want, label in ((tl, {"replace": "False", "is_main_sdkconfig": "False"}, "loading another file merges and leaves the baseline alone"),
                           (rl, {"replace": "True", "is_main_sdkconfig": "True"}, "the post-save reload replaces and re-baselines")):
        calls = [n for n in ast.walk(f.node) if isinstance(n, ast.Call) and ast.unparse(n.func) == "self.kconf.load_config"]
        construct = f"{f.short}/{label}"
        if not calls:
            ctx.bad(construct, "no call of self.kconf.load_config", f.loc())
            continue
        kw = {k.arg: ast.unparse(k.value) for k in calls[0].keywords}
        # defaults of load_config: replace=True, is_main_sdkconfig=True
        eff = {"replace": kw.get("replace", "True"), "is_main_sdkconfig": kw.get("is_main_sdkconfig", "True")}
        gs = Flow(f.node).run().guards_at(calls[0])
        early = [n for n in ast.walk(f.node) if isinstance(n, ast.Return) and n.lineno < calls[0].lineno]
        if eff != want:
            ctx.bad(construct, f"load_config is called with {eff}", f.loc(calls[0]))
        elif f is rl and (gs or early):
            ctx.bad(construct, f"the reload is conditional ({sorted(gs or [])}{', early return' if early else ''}): edits alone can move the in-memory "
                    "baseline (choice bookkeeping), so a skipped reload leaves needs_save() true after a successful save", f.loc(calls[0]))
        else:
            ctx.ok(construct, f.loc(calls[0]), arguments=eff)


def r16_3(ctx):
    """R16.3 save is followed by re-baselining: in the app every successful _do_save(conf_filename) is followed by
    reload_sdkconfig_file(conf_filename) before control returns to the event loop or the app exits."""
    repo = ctx.repo
    n_sites = 0
    for f in repo.funcs_in(APP):
        saves = [n for n in ast.walk(f.node) if isinstance(n, ast.Call) and ast.unparse(n.func) == "self._do_save" and repo.enclosing_func(n) is f]
        for s in saves:
            n_sites += 1
            ctx.analysed(f.qual)
            arg = ast.unparse(s.args[0])
            st = repo.enclosing_stmt(s)
            var = ast.unparse(st.targets[0]) if isinstance(st, ast.Assign) else None
            construct = f"{f.short}/successful save of {arg} is followed by reload_sdkconfig_file"
            pend = "saved"

            def events(node, _st=st):
                return [pend] if node is _st else []

            def kills(node, _arg=arg):
                if isinstance(node, (ast.If, ast.For, ast.While, ast.Try, ast.With)):
                    return []
                for c in ast.walk(node):
                    if isinstance(c, ast.Call) and ast.unparse(c.func) == "self.state.reload_sdkconfig_file" and ast.unparse(c.args[0]) == _arg:
                        return [pend]
                return []

            fl = Flow(f.node, must=False, events=events, kills=kills).run()
            # a failed save (msg falsy) needs no reload: look only at exits / self.exit() reached with msg truthy
            leaks = []
            for k, n, state in fl.exits:
                if ("ev", pend) in state:
                    leaks.append((k, n))
            ok = True
            msg = ""
            if leaks:
                # accept exits that are on the `not msg` side
                gfl = Flow(f.node).run()
                hard = []
                for k, n in leaks:
                    gs = gfl.guards_at(n) if isinstance(n, ast.stmt) else None
                    if k == "fallthrough":
                        # fallthrough after `if msg:` block: the failed-save side
                        ifs = [x for x in ast.walk(f.node) if isinstance(x, ast.If) and var and ast.unparse(x.test) == var]
                        if ifs and all(any(isinstance(c, ast.Call) and ast.unparse(c.func) == "self.state.reload_sdkconfig_file" for c in ast.walk(i)) for i in ifs):
                            continue
                    if gs is not None and var and (var, False) in gs:
                        continue
                    hard.append((k, n))
                if hard:
                    ok = False
                    msg = f"a {hard[0][0]} is reachable after the save without the reload: the baseline still describes the old file"
            # self.exit() after save must come after the reload
            for c in ast.walk(f.node):
                if isinstance(c, ast.Call) and ast.unparse(c.func) == "self.exit" and c.lineno > s.lineno:
                    stc = repo.enclosing_stmt(c)
                    evs = fl.events_at(stc) or set()
                    gs = Flow(f.node).run().guards_at(stc) or set()
                    if pend in evs and var and (var, True) in gs:
                        ok = False
                        msg = "the app exits after a successful save before reloading the file"
            (ctx.ok(construct, f.loc(s)) if ok else ctx.bad(construct, msg, f.loc(s)))
    if n_sites < 2:
        raise AnalysisError(f"only {n_sites} save sites in the app")
    ds = repo.func(f"{APP}:MenuConfigApp._do_save")
    construct = "MenuConfigApp._do_save/writes through Kconfig.write_config and reports failures"
    src = ast.unparse(ds.node)
    ok = "self.state.kconf.write_config(" in src and "except EnvironmentError" in src and "return None" in src
    (ctx.ok(construct, ds.loc(), nontrivial=False) if ok else ctx.bad(construct, "save path changed", ds.loc()))


def r16_4(ctx):
    """R16.4 the quit path trusts only needs_save(): action_quit_dialog exits without asking only under
    `not self.state.needs_save()`; a declined save exits without touching the file."""
    repo = ctx.repo
    f = repo.func(f"{APP}:MenuConfigApp.action_quit_dialog")
    ctx.analysed(f.qual)
    fl = Flow(f.node).run()
    exits = [n for n in ast.walk(f.node) if isinstance(n, ast.Call) and ast.unparse(n.func) == "self.exit"]
    construct = "MenuConfigApp.action_quit_dialog/exit without prompt only when nothing needs saving"
    if not exits:
        ctx.bad(construct, "no direct exit found", f.loc())
    else:
        bad = [e for e in exits if ("self.state.needs_save()", False) not in (fl.guards_at(e) or set())]
        (ctx.bad(construct, f"self.exit() reachable under {sorted(fl.guards_at(bad[0]) or [])}", f.loc(bad[0])) if bad else ctx.ok(construct, f.loc(exits[0])))
    construct = "MenuConfigApp.action_quit_dialog/otherwise the save dialog is shown"
    ok = any(isinstance(n, ast.Call) and ast.unparse(n.func) == "self.push_screen" and "_handle_quit_response" in ast.unparse(n) for n in ast.walk(f.node))
    (ctx.ok(construct, f.loc(), nontrivial=False) if ok else ctx.bad(construct, "no prompt", f.loc()))


def r16_5(ctx):
    """R16.5 needs_save() compares every symbol with its baseline in all four ways (new entry, changed value, default ->
    user, user -> default), reports unknown assignments, and answers False only after the whole loop."""
    repo = ctx.repo
    f = repo.func(f"{MODEL}:MenuConfigState.needs_save")
    ctx.analysed(f.qual)
    res = Resolver(f.node)
    fl = Flow(f.node, resolver=res).run()
    loops = [n for n in f.node.body if isinstance(n, ast.For) and res.text(n.iter) == "self.kconf.unique_defined_syms"]
    if not loops:
        raise AnchorError("needs_save: loop over unique_defined_syms not found")
    lp = loops[0]
    s = "self.kconf.unique_defined_syms[*]"
    # the per-symbol verdict as a boolean function of the five tests it makes, whatever the control structure:
    #   dirty  <=>  (no baseline and an entry would be written)  or  (baseline and value differs)
    #               or (baseline, same value, and the marker on disk disagrees with has_active_default_value())
    from .common import AcceptCondition
    ac = AcceptCondition(f.node)
    inside = {id(n) for n in ast.walk(lp) if isinstance(n, ast.Return)}
    loop_rets = [n for n in ast.walk(lp) if isinstance(n, ast.Return)]
    for r in loop_rets:
        if r.value is None or ast.unparse(r.value) != "True":
            ctx.bad("MenuConfigState.needs_save/loop returns only True", f"`return {ast.unparse(r.value) if r.value else ''}` inside the loop", f.loc(r))
    ac.rets = [(set(ac.fl.guards_at(n) or set()), n.value) for n in loop_rets if ac.fl.guards_at(n) is not None]
    atoms = {"B": f"{s}._sdkconfig_value is None", "CS": f"{s}.config_string", "EQ": f"{s}.str_value == {s}._sdkconfig_value",
             "LD": f"{s}._loaded_as_default", "HD": f"{s}.has_active_default_value()"}
    present = set()
    for g, e in ac.rets:
        for k, _ in g:
            present |= ac._leaves(ac._parse(k))
    ac.atoms = sorted(present | set(atoms.values()))
    other = [a for a in ac.atoms if a not in atoms.values() and a != "self.kconf.missing_syms"]
    labels = {
        "no baseline and an entry would be written": lambda v: v["B"] and v["CS"],
        "value differs from the baseline": lambda v: not v["B"] and not v["EQ"],
        "was user-set on disk, is default now": lambda v: not v["B"] and v["EQ"] and not v["LD"] and v["HD"],
        "was default on disk, is user-set now": lambda v: not v["B"] and v["EQ"] and v["LD"] and not v["HD"],
    }
    wrong: Dict[str, Dict[str, bool]] = {}
    spurious = None
    for v in ac.valuations({"self.kconf.missing_syms": False} if "self.kconf.missing_syms" in ac.atoms else {}):
        vv = {k: v[a] for k, a in atoms.items()}
        got = any(all(ac._ev(ac._parse(k), v) == pol for k, pol in g) for g, e in ac.rets)
        exp = {lab: fn(vv) for lab, fn in labels.items()}
        for lab, e in exp.items():
            if e and not got and lab not in wrong:
                wrong[lab] = vv
        if got and not any(exp.values()) and spurious is None:
            spurious = vv
    for lab in labels:
        construct = f"MenuConfigState.needs_save/{lab}"
        (ctx.bad(construct, f"not reported dirty for {wrong[lab]}", f.loc(lp)) if lab in wrong else ctx.ok(construct, f.loc(lp)))
    if spurious is not None:
        ctx.bad("MenuConfigState.needs_save/dirty only for one of the four reasons", f"reported dirty for {spurious}", f.loc(lp))
    if other:
        ctx.note(f"needs_save: further tests in the loop: {other}")
    construct = "MenuConfigState.needs_save/every symbol is examined, False only after the loop"
    tail = f.node.body[-1]
    ok = isinstance(tail, ast.Return) and ast.unparse(tail.value) == "False" and not any(isinstance(x, ast.Break) for x in ast.walk(lp)) \
        and f.node.body.index(lp) == len(f.node.body) - 2
    (ctx.ok(construct, f.loc(tail)) if ok else ctx.bad(construct, "the loop can be cut short or the final answer changed", f.loc()))
    construct = "MenuConfigState.needs_save/unknown assignments force a save"
    first = [n for n in f.node.body if isinstance(n, ast.If)]
    ok = bool(first) and res.text(first[0].test) == "self.kconf.missing_syms" and ast.unparse(first[0].body[0]) == "return True"
    (ctx.ok(construct, f.loc(), nontrivial=False) if ok else ctx.bad(construct, "missing_syms no longer forces a save", f.loc()))


def r16_6(ctx):
    """R16.6 (a) unknown assignments of the main file keep the session dirty until it is saved: Kconfig.missing_syms is
    cleared only by a replacing load (a merge-load of another file must not empty it); (b) needs_save() looks at every
    symbol that has a baseline, whether or not an entry would currently be written; (c) the save is skipped only when the
    file is identical (whole-file comparison, C13 R13.1b)."""
    repo = ctx.repo
    f = repo.func(f"{CORE}:Kconfig._load_config")
    fl = Flow(f.node).run()
    st = [n for n in ast.walk(f.node) if isinstance(n, ast.Assign) and ast.unparse(n.targets[0]) == "self.missing_syms"]
    construct = "Kconfig._load_config/missing_syms cleared only by a replacing load"
    if not st:
        ctx.bad(construct, "missing_syms is never reset", f.loc())
    else:
        bad = [n for n in st if ("replace", True) not in (fl.guards_at(n) or set())]
        (ctx.bad(construct, "the list of unknown assignments is emptied by a merge-load (menuconfig Load): needs_save() turns false although the main file still "
                 "contains the unknown entry that a save would drop", f.loc(bad[0])) if bad else ctx.ok(construct, f.loc(st[0])))
    ns = repo.func(f"{MODEL}:MenuConfigState.needs_save")
    res = Resolver(ns.node)
    fl2 = Flow(ns.node, resolver=res).run()
    lp = [n for n in ns.node.body if isinstance(n, ast.For)][0]
    conts = [n for n in ast.walk(lp) if isinstance(n, ast.Continue)]
    construct = "MenuConfigState.needs_save/no symbol with a baseline is skipped"
    skipping = [c for c in conts if not any(k.endswith("._sdkconfig_value is None") and pol for k, pol in (fl2.guards_at(c) or set()))]
    (ctx.bad(construct, f"a `continue` under {sorted(fl2.guards_at(skipping[0]) or [])} skips symbols that have a baseline: a stale entry of a currently hidden "
             "option no longer makes the session dirty", ns.loc(skipping[0])) if skipping else ctx.ok(construct, ns.loc(lp)))
    from . import c13
    c13.r13_1b(ctx)


def r16_7(ctx):
    """R16.7 what `save` writes is what the reload takes back as the same state: (a) the `# default:` marker of a line is
    decided after the value was evaluated (C03 R03.6) - a marker decided on a stale `set` flag makes the reload read a
    default as a user value (or the reverse) and needs_save() is true right after saving; (b) `promptless` is decided over
    all definitions of an option in the writer's marker predicate and in the loader alike (C02 R02.9b) - otherwise a typed
    value is written with the marker, reloaded as a default and the edit is lost."""
    from . import c02, c03
    from .common import delegate
    delegate(ctx, c03.r03_6, lambda c: c.startswith("Symbol.config_string/"))
    delegate(ctx, c02.r02_9, lambda c: "prompt tests quantify" in c)


def r16_8(ctx):
    """R16.8 every edit goes through the gate that keeps the model consistent with what a save writes (C17 R17.2): the y/n
    keys apply a value only if it is assignable - an `n` forced onto the selected member of an untouched choice gives a
    file whose reload reports clean although saving would write something else."""
    from . import c17
    from .common import delegate
    delegate(ctx, c17.r17_2, lambda c: "set_sel_node_bool_val" in c or "assignable" in c)

def r16_9(ctx):
    """R16.9 every entry of the main file that names an unknown option - assignments and `is not set` lines alike - is
    recorded in Kconfig.missing_syms (through _undef_assign): needs_save() relies on that list to know that saving would
    drop a line the file still has."""
    repo = ctx.repo
    f = repo.func(f"{CORE}:Kconfig._load_config")
    ctx.analysed(f.qual)
    fl = Flow(f.node, resolver=Resolver(f.node)).run()
    calls = [n for n in ast.walk(f.node) if isinstance(n, ast.Call) and ast.unparse(n.func) == "self._undef_assign" and repo.enclosing_func(n) is f]
    kinds = {"assignment": False, "`is not set`": False}
    for c in calls:
        if len(c.args) > 1 and isinstance(c.args[1], ast.Constant) and c.args[1].value == "n":
            kinds["`is not set`"] = True
        else:
            kinds["assignment"] = True
    for k, ok in kinds.items():
        construct = f"Kconfig._load_config/unknown {k} entries are recorded in missing_syms"
        (ctx.ok(construct, f.loc(calls[0]) if calls else f.loc()) if ok else
         ctx.bad(construct, f"an {k} line for an option the tree does not define is no longer passed to _undef_assign(): the session reports clean while the "
                 "file has a line that saving would drop", f.loc()))
    ua = repo.func(f"{CORE}:Kconfig._undef_assign")
    construct = "Kconfig._undef_assign/appends to missing_syms unconditionally"
    app = [n for n in ua.node.body if isinstance(n, ast.Expr) and isinstance(n.value, ast.Call) and ast.unparse(n.value.func) == "self.missing_syms.append"]
    (ctx.ok(construct, ua.loc(app[0]), nontrivial=False) if app else ctx.bad(construct, "the record is conditional or gone", ua.loc()))

def r16_10(ctx):
    """R16.10 what is displayed and compared is what would be written: every component the evaluators read has an invalidation edge,
    range bounds included (C03 R03.1) - a stale clamped value makes needs_save() compare a value Save will not write."""
    from . import c03
    from .common import delegate
    delegate(ctx, c03.r03_1, lambda c: "self.ranges" in c)


def r16_11(ctx):
    """R16.11 the baseline is what the file says: between the line regex and the stores of the user value / the file's baseline,
    _load_config rewrites the value text only in the ways the writer undoes - first character of a bool, unescape of a quoted
    string, the float normaliser (the writer emits normalised floats), the y/n swap of an inverted alias and the `is not set`
    default. Any other re-spelling (adding `0x`, stripping zeros, changing case) makes the session's baseline differ from the
    bytes on disk, so needs_save() is False while saving would change the file."""
    repo = ctx.repo
    f = repo.func(f"{CORE}:Kconfig._load_config")
    ctx.analysed(f.qual)
    allowed = ("match.groups()", "_normalize_float(val)", "val[0]", "unescape(match.group(1))", "unescape(", "'n' if val.startswith('y') else 'y'",
               "_deprecated_unset_val if _deprecated_unset_val is not None else 'n'", "set_match(line).groups()")
    n = 0
    for st in ast.walk(f.node):
        if not (isinstance(st, ast.Assign) and repo.enclosing_func(st) is f):
            continue
        if not any(isinstance(t, ast.Name) and t.id == "val" for tt in st.targets for t in ast.walk(tt)):
            continue
        n += 1
        v = ast.unparse(st.value).replace('"', "'")
        construct = f"Kconfig._load_config/value text rewritten only as the writer undoes (`{v[:40]}`)"
        if isinstance(st.value, ast.Constant) or any(v == a or (a.endswith("(") and v.startswith(a)) or v.endswith(a) for a in allowed):
            ctx.ok(construct, f.loc(st))
        else:
            ctx.bad(construct, f"`{ast.unparse(st)[:70]}` re-spells the value read from the file: the recorded baseline (and the stored user value) is no longer "
                    "the text on disk", f.loc(st))
    if n < 5:
        raise AnalysisError(f"only {n} assignments to the value text found in _load_config")


def r16_12(ctx):
    """R16.12 what Save writes can be read back as it was written, entry by entry: (a) every line shape of the writer, also with an empty
    value, is accepted by the reader regexes (C02 R02.1) - a `CONFIG_X=` line that is dropped as malformed leaves X without a baseline
    and hands its `# default:` marker to the next entry; (b) the tree walk of the writer descends into every node (C07 R07.9a) - an
    option below a hidden menu still has a value and a baseline; (c) resetting one member of a choice resets the choice as a whole
    (C05 R05.4) - a half-reset choice is written with mixed markers that the reload normalises away."""
    from . import c02, c05, c07
    from .common import delegate
    delegate(ctx, c02.r02_1, lambda c: 'line shape' in c)
    delegate(ctx, c07.r07_9, lambda c: '_config_contents' in c)
    delegate(ctx, c05.r05_4, lambda c: '_restore_default' in c)


def r16_13(ctx):
    """R16.13 set_value() refuses a value for its form only: every `return False` of Symbol.set_value() stands under the failed
    form check (`value_is_valid`) - not under anything evaluated at the moment of the call (ranges, visibility). The loader
    feeds the lines of a file through set_value() one by one and records the on-disk baseline only when it returns True: a
    value that is out of range *while the file is half loaded* would lose its baseline, and needs_save() is true right after
    loading a file the tool wrote. Also: `y` / `n` are converted to 2 / 0 for bool options only (a string option may hold `y`)."""
    repo = ctx.repo
    f = repo.func(f"{CORE}:Symbol.set_value")
    ctx.analysed(f.qual)
    fl = Flow(f.node, resolver=Resolver(f.node)).run()
    rets = [n for n in ast.walk(f.node) if isinstance(n, ast.Return) and isinstance(n.value, ast.Constant) and n.value.value is False]
    if not rets:
        raise AnchorError("Symbol.set_value: no `return False`")
    for i, r in enumerate(rets):
        construct = f"Symbol.set_value/`return False` #{i + 1} is the failed form check"
        gs = fl.guards_at(r) or set()
        # explaining variables are read through (`valid = self.value_is_valid(value)`; `if not valid:`)
        from .common import expand_locals, parse_key
        def _x(k):
            try:
                return expand_locals(f.node, parse_key(k))
            except Exception:
                return k
        ok = any(("value_is_valid(" in _x(k) and not p) or (_x(k).startswith("not ") and "value_is_valid(" in _x(k) and p) for k, p in gs)
        in_loop = any(isinstance(p_, (ast.For, ast.While)) for p_ in _up(repo, r))
        (ctx.ok(construct, f.loc(r)) if ok and not in_loop else
         ctx.bad(construct, f"the value is refused under {sorted(k for k, p in gs if p)[:3] or 'a condition evaluated at call time'}: whether an assignment of a file is accepted "
                 "depends on what was loaded before it - no baseline is recorded for it and the session is dirty right after loading", f.loc(r)))
    conv = [n for n in ast.walk(f.node) if isinstance(n, ast.Assign) and "STR_TO_BOOL[" in ast.unparse(n.value)]
    construct = "Symbol.set_value/`y` and `n` are read as 2 and 0 for bool options only"
    if not conv:
        raise AnchorError("Symbol.set_value: STR_TO_BOOL conversion not found")
    gs = fl.guards_at(conv[0]) or set()
    ok = any(k in ("self.orig_type == BOOL", "self.orig_type is BOOL") and p for k, p in gs)
    (ctx.ok(construct, f.loc(conv[0])) if ok else
     ctx.bad(construct, "the text `y` / `n` of a string (or number) option becomes the int 2 / 0, fails the form check and is dropped - the dialog's validator accepts it", f.loc(conv[0])))


def _up(repo, n):
    p = repo.parent(n)
    while p is not None:
        yield p
        p = repo.parent(p)


def r16_14(ctx):
    """R16.14 the saved file says what the session holds: every return of _escape() is the full escape chain (C02 R02.9) - a fast
    path for strings without a quote writes a backslash bare, the re-load after the save collapses it, and `nothing needs
    saving` is reported for a file that lost the typed value."""
    from . import c02
    from .common import delegate
    delegate(ctx, c02.r02_9, lambda c: c.startswith("_escape/"))


def rules():
    return [("R16.14", r16_14, 1), ("R16.13", r16_13, 2), ("R16.12", r16_12, 8), ("R16.11", r16_11, 5), ("R16.10", r16_10, 2), ("R16.9", r16_9, 2), ("R16.8", r16_8, 2), ("R16.7", r16_7, 3), ("R16.1", r16_1, 2), ("R16.2", r16_2, 11), ("R16.3", r16_3, 3), ("R16.4", r16_4, 2), ("R16.5", r16_5, 6), ("R16.6", r16_6, 4)]
