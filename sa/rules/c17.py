"""C17 - the menuconfig model stays consistent under any sequence of user actions (necessary structural
conditions)."""
from __future__ import annotations

import ast
from typing import Dict, List, Optional, Set, Tuple

from ..callgraph import CallGraph
from ..flow import AnalysisError, Flow, Resolver
from ..pathenum import NORM, RET, Enumerator, Path
from ..repo import AnchorError, Func
from ..tables import type_tests_in

PROPERTY = "C17"
CORE = "esp_kconfiglib.core"
MODEL = "esp_menuconfig.model"
APP = "esp_menuconfig.app"
FMT = "esp_menuconfig.formatting"
LEVEL_TEXT = (
    "Static analysis of esp_menuconfig: (partial operations) every list.index() on a shown-row list is dominated by a "
    "positive membership test, by the repository's repair idiom (negative membership test that recomputes the list with "
    "show-all), or sits in try/except ValueError; every replacement of the displayed list re-establishes the highlighted "
    "row on all paths; (gate) the only caller of set_value is _set_val and every way to reach it passes changeable() / an "
    "assignable test or a dialog opened after one; (validator) check_valid contains every conjunct of value_is_valid and "
    "uses the evaluator's first-active-range rule. Not decided: absence of every other exception for every tree and "
    "action sequence; Textual's widget state."
)

EXEMPT_INDEX = {
    "MenuConfigState._update_menu": "the edited row's own presence cannot depend on its own value (such a dependency is a loop rejected at load, "
    "C09); its only other caller _handle_load_result switches show-all on first when the row would vanish",
}


def _shown_lists(fn: ast.AST) -> Set[str]:
    names = {"self.shown", "self.state.shown"}
    for n in ast.walk(fn):
        if isinstance(n, ast.Assign) and isinstance(n.targets[0], ast.Name) and "shown_nodes(" in ast.unparse(n.value):
            names.add(n.targets[0].id)
    return names


def r17_1(ctx):
    """R17.1 partial list operations are guarded: X.index(y) on a displayed-row list needs (i) a dominating `y in X`, (ii)
    the repair idiom `if y not in X: <show_all = True; X = shown_nodes(...)>` immediately before, (iii) try/except
    ValueError, or a named exemption. assignable.index(v) needs the multi-valued branch."""
    repo = ctx.repo
    n_sites = 0
    for modname in (MODEL, APP, "esp_menuconfig.widgets", "esp_menuconfig.screens"):
        for f in repo.funcs_in(modname):
            lists = _shown_lists(f.node)
            sites = [n for n in ast.walk(f.node) if isinstance(n, ast.Call) and isinstance(n.func, ast.Attribute) and n.func.attr == "index"
                     and repo.enclosing_func(n) is f and len(n.args) == 1]
            if not sites:
                continue
            res = Resolver(f.node)
            fl = Flow(f.node, resolver=res).run()
            ctx.analysed(f.qual)
            for s in sites:
                X, y = ast.unparse(s.func.value), ast.unparse(s.args[0])
                construct = f"{f.short}/{X}.index({y})"
                if X.endswith("assignable"):
                    n_sites += 1
                    gs = fl.guards_at(s) or set()
                    ok = (f"len({X}) == 1", False) in gs
                    (ctx.ok(construct, f.loc(s)) if ok else ctx.bad(construct, "index() on the assignable tuple outside the multi-valued branch", f.loc(s)))
                    continue
                if X not in lists:
                    continue
                n_sites += 1
                from ..provenance import effective_guards
                gs = effective_guards(fl, res, f.node, s)
                Xr, yr = res.text(s.func.value), res.text(s.args[0])
                if (f"{y} in {X}", True) in gs or (f"{yr} in {Xr}", True) in gs or (f"{y} in {Xr}", True) in gs:
                    ctx.ok(construct, f.loc(s), by="positive membership test")
                    continue
                # repair idiom: a preceding sibling `if y not in X:` whose body switches show_all on and recomputes X
                st = repo.enclosing_stmt(s)
                par = repo.parent(st)
                body = None
                for fld in ("body", "orelse"):
                    b = getattr(par, fld, None)
                    if isinstance(b, list) and st in b:
                        body = b
                repaired = False
                if body:
                    for prev in body[: body.index(st)]:
                        if isinstance(prev, ast.If) and ast.unparse(prev.test) in (f"{y} not in {X}", f"not {y} in {X}") and not prev.orelse:
                            src = [ast.unparse(z) for z in prev.body]
                            if any(z.endswith("show_all = True") for z in src) and any(z.startswith(f"{X} = ") and "shown_nodes(" in z for z in src):
                                # nothing between the repair and the use rebinds X or y
                                between = body[body.index(prev) + 1: body.index(st)]
                                if not any(isinstance(z, ast.Assign) and ast.unparse(z.targets[0]) in (X, y) for z in between):
                                    repaired = True
                if repaired:
                    ctx.ok(construct, f.loc(s), by="repair idiom (show-all fallback)")
                    continue
                # try/except ValueError
                p = repo.parent(s)
                child: ast.AST = s
                tried = False
                while p is not None and p is not f.node:
                    if isinstance(p, ast.Try) and any(child is x or any(child is y2 for y2 in ast.walk(x)) for x in p.body):
                        if any(h.type is None or "ValueError" in ast.unparse(h.type) or ast.unparse(h.type) == "Exception" for h in p.handlers):
                            tried = True
                    child = p
                    p = repo.parent(p)
                if tried:
                    ctx.ok(construct, f.loc(s), by="try/except ValueError")
                elif f.short in EXEMPT_INDEX:
                    ctx.exempt(construct, EXEMPT_INDEX[f.short], f.loc(s))
                else:
                    ctx.bad(construct, f"`{y}` is not known to be in `{X}` here (no membership test, no show-all fallback, no handler): "
                            "a row that an edit or a mode switch made invisible raises ValueError", f.loc(s))
    if n_sites < 6:
        raise AnalysisError(f"only {n_sites} index() sites found")


def _only_called_on_fresh_state(repo, f: Func) -> bool:
    """every call of the method `f` in esp_menuconfig has as receiver a local that was bound, in the same function, to a new
    MenuConfigState(...) and is used for nothing else in between (no attribute store, no other method call): the highlight
    index still has the dataclass default 0"""
    calls = []
    for g in repo.all_funcs():
        if not g.module.name.startswith("esp_menuconfig"):
            continue
        for n in ast.walk(g.node):
            if isinstance(n, ast.Call) and isinstance(n.func, ast.Attribute) and n.func.attr == f.name and repo.enclosing_func(n) is g \
                    and not ast.unparse(n.func.value).endswith("kconf"):
                calls.append((g, n))
    if not calls:
        return False
    cls = repo.cls(f"{MODEL}:MenuConfigState")
    default0 = any(isinstance(b, ast.AnnAssign) and isinstance(b.target, ast.Name) and b.target.id == "sel_node_i" and (
        (isinstance(b.value, ast.Constant) and b.value.value == 0) or
        (isinstance(b.value, ast.Call) and ast.unparse(b.value.func).split(".")[-1] == "field"
         and any(k.arg == "default" and isinstance(k.value, ast.Constant) and k.value.value == 0 for k in b.value.keywords)))
                   for b in cls.body)
    if not default0:
        return False
    for g, c in calls:
        recv = c.func.value
        if not isinstance(recv, ast.Name):
            return False
        body = g.node.body
        news = [i for i, st in enumerate(body) if isinstance(st, ast.Assign) and len(st.targets) == 1 and ast.unparse(st.targets[0]) == recv.id
                and isinstance(st.value, ast.Call) and ast.unparse(st.value.func).split(".")[-1] == "MenuConfigState"]
        use = [i for i, st in enumerate(body) if any(x is c for x in ast.walk(st))]
        if len(news) != 1 or len(use) != 1 or use[0] <= news[0]:
            return False
        for st in body[news[0] + 1:use[0]]:
            if any(isinstance(x, ast.Name) and x.id == recv.id for x in ast.walk(st)):
                return False
    return True


def r17_5(ctx):
    """R17.5 the highlighted row always exists: on every path through a method that replaces self.shown, sel_node_i is
    (re)established from .index() on the stored list, or set to 0 with the list known non-empty."""
    repo = ctx.repo
    n = 0
    for f in repo.funcs_in(MODEL):
        if f.cls != "MenuConfigState" or f.name == "__post_init__":
            continue
        stores = [x for x in ast.walk(f.node) if isinstance(x, ast.Assign) and ast.unparse(x.targets[0]) == "self.shown" and repo.enclosing_func(x) is f]
        if not stores:
            continue
        ctx.analysed(f.qual)
        n += 1

        # helpers of the class that hand back `<their list argument>.index(..)` (or None when nothing is found)
        def index_summary(call: ast.AST) -> Optional[str]:
            if not (isinstance(call, ast.Call) and isinstance(call.func, ast.Attribute) and isinstance(call.func.value, ast.Name) and call.func.value.id == "self"):
                return None
            q = f"{MODEL}:MenuConfigState.{call.func.attr}"
            if not repo.has_func(q):
                return None
            h = repo.func(q)
            ps = [a.arg for a in h.node.args.args][1:]
            rets = [r for r in ast.walk(h.node) if isinstance(r, ast.Return)]
            which = set()
            for r in rets:
                if r.value is None or (isinstance(r.value, ast.Constant) and r.value.value is None):
                    continue
                v_ = r.value
                if isinstance(v_, ast.Call) and isinstance(v_.func, ast.Attribute) and v_.func.attr == "index" and isinstance(v_.func.value, ast.Name) and v_.func.value.id in ps:
                    which.add(ps.index(v_.func.value.id))
                else:
                    return None
            if len(which) == 1 and rets:
                i_ = which.pop()
                return ast.unparse(call.args[i_]) if i_ < len(call.args) else None
            return None

        local_idx: Dict[str, str] = {}
        for a_ in ast.walk(f.node):
            if isinstance(a_, ast.Assign) and isinstance(a_.targets[0], ast.Name) and index_summary(a_.value):
                local_idx[a_.targets[0].id] = index_summary(a_.value)

        def on_stmt(st, p: Path, loops):
            if isinstance(st, ast.Assign):
                t, v = ast.unparse(st.targets[0]), ast.unparse(st.value)
                if t == "self.shown":
                    p.events.append(("STORE", st.lineno, v))
                if t == "self.sel_node_i":
                    if isinstance(st.value, ast.Name) and st.value.id in local_idx and \
                            any(c in (f"{st.value.id} is None",) and pol is False for c, pol, _, _ in p.conds):
                        p.events.append(("SELIDX", st.lineno, local_idx[st.value.id]))
                    elif index_summary(st.value):
                        p.events.append(("SELOTHER", st.lineno, v))  # may be None: not accepted without a None test
                    elif ".index(" in v:
                        p.events.append(("SELIDX", st.lineno, v.split(".index(")[0]))
                    elif v == "0":
                        p.events.append(("SELZERO", st.lineno, None))
                    else:
                        p.events.append(("SELOTHER", st.lineno, v))

        paths = Enumerator(on_stmt, max_iter=1).run(f.node.body, Path())
        bad = None
        for p, status in paths:
            if status not in (NORM, RET):
                continue
            ev = p.events
            st_i = [i for i, e in enumerate(ev) if e[0] == "STORE"]
            if not st_i:
                continue
            i = st_i[-1]
            stored = ev[i][2]
            ok = False
            for j, e in enumerate(ev):
                if e[0] == "SELIDX" and ((j > i and e[2] in ("self.shown", stored)) or (j < i and e[2] == stored)):
                    ok = True
                if e[0] == "SELZERO" and any(c in (stored, f"not {stored}") and ((c == stored) == pol) for c, pol, _, _ in p.conds):
                    ok = True
            if not ok:
                bad = (ev[i][1], stored)
        construct = f"{f.short}/replacing the displayed list re-establishes the highlighted row"
        if bad and _only_called_on_fresh_state(repo, f):
            # the list of a state that was created a moment ago is replaced: sel_node_i still has its initial value, exactly
            # as if the constructor had computed this list (menuconfig() then deals with an empty one)
            ctx.ok(construct, f.loc(stores[0]), paths=len(paths), fresh_state_only=True)
        elif bad:
            ctx.bad(construct, f"a path stores `{bad[1]}` into self.shown (line {bad[0]}) without sel_node_i being taken from .index() on it or reset to 0 "
                    "on a list known non-empty: shown[sel_node_i] can raise IndexError", f"{f.module.relpath}:{bad[0]}")
        else:
            ctx.ok(construct, f.loc(stores[0]), paths=len(paths))
    if n < 4:
        raise AnalysisError(f"only {n} methods replace self.shown")


GATE_EXPECT = {
    f"{MODEL}:MenuConfigState._set_val": {f"{MODEL}:MenuConfigState.set_val", f"{MODEL}:MenuConfigState._perform_toggle",
                                           f"{MODEL}:MenuConfigState.set_sel_node_bool_val"},
    f"{MODEL}:MenuConfigState._perform_toggle": {f"{MODEL}:MenuConfigState.change_node", f"{MODEL}:MenuConfigState.force_change_node"},
    f"{MODEL}:MenuConfigState.set_val": {f"{APP}:MenuConfigApp._apply_input"},
    f"{MODEL}:MenuConfigState.force_change_node": {f"{APP}:MenuConfigApp._do_warned_change"},
    f"{APP}:MenuConfigApp._apply_input": {f"{APP}:MenuConfigApp._show_input_dialog"},
    f"{APP}:MenuConfigApp._do_warned_change": {f"{APP}:MenuConfigApp._show_warning_then_change"},
}


def r17_2(ctx):
    """R17.2 edits go through the gate: inside esp_menuconfig only _set_val calls set_value; the callers of each step of the
    edit chain are exactly the confirmed ones; change_node tests changeable() first; set_sel_node_bool_val tests
    assignable; input and warning dialogs are opened only after change_node answered NEEDS_INPUT / NEEDS_WARNING;
    changeable() refuses non-bools with an active `set` and bools with a single assignable value."""
    repo = ctx.repo
    cg = CallGraph(repo)
    direct = []
    for f in repo.all_funcs():
        if not f.module.name.startswith("esp_menuconfig"):
            continue
        for n in ast.walk(f.node):
            if isinstance(n, ast.Call) and isinstance(n.func, ast.Attribute) and n.func.attr in ("set_value", "unset_value") \
                    and repo.enclosing_func(n) is f:
                direct.append((f, n))
    construct = "esp_menuconfig/only MenuConfigState._set_val writes user values"
    others = [(f, n) for f, n in direct if f.qual != f"{MODEL}:MenuConfigState._set_val"]
    (ctx.bad(construct, f"{others[0][0].short} calls {ast.unparse(others[0][1].func)} directly, bypassing changeable()", others[0][0].loc(others[0][1]))
     if others else ctx.ok(construct, repo.func(f"{MODEL}:MenuConfigState._set_val").loc(), callers=len(direct)))
    for callee, expect in GATE_EXPECT.items():
        repo.func(callee)
        callers = {c.qual for c, _ in cg.callers(callee, weak=True) if c.module.name.startswith("esp_menuconfig")}
        # lambdas/callbacks: nested references by name
        short = callee.split(".")[-1]
        for f in repo.all_funcs():
            if f.module.name.startswith("esp_menuconfig") and any(isinstance(n, ast.Attribute) and n.attr == short and isinstance(n.ctx, ast.Load)
                                                                    and ast.unparse(n.value) in ("self", "self.state") for n in ast.walk(f.node)
                                                                    if repo.enclosing_func(n) is f):
                callers.add(f.qual)
        callers.discard(callee)
        construct = f"{callee.split(':')[1]}/reached only from {sorted(c.split('.')[-1] for c in expect)}"
        extra = callers - expect
        if extra:
            ctx.bad(construct, f"additional caller(s) {sorted(extra)}: a path to set_value that does not pass the gate", repo.func(sorted(extra)[0]).loc())
        else:
            ctx.ok(construct, repo.func(callee).loc(), callers=sorted(callers))
    cn = repo.func(f"{MODEL}:MenuConfigState.change_node")
    ctx.analysed(cn.qual)
    fl = Flow(cn.node).run()
    tog = [n for n in ast.walk(cn.node) if isinstance(n, ast.Call) and ast.unparse(n.func) == "self._perform_toggle"]
    construct = "MenuConfigState.change_node/toggle only after changeable(node)"
    ok = bool(tog) and ("self.changeable(node)", True) in (fl.guards_at(tog[0]) or set())
    (ctx.ok(construct, cn.loc(tog[0])) if ok else ctx.bad(construct, "the toggle is reachable without the changeable() test", cn.loc()))
    sb = repo.func(f"{MODEL}:MenuConfigState.set_sel_node_bool_val")
    fl = Flow(sb.node, resolver=Resolver(sb.node)).run()
    sv = [n for n in ast.walk(sb.node) if isinstance(n, ast.Call) and ast.unparse(n.func) == "self._set_val"]
    construct = "MenuConfigState.set_sel_node_bool_val/value must be assignable"
    ok = bool(sv) and any(k.endswith(".assignable") and "bool_val in" in k and p for k, p in (fl.guards_at(sv[0]) or set()))
    (ctx.ok(construct, sb.loc(sv[0])) if ok else ctx.bad(construct, "a bool value outside `assignable` can be applied", sb.loc()))
    # dialogs only after the right answer
    for q in (f"{APP}:MenuConfigApp._on_node_toggled", f"{APP}:MenuConfigApp._handle_change", f"{APP}:MenuConfigApp._do_warned_change"):
        f = repo.func(q)
        ctx.analysed(q)
        fl = Flow(f.node, resolver=Resolver(f.node)).run()
        for n in ast.walk(f.node):
            if isinstance(n, ast.Call) and ast.unparse(n.func) in ("self._show_input_dialog", "self._show_warning_then_change"):
                need = "NEEDS_INPUT" if "input" in ast.unparse(n.func) else "NEEDS_WARNING"
                gs = fl.guards_at(n) or set()
                construct = f"{f.short}/{ast.unparse(n.func)[5:]} only after {need}"
                ok = any(need in k and p for k, p in gs)
                (ctx.ok(construct, f.loc(n)) if ok else ctx.bad(construct, f"dialog opened under {sorted(gs)}", f.loc(n)))
    # the same decision written as a table `{ChangeResult.NEEDS_INPUT: self._show_input_dialog, ...}`: the key is the answer
    for f in repo.funcs_in(APP):
        for d in [n for n in ast.walk(f.node) if isinstance(n, ast.Dict) and repo.enclosing_func(n) is f]:
            for k, v in zip(d.keys, d.values):
                if k is not None and isinstance(v, ast.Attribute) and ast.unparse(v) in ("self._show_input_dialog", "self._show_warning_then_change"):
                    need = "NEEDS_INPUT" if "input" in v.attr else "NEEDS_WARNING"
                    construct = f"{f.short}/table entry {v.attr} only for {need}"
                    ctx.analysed(f.qual)
                    (ctx.ok(construct, f.loc(v)) if need in ast.unparse(k) else
                     ctx.bad(construct, f"the dialog is dispatched for `{ast.unparse(k)}`", f.loc(v)))
    ch = repo.func(f"{MODEL}:MenuConfigState.changeable")
    ctx.analysed(ch.qual)
    construct = "MenuConfigState.changeable/refuses locked options"
    # what changeable() accepts, as a boolean function of its tests (guard clauses, one nested if or a flag - the spelling
    # does not matter): only a symbol/choice with an active prompt on this node; a text/number option iff no `set` is active;
    # anything else iff more than one value is assignable or it is a member of a y-mode choice
    from .common import AcceptCondition
    ac = AcceptCondition(ch.node)
    A = {"kind": "isinstance(node.item, (Symbol, Choice))", "prompt": "node.prompt", "pcond": "expr_value(node.prompt[1])", "sym": "isinstance(node.item, Symbol)",
         "typed": "node.item.orig_type in (STRING, INT, HEX, FLOAT)", "locked": "node.item._has_active_indirect_set", "many": "len(node.item.assignable) > 1",
         "ymode": "_is_y_mode_choice_sym(node.item)"}
    missing = [a for a in A.values() if a not in ac.atoms]
    extra = [a for a in ac.atoms if a not in A.values()]
    if missing or extra:
        ctx.bad(construct, f"changeable() no longer decides on {missing or 'what it did'}" + (f" and newly on {extra}" if extra else ""), ch.loc())
    else:
        import itertools as _it
        keys = list(A)
        wrong = None
        for vals in _it.product((True, False), repeat=len(keys)):
            w = dict(zip(keys, vals))
            if w["sym"] and not w["kind"]:
                continue
            spec = w["kind"] and w["prompt"] and w["pcond"] and ((not w["locked"]) if (w["sym"] and w["typed"]) else (w["many"] or w["ymode"]))
            if bool(ac.accept({A[k]: w[k] for k in keys})) != bool(spec):
                wrong = w
                break
        (ctx.bad(construct, f"with {wrong} the row is {'changeable' if not spec else 'refused'}: an option locked by an active `set`, or a row whose own prompt "
                 "is not active, can be edited (or an editable one cannot)", ch.loc()) if wrong else ctx.ok(construct, ch.loc(), atoms=len(ac.atoms)))


def r17_3(ctx):
    """R17.3 validator and setter agree: every path on which formatting.check_valid accepts an int / hex text has passed the
    setter's own form predicate `_is_base_n(<text as applied>, base)` positively, and for hex has excluded a negative number and
    a sign (Symbol.value_is_valid: `_is_base_n(value, 16) and int(value, 16) >= 0`, the text being applied behind `0x`) -
    decided by evaluating the tests on each accepting path over the atoms A (form), H (hex), N (negative), G (signed) and free
    atoms for everything else. An acceptance decided by `int()` succeeding is *not* the setter's predicate: `1_0` and `+5`
    pass int() and are dropped by set_value() (fixed defect 5.58). For float the validator tests is_float on the text."""
    import itertools as _it
    repo = ctx.repo
    viv = repo.func(f"{CORE}:Symbol.value_is_valid")
    cv = repo.func(f"{FMT}:check_valid")
    ctx.analysed(viv.qual, cv.qual)
    vsrc = ast.unparse(viv.node)
    for ty, b in (("INT", 10), ("HEX", 16)):
        if f"_is_base_n(value, {b})" not in vsrc:
            raise AnchorError(f"Symbol.value_is_valid: the {ty} form check is no longer `_is_base_n(value, {b})`")
    hex_nonneg = "int(value, 16) >= 0" in vsrc
    prm = cv.node.args.args[1].arg
    texts = {prm, f"{prm}.strip()"}
    for a in ast.walk(cv.node):
        if isinstance(a, ast.Assign) and len(a.targets) == 1 and isinstance(a.targets[0], ast.Name) and ast.unparse(a.value) == f"{prm}.strip()":
            texts.add(a.targets[0].id)
    bases = {"base", "10", "16"}
    free: Dict[str, str] = {}

    from .common import expand_locals

    _leaf_memo: Dict[int, Tuple[str, bool]] = {}

    def leaf(node):
        if id(node) not in _leaf_memo:
            _leaf_memo[id(node)] = _leaf(node)
        return _leaf_memo[id(node)]

    def _leaf(node):
        # explaining variables are read through (`is_hex = sym.orig_type == HEX`, `entered = int(text, base)`)
        if any(isinstance(x, ast.Name) and x.id not in texts and x.id not in ("sym", "base", prm) for x in ast.walk(node)):
            try:
                node = ast.parse(expand_locals(cv.node, node, depth=4), mode="eval").body
            except SyntaxError:
                pass
        t = ast.unparse(node).replace('"', "'")
        if isinstance(node, ast.Call) and ast.unparse(node.func).split(".")[-1] == "_is_base_n" and len(node.args) == 2 \
                and ast.unparse(node.args[0]) in texts:
            return "A", True
        if t in ("sym.orig_type == HEX", "sym.orig_type is HEX", "sym.orig_type != INT", "sym.orig_type is not INT"):
            return "H", True
        if t in ("sym.orig_type == INT", "sym.orig_type is INT", "sym.orig_type != HEX", "sym.orig_type is not HEX"):
            return "H", False
        if t in ("sym.orig_type == FLOAT", "sym.orig_type is FLOAT"):
            return "F", True
        if t in ("sym.orig_type not in (INT, HEX, FLOAT)", "sym.orig_type not in (INT, HEX, FLOAT)".replace("(", "[").replace(")", "]")):
            return "O", True
        if t == "sym.orig_type in (INT, HEX, FLOAT)":
            return "O", False
        if isinstance(node, ast.Compare) and len(node.ops) == 1 and isinstance(node.left, ast.Call) and ast.unparse(node.left.func) == "int" \
                and node.left.args and ast.unparse(node.left.args[0]) in texts and ast.unparse(node.comparators[0]) == "0":
            if isinstance(node.ops[0], ast.Lt):
                return "N", True
            if isinstance(node.ops[0], ast.GtE):
                return "N", False
        for x in texts:
            if t in (f"{x}[0] in '+-'", f"{x}[0] in '-+'", f"{x}[:1] in '+-'", f"{x}.startswith(('+', '-'))", f"{x}.startswith(('-', '+'))", f"{x}.strip()[0] in '+-'"):
                return "G", True
        key = t
        free.setdefault(key, f"X{len(free)}")
        return free[key], True

    def ev(node, v):
        if isinstance(node, ast.BoolOp):
            return all(ev(x, v) for x in node.values) if isinstance(node.op, ast.And) else any(ev(x, v) for x in node.values)
        if isinstance(node, ast.UnaryOp) and isinstance(node.op, ast.Not):
            return not ev(node.operand, v)
        a_, pos = leaf(node)
        return v[a_] if pos else not v[a_]

    def collect(node):
        if isinstance(node, ast.BoolOp):
            for x in node.values:
                collect(x)
        elif isinstance(node, ast.UnaryOp) and isinstance(node.op, ast.Not):
            collect(node.operand)
        else:
            leaf(node)

    def on_stmt(st, p: Path, loops):
        if isinstance(st, ast.Return):
            p.events.append(("RETURN", st.lineno, st))
    paths = Enumerator(on_stmt, max_iter=1).run(cv.node.body, Path())
    in_try = {id(x) for t in ast.walk(cv.node) if isinstance(t, ast.Try) for b in t.body for x in ast.walk(b)}
    accepting = [(p, [(node, pol) for c, pol, ln, node in p.conds]) for p, status in paths if status == RET]

    def ret_of(p):
        evs = [e for e in p.events if e[0] == "RETURN"]
        return evs[-1][2] if evs else None
    decided = []
    for p, conds in accepting:
        r = ret_of(p)
        if r is None:
            raise AnalysisError("check_valid: a returning path without its return statement")
        v0 = r.value.elts[0] if isinstance(r.value, ast.Tuple) and r.value.elts else r.value
        if not (isinstance(v0, ast.Constant) and isinstance(v0.value, bool)):
            raise AnalysisError(f"check_valid: `return {ast.unparse(r.value)[:40]}` does not start with a boolean constant")
        decided.append((v0.value, conds, r))
    for _, conds, _ in decided:
        for node, pol in conds:
            collect(node)
    atoms = ["A", "H", "N", "G", "F", "O"] + sorted(set(free.values()))
    if len(atoms) > 16:
        raise AnalysisError(f"check_valid: {len(atoms)} atoms")
    uses_try_int = any(isinstance(x, ast.Call) and ast.unparse(x.func) == "int" and id(x) in in_try and x.args and ast.unparse(x.args[0]) in texts for x in ast.walk(cv.node))
    bad = {"INT form: base-10 integer": None, "HEX form: base-16 integer": None, "HEX non-negative": None, "HEX unsigned (applied behind 0x)": None}
    n_acc = 0
    for accepts, conds, r in decided:
        if not accepts:
            continue
        for bits in _it.product((True, False), repeat=len(atoms)):
            v = dict(zip(atoms, bits))
            if v["F"] or v["O"]:
                continue  # float / non-numeric part
            if not all(ev(node, v) == pol for node, pol in conds):
                continue
            n_acc += 1
            if not v["A"]:
                bad["HEX form: base-16 integer" if v["H"] else "INT form: base-10 integer"] = bad["HEX form: base-16 integer" if v["H"] else "INT form: base-10 integer"] or r
            if v["H"] and v["N"] and hex_nonneg:
                bad["HEX non-negative"] = bad["HEX non-negative"] or r
            if v["H"] and v["G"]:
                bad["HEX unsigned (applied behind 0x)"] = bad["HEX unsigned (applied behind 0x)"] or r
    if not n_acc:
        raise AnalysisError("check_valid: no accepting path for an int / hex text")
    for label, r in bad.items():
        construct = f"check_valid/{label}"
        if r is None:
            ctx.ok(construct, cv.loc())
        else:
            ctx.bad(construct, f"a path to `return {ast.unparse(r.value)[:30]}` (line {r.lineno}) accepts a text without " +
                    ("the setter's form predicate _is_base_n() having passed" + (" (the acceptance is decided by int() succeeding, which also takes `1_0` and `+5`)" if uses_try_int else "")
                     if "form" in label else "excluding a negative number" if "negative" in label else "excluding a sign") +
                    ": the dialog accepts a value that set_value() then rejects, and the option keeps its old value", cv.loc(r))
    construct = "check_valid/FLOAT form: finite float"
    fl_ok = "is_float(value)" in vsrc and any(isinstance(x, ast.Call) and ast.unparse(x.func).split(".")[-1] == "is_float" and x.args and ast.unparse(x.args[0]) in texts
                                               for x in ast.walk(cv.node))
    (ctx.ok(construct, cv.loc()) if fl_ok else ctx.bad(construct, "Symbol.value_is_valid requires is_float() for FLOAT but the input validator does not test the text with it", cv.loc()))


def r17_4(ctx):
    """R17.4 range test siblings: check_valid and range_info use the evaluator's rule `the first range whose condition holds`
    - the arm taken under expr_value(cond) ends the search (break/return) - and compare against both bounds."""
    repo = ctx.repo
    funcs = [f for m in (FMT, MODEL, "kconfserver.core") for f in repo.funcs_in(m)] + [repo.func(f"{CORE}:Symbol.str_value")]
    n_loops = 0
    for f in funcs:
        loops = [n for n in ast.walk(f.node) if isinstance(n, ast.For) and ast.unparse(n.iter).endswith(".ranges") and repo.enclosing_func(n) is f]
        if not loops:
            continue
        ctx.analysed(f.qual)
        for i, lp in enumerate(loops):
            tv = [t.id for t in lp.target.elts] if isinstance(lp.target, ast.Tuple) and all(isinstance(t, ast.Name) for t in lp.target.elts) else []
            if len(tv) != 3 or not any(isinstance(x, ast.Call) and ast.unparse(x.func).endswith("expr_value") and x.args and ast.unparse(x.args[0]) == tv[2]
                                       for x in ast.walk(lp)):
                continue
            n_loops += 1
            construct = f"{f.short}/range loop #{i + 1}: first active range decides"
            # every way to go on with the next range is a way on which this range's condition was false
            flb = Flow(f.node, resolver=Resolver(f.node), body=lp.body).run()
            goes_on = []
            for kind, node, stt in flb.exits:
                if kind not in ("fallthrough", "continue"):
                    continue
                g = {(x[1], x[2]) for x in stt if x[0] == "g"}
                if not any(k.endswith(f"expr_value({ast.unparse(lp.iter)}[*][2])") and not pol or (k.endswith(f"expr_value({tv[2]})") and not pol) for k, pol in g):
                    goes_on.append(sorted(g)[:3])
            if not goes_on:
                ctx.ok(construct, f.loc(lp))
            else:
                ctx.bad(construct, "the search continues after an active range: the *last* active range is used, while the value is evaluated "
                        "against the first - an accepted input can be ignored as out of range", f.loc(lp))
    if n_loops < 6:
        raise AnalysisError(f"only {n_loops} active-range searches found")
    # the validator must look at the active range at all
    cv = repo.func(f"{FMT}:check_valid")
    cg = CallGraph(repo)
    reach = cg.reachable([cv.qual])
    construct = "check_valid/consults the active range"
    ok = any(any(isinstance(n, ast.For) and ast.unparse(n.iter).endswith(".ranges") for n in ast.walk(repo.funcs[q].node)) for q in reach)
    (ctx.ok(construct, cv.loc(), nontrivial=False) if ok else ctx.bad(construct, "the validator no longer checks the range", cv.loc()))


def r17_6(ctx):
    """R17.6 (a) change_node answers anything but NO_CHANGE only after changeable(node) held (the warning dialog leads to
    force_change_node, which toggles without the gate); (b) the choice-entry helper looks for the selected member's node
    that is actually displayed (a member can have several nodes); (c) the float validator uses the setter's finiteness
    test."""
    repo = ctx.repo
    f = repo.func(f"{MODEL}:MenuConfigState.change_node")
    ctx.analysed(f.qual)
    fl = Flow(f.node).run()
    rets = [n for n in ast.walk(f.node) if isinstance(n, ast.Return) and n.value is not None and ast.unparse(n.value) != "ChangeResult.NO_CHANGE"]
    construct = "MenuConfigState.change_node/every actionable answer is given after changeable(node)"
    bad = [r for r in rets if ("self.changeable(node)", True) not in (fl.guards_at(r) or set())]
    (ctx.bad(construct, f"`{ast.unparse(bad[0])}` is reachable without changeable(node): a locked or hidden row with a `warning` reaches force_change_node and "
             "_perform_toggle on an option with no assignable value", f.loc(bad[0])) if bad or not rets else ctx.ok(construct, f.loc(rets[0]), returns=len(rets)))
    s = repo.func(f"{MODEL}:MenuConfigState._select_selected_choice_sym")
    ctx.analysed(s.qual)
    idx = [n for n in ast.walk(s.node) if isinstance(n, ast.Call) and isinstance(n.func, ast.Attribute) and n.func.attr == "index"]
    construct = "MenuConfigState._select_selected_choice_sym/searches all nodes of the selected member"
    ok = bool(idx) and not any(isinstance(x, ast.Subscript) and ast.unparse(x.value).endswith(".nodes") for i in idx for x in ast.walk(i.args[0]))
    (ctx.ok(construct, s.loc(idx[0]) if idx else s.loc()) if ok else
     ctx.bad(construct, "only nodes[0] of the selected member is looked up in the displayed list: for a choice defined in several places the member's displayed node "
             "is another one and index() raises ValueError", s.loc(idx[0]) if idx else s.loc()))
    cv = repo.func(f"{FMT}:check_valid")
    fl2 = Flow(cv.node).run()
    fl_conv = [n for n in ast.walk(cv.node) if isinstance(n, ast.Call) and isinstance(n.func, ast.Name) and n.func.id == "float" and ast.unparse(n.args[0]) == cv.node.args.args[1].arg]
    construct = "check_valid/float input accepted only if is_float() (finite), like set_value"
    ok = bool(fl_conv) and all(any(k.startswith("is_float(") and p for k, p in (fl2.guards_at(c) or set())) for c in fl_conv)
    (ctx.ok(construct, cv.loc(fl_conv[0]) if fl_conv else cv.loc()) if ok else
     ctx.bad(construct, "the dialog parses the text with float() without the finiteness test of is_float(): inf/nan are accepted by the validator and ignored by set_value",
             cv.loc(fl_conv[0]) if fl_conv else cv.loc()))


def r17_7(ctx):
    """R17.7 (a) a menu is entered only if it has entries: wherever the model steps to `node.list` and then looks that node
    up in the shown rows, the step is guarded by `node.list` being non-empty (an empty menu gives `None`, which is in no
    list: ValueError); (b) changeable() answers true only for a node whose own prompt is active - every non-False return
    is dominated by `node.prompt and expr_value(node.prompt[1])` (a dimmed row in show-all mode must not open the input
    dialog: the typed value would be stored on an option that does not accept one); (c) the input filter of the dialog
    knows both hex prefixes (C06 R06.10c), like the validator that accepted the text."""
    from ..flow import decompose
    from .common import expand_locals, hex_prefix_both_cases
    repo = ctx.repo
    f = repo.func("esp_menuconfig.model:MenuConfigState.jump_to")
    ctx.analysed(f.qual)
    fl = Flow(f.node, resolver=Resolver(f.node)).run()
    steps = [n for n in ast.walk(f.node) if isinstance(n, ast.Assign) and isinstance(n.targets[0], ast.Name) and ast.unparse(n.value) == f"{n.targets[0].id}.list"]
    if not steps:
        raise AnchorError("jump_to: no step into node.list")
    for i, n in enumerate(steps):
        v = n.targets[0].id
        construct = f"MenuConfigState.jump_to/step into `{v}.list` #{i + 1} only for a node that has entries"
        atoms = set()
        for k, pol in (fl.guards_at(n) or set()):
            try:
                e = ast.parse(expand_locals(f.node, ast.parse(k, mode="eval").body), mode="eval").body
            except SyntaxError:
                continue
            for a, p in decompose(e, pol):
                atoms.add((ast.unparse(a), p))
        (ctx.ok(construct, f.loc(n)) if (f"{v}.list", True) in atoms else
         ctx.bad(construct, f"`{v} = {v}.list` runs under {sorted(atoms)}: for a menu or choice without entries `{v}` becomes None and the "
                 "following `.index()` on the shown rows raises ValueError", f.loc(n)))
    c = repo.func("esp_menuconfig.model:MenuConfigState.changeable")
    ctx.analysed(c.qual)
    flc = Flow(c.node, resolver=Resolver(c.node)).run()
    k = 0
    for r in ast.walk(c.node):
        if not isinstance(r, ast.Return) or (isinstance(r.value, ast.Constant) and r.value.value is False):
            continue
        k += 1
        construct = f"MenuConfigState.changeable/return #{k} only for a node whose own prompt is active"
        gs = flc.guards_at(r) or set()
        ok = ("node.prompt", True) in gs and ("expr_value(node.prompt[1])", True) in gs or ("node.prompt and expr_value(node.prompt[1])", True) in gs
        (ctx.ok(construct, c.loc(r)) if ok else
         ctx.bad(construct, f"`{ast.unparse(r)[:60]}` is reached without the prompt of this node being active (guards: {sorted(gs)}): an invisible "
                 "option shown dimmed in show-all mode is reported changeable", c.loc(r)))
    hex_prefix_both_cases(ctx, [m for m in ("esp_menuconfig.app", "esp_menuconfig.model", "esp_menuconfig.formatting") if m in repo.modules])
    # (d) the validator itself cannot raise on the tree's data; (e) a signed hex text is refused
    from .common import checked_conversions
    checked_conversions(ctx, [f"{FMT}:check_valid"], validated_params=("s",))
    cv = repo.func(f"{FMT}:check_valid")
    construct = "check_valid/HEX: a sign is refused (the text is applied as `0x` + text)"
    signs = [n for n in ast.walk(cv.node) if isinstance(n, (ast.Compare, ast.Call)) and
             {"+", "-"} <= {ch for c in ast.walk(n) if isinstance(c, ast.Constant) and isinstance(c.value, str) for ch in c.value}]
    prefixed = [n for n in ast.walk(cv.node) if isinstance(n, ast.Call) and isinstance(n.func, ast.Name) and n.func.id == "int" and n.args
                and any(isinstance(c, ast.Constant) and c.value in ("0x", "0X") for c in ast.walk(n.args[0]))]
    (ctx.ok(construct, cv.loc((signs or prefixed)[0])) if signs or prefixed else
     ctx.bad(construct, "`-0`, `+ff`, `-0x0` parse as non-negative numbers and pass the validator, but Symbol.set_value() rejects `0x-0` / `0x+ff`: "
             "the dialog closes and the option keeps its old value", cv.loc()))


def r17_8(ctx):
    """R17.8 reset followed by load does not raise: `_user_value` is None again after unset_value() / a reset to the
    default, while `_was_set` survives; wherever the library uses a user value as something None cannot be (a key of the
    bool<->str tables, an argument of int()/float()/min()/max()) a presence test dominates the use, in the function or at
    every call site of a helper (menuconfig: change, reset, Load [O] reaches Kconfig._assigned_twice through a merging
    load); the Load action itself reports both kinds of failure load_config() has (OS error, KconfigError)."""
    from .common import optional_field_guarded
    optional_field_guarded(ctx, ["esp_kconfiglib.core", "esp_kconfiglib.report", "esp_menuconfig.model", "esp_menuconfig.formatting",
                                 "esp_menuconfig.app", "kconfserver.core"])
    # the Load action reports what load_config() can raise on a user-chosen file: OS errors and KconfigError (undecodable file)
    tl = ctx.repo.func(f"{MODEL}:MenuConfigState.try_load")
    ctx.analysed(tl.qual)
    calls = [n for n in ast.walk(tl.node) if isinstance(n, ast.Call) and ast.unparse(n.func).endswith(".load_config")]
    construct = "MenuConfigState.try_load/load_config() failures are reported, not raised"
    covered = set()
    for c in calls:
        p = ctx.repo.parent(c)
        while p is not None and p is not tl.node:
            if isinstance(p, ast.Try) and any(c is x for b in p.body for x in ast.walk(b)):
                for h in p.handlers:
                    if h.type is None:
                        covered |= {"OSError", "KconfigError"}
                    else:
                        for t in (h.type.elts if isinstance(h.type, ast.Tuple) else [h.type]):
                            nm = ast.unparse(t).split(".")[-1]
                            covered |= {"OSError"} if nm in ("EnvironmentError", "OSError", "IOError") else {"OSError", "KconfigError"} if nm in ("Exception", "BaseException") else {nm}
            p = ctx.repo.parent(p)
    missing = sorted({"OSError", "KconfigError"} - covered)
    (ctx.bad(construct, f"{missing} raised by load_config() on the chosen file (missing file / a file that is not valid UTF-8) escapes into the application",
             tl.loc(calls[0]) if calls else tl.loc()) if missing or not calls else ctx.ok(construct, tl.loc(calls[0])))


def r17_9(ctx):
    """R17.9 the displayed rows follow every change: (a) MenuConfigState._set_val() re-lists the menu after every successful
    set_value(), whatever the changed item is connected to (comments and menus depend on options without appearing in
    `_dependents`); (b) after a load the application switches show-all on exactly when the highlighted row is no longer
    among the rows shown for the current menu - the premise under which `_update_menu()` may call .index() unguarded."""
    repo = ctx.repo
    f = repo.func(f"{MODEL}:MenuConfigState._set_val")
    ctx.analysed(f.qual)
    fl = Flow(f.node, resolver=Resolver(f.node)).run()
    ups = [n for n in ast.walk(f.node) if isinstance(n, ast.Call) and ast.unparse(n.func) == "self._update_menu"]
    construct = "MenuConfigState._set_val/the menu is re-listed after every applied change"
    if not ups:
        ctx.bad(construct, "_update_menu() is no longer called", f.loc())
    else:
        extra = sorted(k for k, pol in (fl.guards_at(ups[0]) or set()) if "_dependents" in k or "referenced" in k)
        (ctx.bad(construct, f"re-listing depends on {extra}: a comment or menu that depends on the changed option stays in (or out of) the displayed list",
                 f.loc(ups[0])) if extra else ctx.ok(construct, f.loc(ups[0])))
    h = repo.func(f"{APP}:MenuConfigApp._handle_load_result")
    ctx.analysed(h.qual)
    construct = "MenuConfigApp._handle_load_result/show-all fallback when the highlighted row vanished"
    tests = [n for n in ast.walk(h.node) if isinstance(n, ast.If) and any(isinstance(c, ast.Compare) and len(c.ops) == 1 and isinstance(c.ops[0], ast.NotIn)
             and "selected_node" in ast.unparse(c.left) and "shown_nodes(" in ast.unparse(c.comparators[0]) for c in ast.walk(n.test))]
    ok = bool(tests) and any(isinstance(a, ast.Assign) and ast.unparse(a.targets[0]).endswith(".show_all") and ast.unparse(a.value) == "True" for a in ast.walk(tests[0]))
    (ctx.ok(construct, h.loc(tests[0])) if ok else
     ctx.bad(construct, "the membership test of the highlighted row is gone: a load that hides that row (while siblings stay visible) makes _update_menu() raise ValueError",
             h.loc()))

def r17_10(ctx):
    """R17.10 the dialog validates against the range the evaluator uses - the first range whose condition holds: the range
    searches of formatting.check_valid() and range_info() stop at the first active entry."""
    from .common import first_match_loops
    n = first_match_loops(ctx, [f"{FMT}:check_valid", f"{FMT}:range_info"], "the dialog accepts / shows another range than the one the evaluator clamps to")
    if n < 3:
        raise AnalysisError(f"only {n} range searches found in formatting")


def subtree_walk(ctx, qual: str, start_param: str, parts=("scope", "none")):
    """A walk that is meant to cover exactly the subtree of `start_param` (the node, everything below `.list`, and the
    `.next` chains of the nodes *below* it): (scope) every step to a `.next` is taken only for nodes other than the start
    node - or the walker is only ever started on the start node's `.list`, never on the start node itself; (none) every step
    hands the walker a node: `walker(x.list)` / `walker(x.next)` is guarded by the truthiness of that link unless the walker
    itself begins by testing its argument (`while node:` / `if not node: return`)."""
    repo = ctx.repo
    f = repo.func(qual)
    ctx.analysed(qual)
    walkers = {n.name: n for n in ast.walk(f.node) if isinstance(n, ast.FunctionDef) and n is not f.node}
    walkers[f.node.name] = f.node
    steps = []   # (holder fn, node, kind, link text, callee or None)
    entry_args = []
    for wname, w in walkers.items():
        res = Resolver(w)
        fl = Flow(w, resolver=res).run()
        for n in ast.walk(w):
            if repo.enclosing_func(n) is not None and repo.enclosing_func(n).node is not w:
                continue
            if isinstance(n, ast.Call) and isinstance(n.func, ast.Name) and n.func.id in walkers and n.func.id != f.node.name and n.args:
                a = n.args[0]
                link = a.attr if isinstance(a, ast.Attribute) else None
                if w is f.node:
                    entry_args.append((n, ast.unparse(a)))
                if link in ("next", "list"):
                    steps.append((w, fl, res, n, link, ast.unparse(a), walkers[n.func.id]))
            elif isinstance(n, ast.Assign) and len(n.targets) == 1 and isinstance(n.targets[0], ast.Name) and isinstance(n.value, ast.Attribute) \
                    and n.value.attr in ("next", "list") and isinstance(n.value.value, ast.Name) and n.value.value.id == n.targets[0].id:
                steps.append((w, fl, res, n, n.value.attr, ast.unparse(n.value), None))
    if not steps:
        raise AnalysisError(f"{f.short}: no steps along .list / .next found")

    def tolerant(w: ast.FunctionDef) -> bool:
        prm = [a.arg for a in w.args.args if a.arg != "self"]
        body = [s_ for s_ in w.body if not (isinstance(s_, ast.Expr) and isinstance(s_.value, ast.Constant))]
        if not prm or not body:
            return False
        for s_ in body:
            if isinstance(s_, ast.While) and ast.unparse(s_.test) == prm[0]:
                return True
            if isinstance(s_, ast.If) and ast.unparse(s_.test) in (f"not {prm[0]}", f"{prm[0]} is None") and isinstance(s_.body[-1], ast.Return):
                return True
            if any(isinstance(x, ast.Name) and x.id == prm[0] for x in ast.walk(s_)):
                return False
        return False

    started_below = bool(entry_args) and all(t.endswith(".list") for _, t in entry_args)
    for w, fl, res, n, link, text, callee in steps:
        gs = fl.guards_at(n) or set()
        if "scope" in parts and link == "next":
            construct = f"{f.short}/step to `{text}` stays inside the subtree of {start_param}"
            away = any(start_param in k and ((" == " in k or " is " in k) and not pol or (" != " in k or " is not " in k) and pol) for k, pol in gs)
            if away or (started_below and w is not f.node):
                ctx.ok(construct, f.loc(n))
            else:
                ctx.bad(construct, f"the sibling chain is followed from every node, the start node included (guards {sorted(gs)}): the action also "
                        f"reaches the entries that follow {start_param} in its parent", f.loc(n))
        if "none" in parts and callee is not None:
            construct = f"{f.short}/`{ast.unparse(n)[:40]}` hands the walker a node"
            rt = res.text(n.args[0])
            ok = any(k in (text, rt) and pol for k, pol in gs) or any(k in (f"{text} is None", f"{rt} is None") and not pol for k, pol in gs) or tolerant(callee)
            (ctx.ok(construct, f.loc(n)) if ok else
             ctx.bad(construct, f"`{text}` is None for a node without {'children' if link == 'list' else 'a next sibling'} and the walker dereferences its "
                     "argument at once: AttributeError", f.loc(n)))
    return len(steps)


def r17_11(ctx):
    """R17.11 `reset to defaults` of a menu touches exactly that menu: the tree walk behind restore_defaults_recursive()
    (_recursively_perform_action) follows `.next` only below the start node, and never hands its walker a missing link."""
    n = subtree_walk(ctx, f"{CORE}:_recursively_perform_action", "start_node")
    if n < 2:
        raise AnalysisError("steps of _recursively_perform_action not found")


def r17_12(ctx):
    """R17.12 a menu lists its own rows: when the entries of a choice that is defined in several places are merged, shown_nodes() may drop
    a row only because the same option was already listed - never a row of the definition that is being shown (`choice_node is
    menu`). The rows of the current menu are what enter/leave/select index into; a row that belongs to another definition has
    another parent and another position."""
    from .common import _bool_leaves, facts_vs_formula, parse_key
    repo = ctx.repo
    f = repo.func(f"{MODEL}:MenuConfigState.shown_nodes")
    ctx.analysed(f.qual)
    fl = Flow(f.node, resolver=Resolver(f.node)).run()
    apps = [n for n in ast.walk(f.node) if isinstance(n, ast.Call) and ast.unparse(n.func) == "res.append" and repo.enclosing_func(n) is f]
    apps = [n for n in apps if any("Choice" in k and p for k, p in (fl.guards_at(n) or set()))]
    if not apps:
        raise AnchorError("shown_nodes: the merge of a multiply defined choice was not found")
    for i, a in enumerate(apps):
        construct = f"MenuConfigState.shown_nodes/rows of the shown definition are never dropped by the duplicate filter (#{i + 1})"
        gs = fl.guards_at(a) or set()
        rel = {(k, p) for k, p in gs if "seen" in k}
        leaves = set()
        for k, _ in rel:
            _bool_leaves(parse_key(k), leaves)
        own = [x for x in leaves if x.endswith(" is menu")]
        formula = own[0] if own else "OWN_DEFINITION_"
        _, not_implied = facts_vs_formula(rel, formula)
        (ctx.bad(construct, f"a row is listed only under {sorted(not_implied)}, also when it belongs to the definition being shown: the menu then shows another "
                 "definition's node for that option", f.loc(a)) if not_implied else ctx.ok(construct, f.loc(a)))


def r17_13(ctx):
    """R17.13 what is listed is what is visible *now*: MenuConfigState._visible() computes its answer from the node and the current
    values on every call; it neither reads nor writes remembered answers on the instance (a memo that is cleared in one refresh
    path is stale in another: a row that a load just hid is still listed, and the next index lookup raises ValueError)."""
    repo = ctx.repo
    f = repo.func(f"{MODEL}:MenuConfigState._visible")
    ctx.analysed(f.qual)
    construct = "MenuConfigState._visible/computed from the node and current values, no remembered answers"
    attrs = sorted({n.attr for n in ast.walk(f.node) if isinstance(n, ast.Attribute) and isinstance(n.value, ast.Name) and n.value.id == "self"} - {"show_all", "kconf"})
    stores = [n for n in ast.walk(f.node) if isinstance(n, (ast.Subscript, ast.Attribute)) and isinstance(n.ctx, ast.Store) and "self." in ast.unparse(n)]
    (ctx.bad(construct, f"_visible() uses instance state {attrs}{' and writes ' + ast.unparse(stores[0]) if stores else ''}: its answer can be older than the "
             "configuration", f.loc(stores[0] if stores else f.node)) if attrs or stores else ctx.ok(construct, f.loc()))


def r17_14(ctx):
    """R17.14 the y/n keys act through the highlighted row: set_sel_node_bool_val() applies a value only when the row itself is
    changeable (changeable(row), or the row's own prompt condition) - `assignable` alone speaks for the option, and an option
    defined in several places can be assignable although this row's prompt is off (the row is displayed for its children, or
    in show-all mode). The edit can then remove the row and _update_menu() raises ValueError (fixed defect 5.53)."""
    repo = ctx.repo
    sb = repo.func(f"{MODEL}:MenuConfigState.set_sel_node_bool_val")
    ctx.analysed(sb.qual)
    res = Resolver(sb.node)
    fl = Flow(sb.node, resolver=res).run()
    sv = [n for n in ast.walk(sb.node) if isinstance(n, ast.Call) and ast.unparse(n.func) in ("self._set_val", "self.set_val")]
    if not sv:
        raise AnchorError("set_sel_node_bool_val: no _set_val call")
    construct = "MenuConfigState.set_sel_node_bool_val/the highlighted row itself must be changeable"
    for c in sv:
        gs = fl.guards_at(c) or set()
        row = ["self.shown[self.sel_node_i]", "self.selected_node"]
        row += [ast.unparse(a.targets[0]) for a in ast.walk(sb.node) if isinstance(a, ast.Assign) and len(a.targets) == 1 and isinstance(a.targets[0], ast.Name)
                and ast.unparse(a.value) in row[:2] and res.bind_count.get(a.targets[0].id) == 1]
        ok = any(p and ((k.startswith("self.changeable(") and any(k == f"self.changeable({r})" for r in row)) or
                        (k.startswith("expr_value(") and any(f"{r}.prompt[1]" in k for r in row)) or
                        (k.startswith("self._visible(") and any(k == f"self._visible({r})" for r in row))) for k, p in gs)
        (ctx.ok(construct, sb.loc(c)) if ok else
         ctx.bad(construct, f"the value is applied under {sorted(k for k, p in gs if p)[:3]} only: a row whose own prompt is off (second definition of an option, shown for its "
                 "children) passes, the edit removes the row and _update_menu() raises ValueError", sb.loc(c)))


def r17_15(ctx):
    """R17.15 the displayed list is rebuilt after the start-up load: menuconfig() creates the state (whose constructor fills
    `shown`) and then loads the configuration file, which changes what is visible - every path from that load to the point
    where the state is handed to the application passes an assignment `state.shown = state.shown_nodes(...)` (or the load
    method rebuilds the list itself). A stale list keeps a row the file has hidden; the first reset on it makes
    _update_menu() raise ValueError (fixed defect 5.54)."""
    repo = ctx.repo
    f = repo.func("esp_menuconfig:menuconfig")
    ctx.analysed(f.qual)
    simple = (ast.If, ast.For, ast.While, ast.With, ast.Try)

    def is_load(n):
        return isinstance(n, ast.Call) and isinstance(n.func, ast.Attribute) and n.func.attr in ("load_config", "try_load", "reload_sdkconfig_file")

    def is_refresh(st):
        return (isinstance(st, ast.Assign) and any(ast.unparse(t).endswith(".shown") for t in st.targets)
                and any(isinstance(c, ast.Call) and ast.unparse(c.func).endswith(".shown_nodes") for c in ast.walk(st.value)))

    fl1 = Flow(f.node, events=lambda n: ["LOAD"] if not isinstance(n, simple) and any(is_load(c) for c in ast.walk(n)) else [], track_guards=False).run()
    loads = [n for n in ast.walk(f.node) if is_load(n) and repo.enclosing_func(n) is f]
    if not loads:
        raise AnchorError("menuconfig(): the start-up load was not found")
    # a load method of the model that rebuilds the list itself counts as load + refresh
    self_refreshing = False
    lm = repo.func(f"{MODEL}:MenuConfigState.load_config")
    ctx.analysed(lm.qual)
    k_loads = [n for n in ast.walk(lm.node) if isinstance(n, ast.Call) and ast.unparse(n.func) == "self.kconf.load_config"]
    if k_loads:
        lfl = Flow(lm.node, events=lambda n: (["KLOAD"] if not isinstance(n, simple) and any(c in k_loads for c in ast.walk(n)) else []), track_guards=False).run()
        lfl2 = Flow(lm.node, events=lambda n: (["REFRESH"] if not isinstance(n, simple) and (is_refresh(n) or any(
            isinstance(c, ast.Call) and ast.unparse(c.func) == "self._update_menu" for c in ast.walk(n))) and "KLOAD" in (lfl.events_at(n) or set()) else []),
            track_guards=False).run()
        self_refreshing = all(("ev", "REFRESH") in st for kind, node, st in lfl2.exits if kind != "raise")

    def ev2(n):
        if isinstance(n, simple):
            return []
        if is_refresh(n) and "LOAD" in (fl1.events_at(n) or set()):
            return ["REFRESH"]
        if self_refreshing and any(is_load(c) and c.func.attr == "load_config" and ast.unparse(c.func.value) != "kconf" for c in ast.walk(n)):
            return ["REFRESH"]
        return []
    fl2 = Flow(f.node, events=ev2, track_guards=False).run()
    uses = [n for n in ast.walk(f.node) if repo.enclosing_func(n) is f and (
        (isinstance(n, ast.Call) and ast.unparse(n.func).endswith("MenuConfigApp")) or
        (isinstance(n, ast.Assign) and ast.unparse(n.targets[0]) == "_module_state"))]
    if not uses:
        raise AnchorError("menuconfig(): the hand-over of the state (MenuConfigApp(state) / _module_state) was not found")
    for u in uses:
        st = repo.enclosing_stmt(u)
        what = "MenuConfigApp(state)" if isinstance(u, ast.Call) else "_module_state = state"
        construct = f"menuconfig/the list is rebuilt between the start-up load and {what}"
        ok = "REFRESH" in (fl2.events_at(st) or set())
        (ctx.ok(construct, f.loc(st)) if ok else
         ctx.bad(construct, "the state is used with the list computed before the configuration file was loaded: a row the file hides stays displayed and the "
                 "first reset / edit on it raises ValueError in _update_menu()", f.loc(st)))


def r17_16(ctx):
    """R17.16 the dialog's `accepted` is the setter's `stored`: (a) Symbol.set_value() converts `y` / `n` to 2 / 0 for bool options
    only and refuses a value for its form only (C16 R16.13) - check_valid() accepts every text for a string option; (b) every
    handler of the application that reacts to a key or a list event brings the model's highlighted row up to date
    (`_sync_sel_node_i()`) before it calls a model method that reads `sel_node_i`: the list widget moves its cursor without
    telling the model, and restore_default() / _update_menu() on a stale row raise ValueError once the edit hides that row."""
    from . import c16
    from .common import delegate
    delegate(ctx, c16.r16_13, lambda c: True)
    repo = ctx.repo
    # model methods that read the highlighted row, directly or through other methods of the model
    meths = repo.methods(f"{MODEL}:MenuConfigState")
    reads = {m for m, fn in meths.items() if any(isinstance(x, ast.Attribute) and x.attr == "sel_node_i" and isinstance(x.ctx, ast.Load) and ast.unparse(x.value) == "self"
                                                 for x in ast.walk(fn.node))}
    changed = True
    while changed:
        changed = False
        for m, fn in meths.items():
            if m in reads:
                continue
            if any(isinstance(x, ast.Attribute) and ast.unparse(x.value) == "self" and x.attr in reads for x in ast.walk(fn.node)):
                reads.add(m)
                changed = True
    if "_update_menu" not in reads or "restore_default" not in reads:
        raise AnalysisError(f"model methods reading sel_node_i: {sorted(reads)}")
    n = 0
    for name, fn in repo.methods(f"{APP}:MenuConfigApp").items():
        if not (name.startswith("action_") or name.startswith("_on_") or name.startswith("on_")):
            continue
        uses = [x for x in ast.walk(fn.node) if isinstance(x, ast.Attribute) and ast.unparse(x.value) == "self.state" and x.attr in (reads | {"sel_node_i"})
                and isinstance(x.ctx, ast.Load) and repo.enclosing_func(x) is fn]
        if not uses:
            continue
        ctx.analysed(fn.qual)
        simple = (ast.If, ast.For, ast.While, ast.With, ast.Try)
        fl = Flow(fn.node, events=lambda s_: ["SYNC"] if not isinstance(s_, simple) and any(
            isinstance(c, ast.Call) and ast.unparse(c.func) == "self._sync_sel_node_i" for c in ast.walk(s_)) else [], track_guards=False).run()
        for u in uses:
            n += 1
            construct = f"{fn.short}/`self.state.{u.attr}` after the highlighted row was brought up to date"
            st = repo.enclosing_stmt(u)
            (ctx.ok(construct, fn.loc(u)) if "SYNC" in (fl.events_at(st) or set()) else
             ctx.bad(construct, "the model still names the row that was highlighted at the last refresh: the action is applied to (or re-locates) a stale row - ValueError in "
                     "_update_menu() when the edit hides it", fn.loc(u)))
    if n < 4:
        raise AnalysisError(f"only {n} uses of the highlighted row in application handlers")


def r17_17(ctx):
    """R17.17 typed text cannot make the session raise: (a) search_nodes() compiles the jump-to text as a regular expression inside a
    handler that covers what re.compile raises for it - re.error, but also OverflowError (`a{99999999999}`) and RecursionError
    (thousands of nested groups) (fixed defect 5.62); (b) after a load the displayed list is rebuilt whether or not the load
    succeeded - a file that fails half-way has applied its first lines, and a row they hide must not stay highlighted
    (fixed defect 5.63)."""
    repo = ctx.repo
    f = repo.func(f"{MODEL}:MenuConfigState.search_nodes")
    ctx.analysed(f.qual)
    comps = [n for n in ast.walk(f.node) if isinstance(n, ast.Call) and ast.unparse(n.func) in ("re.compile", "re.search", "re.match", "re.fullmatch", "re.findall")]
    if not comps:
        raise AnchorError("search_nodes: no regular expression is compiled")
    need = ("re.error", "OverflowError", "RecursionError")
    for c in comps:
        construct = f"MenuConfigState.search_nodes/`{ast.unparse(c)[:40]}` cannot raise out of the search"
        covered: Set[str] = set()
        p = repo.parent(c)
        child = c
        while p is not None and p is not f.node:
            if isinstance(p, ast.Try) and any(child is x or any(child is y for y in ast.walk(x)) for x in p.body):
                for h in p.handlers:
                    t = "" if h.type is None else ast.unparse(h.type)
                    if h.type is None or any(w in t for w in ("Exception", "BaseException")):
                        covered |= set(need)
                    covered |= {w for w in need if w in t}
                    if "ArithmeticError" in t:
                        covered.add("OverflowError")
                    if "RuntimeError" in t:
                        covered.add("RecursionError")
            child = p
            p = repo.parent(p)
        missing = [w for w in need if w not in covered]
        (ctx.bad(construct, f"{missing} is not caught: text typed into the jump-to dialog ends the session", f.loc(c)) if missing else ctx.ok(construct, f.loc(c)))
    g = repo.func(f"{APP}:MenuConfigApp._handle_load_result")
    ctx.analysed(g.qual)
    fl = Flow(g.node, resolver=Resolver(g.node)).run()
    upd = [n for n in ast.walk(g.node) if isinstance(n, ast.Call) and ast.unparse(n.func) in ("self.state._update_menu",)]
    loads = [n for n in ast.walk(g.node) if isinstance(n, ast.Call) and ast.unparse(n.func) == "self.state.try_load"]
    if not upd or not loads:
        raise AnchorError("_handle_load_result: try_load / _update_menu not found")
    res_names = set()
    st = repo.enclosing_stmt(loads[0])
    if isinstance(st, ast.Assign):
        res_names = {x.id for t in st.targets for x in ast.walk(t) if isinstance(x, ast.Name)}
    construct = "MenuConfigApp._handle_load_result/the list is rebuilt whatever try_load() answered"
    dep = sorted((k, p) for k, p in (fl.guards_at(upd[0]) or set()) if {x.id for x in ast.walk(_pk17(k)) if isinstance(x, ast.Name)} & res_names)
    (ctx.bad(construct, f"rebuilt only under {dep}: a load that fails after it applied some lines leaves rows displayed that those lines hide - ValueError on the next reset", g.loc(upd[0]))
     if dep else ctx.ok(construct, g.loc(upd[0])))


def _pk17(k: str) -> ast.AST:
    from .common import parse_key
    try:
        return parse_key(k)
    except Exception:
        return ast.Constant(None)


def r17_18(ctx):
    """R17.18 the menu a row is listed in is found for every nesting depth: MenuConfigState._parent_menu() climbs until the
    node is a menu (is_menuconfig) or the top - a loop (or recursion), not a single step. With one step a row two implicit
    submenus deep makes jump_to()/leave_menu() set cur_menu to a plain option: only a part of the real menu is shown."""
    repo = ctx.repo
    f = repo.func(f"{MODEL}:MenuConfigState._parent_menu")
    ctx.analysed(f.qual)
    construct = "MenuConfigState._parent_menu/climbs over every implicit-submenu parent"
    loops = [n for n in ast.walk(f.node) if isinstance(n, ast.While) and "is_menuconfig" in ast.unparse(n.test)]
    loops += [n for n in ast.walk(f.node) if isinstance(n, ast.While) and isinstance(n.test, ast.Constant) and "is_menuconfig" in ast.unparse(n)]
    rec = [n for n in ast.walk(f.node) if isinstance(n, ast.Call) and ast.unparse(n.func).split(".")[-1] == f.node.name]
    forl = [n for n in ast.walk(f.node) if isinstance(n, (ast.For, ast.GeneratorExp, ast.ListComp)) and "is_menuconfig" in ast.unparse(n)]
    mentions = "is_menuconfig" in ast.unparse(f.node)
    if not mentions:
        ctx.ok(construct, f.loc(), nontrivial=False, note="no is_menuconfig test here")
    elif loops or rec or forl:
        ctx.ok(construct, f.loc((loops or rec or forl)[0]))
    else:
        ctx.bad(construct, "the climb over non-menu parents is a single step: for a row nested two implicit submenus deep the result is a plain option, "
                "which jump_to()/leave_menu() then make the current menu", f.loc())


def rules():
    return [("R17.18", r17_18, 1), ("R17.17", r17_17, 2), ("R17.16", r17_16, 6), ("R17.15", r17_15, 2), ("R17.14", r17_14, 1), ("R17.13", r17_13, 1), ("R17.12", r17_12, 1), ("R17.11", r17_11, 2), ("R17.10", r17_10, 3), ("R17.9", r17_9, 2), ("R17.8", r17_8, 6), ("R17.7", r17_7, 5), ("R17.1", r17_1, 6), ("R17.5", r17_5, 4), ("R17.2", r17_2, 13), ("R17.3", r17_3, 4), ("R17.4", r17_4, 6), ("R17.6", r17_6, 3)]
