"""C03 - incremental re-evaluation equals evaluation from scratch.

Decided: the invalidation graph over-approximates what the evaluators read (R03.1), every write of an
evaluation input is followed by a recursive invalidation (R03.2), invalidation clears every cache
(R03.3), side results are read after the value that computes them (R03.4), and the traversal helpers
have the shape the argument relies on (R03.5)."""
from __future__ import annotations

import ast
from typing import Dict, List, Optional, Set, Tuple

from ..callgraph import CallGraph
from ..flow import Flow, Resolver
from ..paths import PathWalker, ReadSetAnalysis, path_text
from ..repo import AnchorError, Func

PROPERTY = "C03"
CORE = "esp_kconfiglib.core"
LEVEL_TEXT = (
    "Static analysis of esp_kconfiglib/core.py: access-path read sets of the Symbol/Choice evaluators are compared "
    "with the edges registered by Kconfig._build_dep/_add_choice_deps; every write of a user value / selection / "
    "rewritten defaults is checked (may-dataflow) to be followed by a recursive invalidation on all paths; cache "
    "slots vs _invalidate; cold reads of side results. Necessary conditions of C03, not the equality itself."
)

DYN_ATTRS = {"str_value", "bool_value", "visibility", "selection", "assignable"}
DYN_FUNCS = {"expr_value", "_sym_to_num"}

SYMBOL_EVALUATORS = ["str_value", "bool_value", "visibility", "assignable"]
CHOICE_EVALUATORS = ["bool_value", "visibility", "assignable", "selection", "str_value"]

# read components that need no registered edge, one line of reason each
EXEMPT_READS = {
    ("Symbol", "self.choice"): "the Choice is ANDed into every member's prompt/property conditions by "
    "_propagate_deps (basedep), so _build_dep registers it through nodes[*].prompt[1] (checked by C01 R01.4)",
    ("Choice", "self._user_selection"): "only ever a member symbol (single writer Symbol.set_value under self.choice); "
    "members are registered through syms[*] by _add_choice_deps",
    ("Choice", "self.defaults[*][0]"): "a choice default must be a member (reported by _check_choice_sanity "
    "otherwise); members are registered through syms[*]",
}

# guards that may surround a registration site without making it conditional on configuration
ALLOWED_REG_GUARDS = {"self.nodes[*].prompt"}


def _registered(ctx, cls: str) -> Tuple[Dict[str, List[int]], List[Tuple[str, str, int]]]:
    """Components of one Symbol/Choice registered as invalidation edges, with the guards of each site."""
    repo = ctx.repo
    iter_attr = "unique_defined_syms" if cls == "Symbol" else "unique_choices"
    reg: Dict[str, List[int]] = {}
    guarded: List[Tuple[str, str, int]] = []
    for fq in (f"{CORE}:Kconfig._build_dep", f"{CORE}:Kconfig._add_choice_deps"):
        f = repo.func(fq)
        ctx.analysed(fq)
        res = Resolver(f.node)
        flow = Flow(f.node, resolver=res).run()
        for loop in ast.walk(f.node):
            if not (isinstance(loop, ast.For) and isinstance(loop.iter, ast.Attribute) and loop.iter.attr == iter_attr
                    and isinstance(loop.target, ast.Name)):
                continue

            class Reg(PathWalker):
                def visit_Call(self, n: ast.Call):
                    fn = n.func
                    nm = None
                    if isinstance(fn, ast.Name):
                        nm = res.text(fn)
                    if nm in ("_depend_on",) and len(n.args) == 2:
                        who, what = self.path(n.args[0]), self.path(n.args[1])
                        if who == "self" and what is not None:
                            self.a.reg_add(what, n, self)
                    # X._dependents.add(self)
                    if (isinstance(fn, ast.Attribute) and fn.attr == "add" and isinstance(fn.value, ast.Attribute)
                            and fn.value.attr == "_dependents" and len(n.args) == 1):
                        who, what = self.path(n.args[0]), self.path(fn.value.value)
                        if who == "self" and what is not None:
                            self.a.reg_add(what, n, self)
                    self.generic_visit(n)

            class A(ReadSetAnalysis):
                def reg_add(self_a, what, node, w):
                    reg.setdefault(what, []).append(node.lineno)
                    gs = flow.guards_at(node) or set()
                    for key, pol in gs:
                        k = _subst_env(key, w.env).replace(f"self.{iter_attr}[*]", "self")
                        if not (pol and k in ALLOWED_REG_GUARDS):
                            guarded.append((what, f"{k} is {pol}", node.lineno))

            a = A(repo, CORE, "Kconfig", 0, set(), set())
            w = Reg(a, f, {loop.target.id: "self"}, 0, ())
            for s in loop.body:
                w.visit(s)
    return reg, guarded


def _subst_env(key: str, env: Dict[str, str]) -> str:
    """Rewrite a guard key so that local names are replaced by the walker's current access paths."""
    try:
        tree = ast.parse(key, mode="eval").body
    except SyntaxError:
        return key

    class T(ast.NodeTransformer):
        def visit_Name(self, n):
            p = env.get(n.id)
            if p is None:
                return n
            return ast.parse(p.replace("[*]", "[STAR]"), mode="eval").body

    return ast.unparse(T().visit(tree)).replace("[STAR]", "[*]")


def _covered(path: str, reg: Dict[str, List[int]]) -> Optional[str]:
    for r in reg:
        if path == r or path.startswith(r + ".") or path.startswith(r + "["):
            return r
    return None


def r03_1(ctx):
    """R03.1 read set of the evaluators is a subset of the registered invalidation edges (and the
    registration sites are unconditional)."""
    repo = ctx.repo
    for cls, evals in (("Symbol", SYMBOL_EVALUATORS), ("Choice", CHOICE_EVALUATORS)):
        a = ReadSetAnalysis(repo, CORE, cls, ctx.depth, DYN_ATTRS, DYN_FUNCS)
        for e in evals:
            a.run(repo.func(f"{CORE}:{cls}.{e}"))
        ctx.analysed(*a.functions)
        reg, guarded = _registered(ctx, cls)
        if not reg:
            raise AnchorError(f"no registration sites found for {cls} in _build_dep/_add_choice_deps")
        comps = a.components()
        for path, reads in sorted(comps.items()):
            r0 = reads[0]
            where = f"esp_kconfiglib/core.py:{r0.line}"
            construct = f"{cls}/read {path}"
            if path == "self":
                continue
            ex = EXEMPT_READS.get((cls, path))
            cov = _covered(path, reg)
            if cov is not None:
                ctx.ok(construct, where, registered_as=cov, readers=sorted({f"{r.func} via {r.via}" for r in reads})[:6])
            elif ex is not None:
                ctx.exempt(construct, ex, where)
            else:
                ctx.bad(construct,
                        f"{cls} evaluators read {path} dynamically ({r0.via} in {r0.func}) but _build_dep/_add_choice_deps "
                        f"register no invalidation edge for it: a change of that item leaves the cached value stale and "
                        f"is invisible to the dependency-loop check", where,
                        readers=sorted({f"{r.func}:{r.line} via {r.via}" for r in reads})[:8], registered=sorted(reg))
        for what, g, line in guarded:
            ctx.bad(f"{cls}/registration of {what} is conditional", f"the edge for {what} is only registered under {g}",
                    f"esp_kconfiglib/core.py:{line}", guard=g)
        for what, lines in sorted(reg.items()):
            if not any(w == what for w, _, _ in guarded):
                ctx.ok(f"{cls}/registration of {what} unconditional", f"esp_kconfiglib/core.py:{lines[0]}", nontrivial=False)


# ----------------------------------------------------------------------------- R03.2
TRACKED = {"_user_value", "_user_selection"}
INVALIDATORS = {"_rec_invalidate", "_rec_invalidate_if_has_prompt"}
CONSTRUCTORS = {"__init__", "init_rest"}


def _written_attrs(stmt: ast.stmt) -> List[ast.Attribute]:
    out = []
    tgts: List[ast.AST] = []
    if isinstance(stmt, ast.Assign):
        tgts = list(stmt.targets)
    elif isinstance(stmt, (ast.AugAssign, ast.AnnAssign)):
        tgts = [stmt.target]
    for t in tgts:
        for e in (t.elts if isinstance(t, (ast.Tuple, ast.List)) else [t]):
            if isinstance(e, ast.Attribute):
                out.append(e)
    return out


def _construction_time(ctx, cg: CallGraph) -> Set[str]:
    roots = [f"{CORE}:Kconfig._parse_block", f"{CORE}:Kconfig._new_parse", f"{CORE}:Kconfig._finalize_node",
             f"{CORE}:Kconfig._check_sym_sanity", f"{CORE}:Kconfig._check_choice_sanity"]
    for r in roots:
        ctx.repo.func(r)
    reach = cg.reachable(roots)
    reach |= {q for q in ctx.repo.funcs if q.startswith("esp_kconfiglib.kconfig_parser:")
              or q.startswith("esp_kconfiglib.kconfig_grammar:")}
    return reach


def r03_2(ctx):
    """R03.2 every write of an evaluation input (_user_value, _user_selection, defaults rewritten after
    construction) lives in esp_kconfiglib/core.py and is followed on every path by a recursive invalidation
    of the same receiver (or of its choice)."""
    repo = ctx.repo
    cg = CallGraph(repo)
    ctime = _construction_time(ctx, cg)
    for f in list(repo.all_funcs()):
        if f.name in CONSTRUCTORS:
            continue
        writes: List[Tuple[ast.stmt, ast.Attribute]] = []
        for n in ast.walk(f.node):
            if isinstance(n, ast.stmt) and repo.enclosing_func(n) is f:
                for a in _written_attrs(n):
                    if a.attr in TRACKED or (a.attr == "defaults" and f.qual not in ctime):
                        writes.append((n, a))
        if not writes:
            continue
        ctx.analysed(f.qual)
        for stmt, attr in writes:
            recv = ast.unparse(attr.value)
            construct = f"{f.short}/write {recv}.{attr.attr}"
            where = f.loc(stmt)
            if f.module.name != CORE:
                ctx.bad(construct, f"{attr.attr} is written outside esp_kconfiglib/core.py: evaluation inputs may only "
                        "change through set_value/unset_value/_restore_default, which invalidate", where)
                continue
            pend = f"w:{recv}.{attr.attr}:{stmt.lineno}"
            accepted = {recv, recv + ".choice"}

            def events(node, _stmt=stmt, _pend=pend):
                return [_pend] if node is _stmt else []

            def kills(node, _pend=pend, _acc=accepted):
                for c in ast.walk(node) if not isinstance(node, (ast.If, ast.For, ast.While, ast.With, ast.Try)) else []:
                    if (isinstance(c, ast.Call) and isinstance(c.func, ast.Attribute) and c.func.attr in INVALIDATORS
                            and ast.unparse(c.func.value) in _acc):
                        return [_pend]
                return []

            fl = Flow(f.node, must=False, events=events, kills=kills, track_guards=False).run()
            leaks = [(k, n) for k, n, st in fl.exits if ("ev", pend) in st and k != "raise"]
            if leaks:
                k, n = leaks[0]
                ctx.bad(construct, f"a path from the write of {recv}.{attr.attr} reaches the function's {k} at line "
                        f"{getattr(n, 'lineno', '?')} without {recv}._rec_invalidate()/_rec_invalidate_if_has_prompt(): "
                        "dependants keep stale cached values", where)
            else:
                ctx.ok(construct, where, followed_by="recursive invalidation on every path", receiver=recv)


def r03_3(ctx):
    """R03.3 _invalidate() of Symbol and Choice assigns every _cached_* attribute of its class."""
    repo = ctx.repo
    for cls in ("Symbol", "Choice"):
        cq = f"{CORE}:{cls}"
        cached: Set[str] = set()
        try:
            cached |= {s for s in repo.slots(cq) if s.startswith("_cached_")}
        except AnchorError:
            pass
        for mname in ("__init__", "init_rest"):
            m = repo.funcs.get(f"{cq}.{mname}")
            if m is None:
                continue
            for n in ast.walk(m.node):
                if isinstance(n, ast.stmt):
                    for a in _written_attrs(n):
                        if a.attr.startswith("_cached_") and isinstance(a.value, ast.Name) and a.value.id == "self":
                            cached.add(a.attr)
        # any method that stores into a _cached_ attribute defines one too
        for name, m in repo.methods(cq).items():
            for n in ast.walk(m.node):
                if isinstance(n, ast.stmt):
                    for a in _written_attrs(n):
                        if a.attr.startswith("_cached_") and isinstance(a.value, ast.Name) and a.value.id == "self":
                            cached.add(a.attr)
        inv = repo.func(f"{cq}._invalidate")
        ctx.analysed(inv.qual)
        cleared = set()
        for n in ast.walk(inv.node):
            if isinstance(n, ast.stmt):
                for a in _written_attrs(n):
                    cleared.add(a.attr)
        if not cached:
            raise AnchorError(f"no _cached_* attributes found for {cls}")
        for c in sorted(cached):
            construct = f"{cls}._invalidate/clears {c}"
            if c in cleared:
                ctx.ok(construct, inv.loc())
            else:
                ctx.bad(construct, f"{cls}._invalidate() does not reset {c}: the memoised result survives invalidation",
                        inv.loc())


# ----------------------------------------------------------------------------- R03.4
SIDE = {"_write_to_conf", "_has_active_indirect_set"}
WARMERS = {"str_value", "bool_value", "config_string"}
EVALUATOR_FUNCS = {f"{CORE}:Symbol.str_value", f"{CORE}:Symbol.bool_value", f"{CORE}:Symbol.init_rest"}


def _warm_events(resolver: Resolver):
    def ev(node):
        out = []
        it = ast.walk(node) if not isinstance(node, (ast.If, ast.For, ast.While, ast.With, ast.Try, ast.FunctionDef)) else []
        for c in it:
            if isinstance(c, ast.Attribute) and c.attr in WARMERS and isinstance(c.ctx, ast.Load):
                out.append("warm:" + resolver.text(c.value))
        return out
    return ev


def r03_4(ctx):
    """R03.4 _write_to_conf / _has_active_indirect_set are computed by str_value/bool_value: every read outside
    the evaluators is dominated, in the same function, by a value read (str_value, bool_value, config_string) of
    the same receiver."""
    repo = ctx.repo
    for f in list(repo.all_funcs()):
        if f.qual in EVALUATOR_FUNCS:
            continue
        reads = [n for n in ast.walk(f.node) if isinstance(n, ast.Attribute) and n.attr in SIDE
                 and isinstance(n.ctx, ast.Load) and repo.enclosing_func(n) is f]
        if not reads:
            continue
        ctx.analysed(f.qual)
        res = Resolver(f.node)
        fl = Flow(f.node, resolver=res, events=_warm_events(res)).run()
        for r in reads:
            recv = res.text(r.value)
            construct = f"{f.short}/read {recv}.{r.attr}"
            evs = fl.events_at(r)
            if evs is None:
                continue
            stmt = repo.enclosing_stmt(r)
            same_stmt_before = not isinstance(stmt, (ast.For, ast.While, ast.If, ast.With, ast.Try)) and any(
                isinstance(c, ast.Attribute) and c.attr in WARMERS and res.text(c.value) == recv
                and (c.lineno, c.col_offset) < (r.lineno, r.col_offset) for c in ast.walk(stmt))
            if f"warm:{recv}" in evs or same_stmt_before:
                ctx.ok(construct, f.loc(r), dominated_by=f"{recv}.str_value/bool_value/config_string")
            else:
                ctx.bad(construct, f"{recv}.{r.attr} is read without a preceding {recv}.str_value/bool_value in this "
                        "function: the flag is only recomputed by the evaluator, so the result depends on read order "
                        "after an invalidation", f.loc(r))


# ----------------------------------------------------------------------------- R03.5
def r03_5(ctx):
    """R03.5 shape of the traversal helpers: _depend_on recurses into both operands and adds the edge for every
    non-constant leaf; _rec_invalidate clears self and recurses over _dependents; the prompt-gated variant reaches
    _rec_invalidate for any node with a prompt."""
    repo = ctx.repo
    f = repo.func(f"{CORE}:_depend_on")
    ctx.analysed(f.qual)
    res = Resolver(f.node)
    fl = Flow(f.node, resolver=res).run()
    params = [a.arg for a in f.node.args.args]
    if len(params) != 2:
        raise AnchorError("_depend_on no longer takes (sc, expr)")
    sc, ex = params
    rec = {1: None, 2: None}
    leaf = None
    for n in ast.walk(f.node):
        if isinstance(n, ast.Call):
            if isinstance(n.func, ast.Name) and n.func.id == f.name and len(n.args) == 2:
                a1 = res.text(n.args[1])
                for i in (1, 2):
                    if a1 == f"{ex}[{i}]":
                        rec[i] = n
                # `for operand in expr[1:]: _depend_on(sc, operand)` visits every operand there is
                if isinstance(n.args[1], ast.Name) and any(
                        isinstance(lp, ast.For) and isinstance(lp.target, ast.Name) and lp.target.id == n.args[1].id
                        and ast.unparse(lp.iter) == f"{ex}[1:]" and any(x is n for b in lp.body for x in ast.walk(b)) for lp in ast.walk(f.node)):
                    rec[1] = rec[2] = n
            if (isinstance(n.func, ast.Attribute) and n.func.attr == "add" and ast.unparse(n.func.value) == f"{ex}._dependents"
                    and len(n.args) == 1 and ast.unparse(n.args[0]) == sc):
                leaf = n
    for i in (1, 2):
        construct = f"_depend_on/recurse into operand {i}"
        if rec[i] is None:
            ctx.bad(construct, f"_depend_on does not recurse into {ex}[{i}]: symbols in that operand get no edge", f.loc())
            continue
        gs = fl.guards_at(rec[i]) or set()
        extra = {(k, p) for k, p in gs if not (k == f"type({ex}) is tuple" and p) and not (i == 2 and k == f"{ex}[0] == NOT" and not p)}
        if extra:
            ctx.bad(construct, f"recursion into {ex}[{i}] is additionally guarded by {sorted(extra)}", f.loc(rec[i]))
        else:
            ctx.ok(construct, f.loc(rec[i]), guards=sorted(map(str, gs)))
    construct = "_depend_on/leaf edge"
    if leaf is None:
        ctx.bad(construct, f"no `{ex}._dependents.add({sc})` in _depend_on", f.loc())
    else:
        gs = fl.guards_at(leaf) or set()
        extra = {(k, p) for k, p in gs if not (k == f"type({ex}) is tuple" and not p) and not (k == f"{ex}.is_constant" and not p)}
        if extra:
            ctx.bad(construct, f"the leaf edge is additionally guarded by {sorted(extra)}", f.loc(leaf))
        else:
            ctx.ok(construct, f.loc(leaf), guards=sorted(map(str, gs)))
    for cls in ("Symbol", "Choice"):
        m = repo.func(f"{CORE}:{cls}._rec_invalidate")
        ctx.analysed(m.qual)
        res = Resolver(m.node)
        fl = Flow(m.node, resolver=res).run()
        own = None
        recur = None
        for n in ast.walk(m.node):
            if isinstance(n, ast.Call) and isinstance(n.func, ast.Attribute):
                if n.func.attr == "_invalidate" and ast.unparse(n.func.value) == "self":
                    own = n
                if n.func.attr == "_rec_invalidate" and res.text(n.func.value) == "self._dependents[*]":
                    recur = n
        for label, node in (("clears own caches", own), ("recurses over _dependents", recur)):
            construct = f"{cls}._rec_invalidate/{label}"
            if node is None:
                ctx.bad(construct, f"{cls}._rec_invalidate no longer {label}", m.loc())
                continue
            gs = fl.guards_at(node) or set()
            extra = {(k, p) for k, p in gs if not (k == "self._invalidating" and not p) and not (k == "self._invalidating" and p)}
            if extra:
                ctx.bad(construct, f"guarded by {sorted(extra)}", m.loc(node))
            else:
                ctx.ok(construct, m.loc(node))
    m = repo.func(f"{CORE}:Symbol._rec_invalidate_if_has_prompt")
    ctx.analysed(m.qual)
    res = Resolver(m.node)
    fl = Flow(m.node, resolver=res).run()
    call = None
    for n in ast.walk(m.node):
        if isinstance(n, ast.Call) and isinstance(n.func, ast.Attribute) and n.func.attr == "_rec_invalidate" \
                and ast.unparse(n.func.value) == "self":
            call = n
    construct = "Symbol._rec_invalidate_if_has_prompt/reaches _rec_invalidate under a prompt"
    if call is None:
        ctx.bad(construct, "no call of self._rec_invalidate()", m.loc())
    else:
        gs = fl.guards_at(call) or set()
        import re as _re
        # the prompt test as a loop over the nodes or as `any(node.prompt for node in self.nodes)`
        any_form = _re.compile(r"any\(\(?(\w+)\.prompt for \1 in self\.nodes\)?\)")
        extra = {(k, p) for k, p in gs if not (k == "self.nodes[*].prompt" and p) and not (any_form.fullmatch(k) and p)}
        if extra:
            ctx.bad(construct, f"guarded by {sorted(extra)} besides the prompt test", m.loc(call))
        else:
            ctx.ok(construct, m.loc(call), guards=sorted(map(str, gs)))


def r03_6(ctx):
    """R03.6 side results belong to one evaluator per type: Symbol.bool_value stores _write_to_conf only for BOOL symbols
    (after the non-bool early return), Symbol.str_value only for defined non-bool symbols - otherwise evaluating a
    non-bool symbol in a logical context clobbers the flag that its still-valid cached string value was computed with."""
    repo = ctx.repo
    for q, need, forbid in ((f"{CORE}:Symbol.bool_value", ("self.orig_type == BOOL", True), None),
                            (f"{CORE}:Symbol.str_value", ("self.orig_type == BOOL", False), None)):
        f = repo.func(q)
        ctx.analysed(q)
        fl = Flow(f.node, resolver=Resolver(f.node)).run()
        sites = [n for n in ast.walk(f.node) if isinstance(n, ast.Assign) and any(ast.unparse(t) in ("self._write_to_conf", "self._has_active_indirect_set") for t in n.targets)]
        if not sites:
            raise AnchorError(f"{f.short}: no side-result stores")
        bad = [n for n in sites if need not in (fl.guards_at(n) or set())]
        construct = f"{f.short}/side results stored only for the types this evaluator owns"
        if bad:
            ctx.bad(construct, f"`{ast.unparse(bad[0])}` is reachable without {need[0]} being {need[1]}: the other evaluator's side result is overwritten while "
                    "its cached value stays valid, so config_string changes with the read order", f.loc(bad[0]))
        else:
            ctx.ok(construct, f.loc(sites[0]), stores=len(sites))
    # the marker is decided after the value in config_string (the callee reads the flag cold)
    cs = repo.func(f"{CORE}:Symbol.config_string")
    ctx.analysed(cs.qual)
    res = Resolver(cs.node)
    fl = Flow(cs.node, resolver=res, events=_warm_events(res)).run()
    calls = [n for n in ast.walk(cs.node) if isinstance(n, ast.Call) and ast.unparse(n.func) == "self.has_active_default_value"]
    construct = "Symbol.config_string/value evaluated before the default marker is decided"
    if not calls:
        ctx.bad(construct, "has_active_default_value() no longer consulted", cs.loc())
    else:
        evs = fl.events_at(calls[0]) or set()
        (ctx.ok(construct, cs.loc(calls[0])) if "warm:self" in evs else
         ctx.bad(construct, "has_active_default_value() (which reads _has_active_indirect_set) runs before self.str_value has been evaluated: after an "
                 "invalidation the marker comes from the previous evaluation and two consecutive writes of one configuration differ", cs.loc(calls[0])))
    # collectors use every component they unpack
    from .common import collected_components
    collected_components(ctx, [f"{CORE}:MenuNode.dependencies", f"{CORE}:MenuNode.referenced"], ("res.add", "res.update", "expr_items"),
                         "the symbol is missing from the set that drives default resolution order / reference tracking")


def r03_7(ctx):
    """R03.7 side results are recomputed by every evaluation: on every path through each typed branch of Symbol.str_value
    the flag `_has_active_indirect_set` is assigned before the value is cached - a path that leaves it untouched carries
    the flag of an *earlier* evaluation into this one (history dependence: the value after some sequence of changes differs
    from a fresh instance's, and discarding the caches does not help because the flag is not a cache)."""
    repo = ctx.repo
    f = repo.func(f"{CORE}:Symbol.str_value")
    ctx.analysed(f.qual)
    from . import c01
    br = c01.typed_branches(f.node)

    def ev(n):
        if isinstance(n, (ast.If, ast.For, ast.While, ast.With, ast.Try)):
            return []
        return ["flag"] if isinstance(n, ast.Assign) and any(ast.unparse(t) == "self._has_active_indirect_set" for t in n.targets) else []

    for name in ("INTHEX", "STRING", "FLOAT"):
        fl = Flow(f.node, resolver=Resolver(f.node), events=ev, body=br[name]).run()
        construct = f"Symbol.str_value/{name}/_has_active_indirect_set assigned on every path"
        stale = [(kind, getattr(node, "lineno", 0)) for kind, node, st in fl.exits if kind in ("fallthrough", "return") and "flag" not in {x[1] for x in st if x[0] == "ev"}]
        if stale:
            ctx.bad(construct, f"{len(stale)} way(s) through the branch reach the end without assigning the flag: it keeps the value an earlier "
                    "evaluation stored", f.loc(br[name][0]))
        else:
            ctx.ok(construct, f.loc(br[name][0]), exits=len(fl.exits))


def r03_8(ctx):
    """R03.8 `_write_to_conf` is a side result of the evaluation too: every path of Symbol.str_value that stores a freshly
    computed value into the cache has assigned `_write_to_conf` first (a shortcut that returns before `_write_to_conf =
    vis != 0` leaves the flag of an earlier evaluation: the option keeps being written after it became invisible)."""
    from .common import must_precede
    repo = ctx.repo
    f = repo.func(f"{CORE}:Symbol.str_value")
    ctx.analysed(f.qual)
    stores = [n for n in ast.walk(f.node) if isinstance(n, ast.Assign) and any(ast.unparse(t) == "self._cached_str_val" for t in n.targets)
              and "bool_value" not in ast.unparse(n.value) and ast.unparse(n.value) != "self.name"]  # bool: delegated; UNKNOWN type: its own name, never written
    if not stores:
        raise AnchorError("Symbol.str_value: no store into _cached_str_val")
    must_precede(ctx, f, lambda n: isinstance(n, ast.Assign) and any(ast.unparse(t) == "self._write_to_conf" for t in n.targets), stores,
                 lambda i, s_: f"Symbol.str_value/cache store #{i + 1} happens after _write_to_conf was assigned",
                 "the value is cached on a path that has not (re)computed _write_to_conf: config_string keeps using the flag of the previous evaluation")

def r03_9(ctx):
    """R03.9 what an assignment records does not depend on the configuration it arrives in: in Symbol.set_value / Choice.set_value the
    stores of the user value, the user pick and the per-load marks are reached under tests of the arguments and of stored state only,
    never of visibility / current value / current selection - otherwise the same assignments in another order (or after a replacing
    load) leave different user state, and incremental evaluation differs from a fresh instance."""
    from .common import stores_independent_of_evaluation
    n = stores_independent_of_evaluation(ctx, [f"{CORE}:Symbol.set_value", f"{CORE}:Choice.set_value"], ("_user_value", "_user_selection", "_was_set"),
                                         "the recorded user state depends on the order of the assignments")
    if n < 6:
        raise AnalysisError(f"only {n} user-state stores found in the setters")


def r03_10(ctx):
    """R03.10 a replacing load leaves the state a fresh instance would have after loading the same file: the per-load marks are reset
    before the lines are read and whatever the file did not set is unset afterwards, for symbols and for choices, decided on the
    per-load mark alone (C05 R05.7a)."""
    from . import c05
    from .common import delegate
    delegate(ctx, c05.r05_7, lambda c: "replacing load" in c or "is reset over" in c)


def r03_11(ctx):
    """R03.11 what decides a `set` target is computed in this evaluation: in the typed branches of Symbol.str_value the steps run in
    source order - ranges, `set`, user value, `set default`, defaults (C01 R01.2) - so that nothing reads the `set` flag before the
    `set` step of the same evaluation has written it."""
    from . import c01
    from .common import delegate
    delegate(ctx, c01.r01_2, lambda c: True)


def rules():
    return [("R03.11", r03_11, 2), ("R03.10", r03_10, 4), ("R03.9", r03_9, 6), ("R03.8", r03_8, 1), ("R03.7", r03_7, 3), ("R03.1", r03_1, 14), ("R03.2", r03_2, 9), ("R03.3", r03_3, 7), ("R03.4", r03_4, 4), ("R03.5", r03_5, 8), ("R03.6", r03_6, 5)]
